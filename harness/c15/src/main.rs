//! C15 — malformed proofs are rejected with an error, never a panic or a weaker circuit.
//!
//! Enumerated (fault_enumeration, engine E4): for every configuration (quick: a fixed cross-section,
//! thorough: the whole `vpe4::catalogue()`), EVERY single structural fault of the honest object
//!
//! * proof tree (proof + public values + preprocessed commitment / batch common data): every array
//!   popped / last element duplicated / emptied, every object member set to `null`, every `null`
//!   filled, every structural integer (`degree_bits`, `log_arity`, `matrix_index`, `width`,
//!   `matrix_to_instance`) ← −1, +1, 0, 63;
//! * parameter set: every integer of `FriVerifierParams` ← −1, +1, 0, 63 — once alone (inconsistent
//!   with the `StarkConfig`) and once together with the same field of the config's `FriParameters`
//!   (consistent but wrong for the proof) —, `permutation_config` Some→None, and the config-only
//!   FRI parameters `num_queries`, `max_log_arity`, MMCS `cap_height` ← −1, +1, 0, 63;
//! * circuit-table proofs: every array / `Option` / integer / bool / enum variant of the
//!   `BatchStarkProof` metadata (`table_packing`, `rows`, `alu_variant`, `ext_degree`, …).
//!
//! Each faulted object is deserialised back (failure = "not a proof", counted, skipped) and driven
//! through the repository's real entry points, in this order, by the E4 engines:
//! `*VerifierInputsBuilder::allocate` → `verify_p3_uni_proof_circuit` / `verify_batch_circuit` /
//! `verify_p3_batch_proof_circuit` (which reach `verify_fri_circuit`) → `CircuitBuilder::build` →
//! `pack_values` → `set_public/private_inputs` → `set_*_mmcs_private_data` → `run`.
//!
//! Crash isolation: the parent process only proves and judges the HONEST object of a configuration.
//! EVERY faulted case, whatever its class, is executed in child processes of this binary
//! (`--worker <config>`, sequential, `ulimit -v` 4 GiB, per-case watchdog); configurations are
//! driven in parallel, the number of live children is bounded. A child that dies (allocation
//! failure = SIGABRT, stack overflow = SIGSEGV, watchdog kill) is replaced for the remaining
//! cases and the one case in flight gets outcome "abort" (if it died inside the NATIVE verifier
//! the case is re-run with the native half skipped — native crashes are not the subject).
//!
//! Oracle (the two clauses of the property statement):
//! (a) no entry point PANICS (caught with `quiet_catch`) or ABORTS (a dead child = outcome "abort",
//!     violation key `abort|<fault class>`);
//! (b) never a WEAKER circuit: if the circuit is returned and its run is `Ok` on the malformed object
//!     while Plonky3's native verifier (same object, same parameters) returns `Err`, the circuit
//!     checks less than the well-formed shape requires.
//! A returned `Err` (at build time or at run time) is the expected behaviour.

use std::collections::BTreeMap;
use std::io::{BufRead, BufReader, Write};
use std::process::{Command, Stdio};
use std::sync::Mutex;
use std::sync::atomic::{AtomicU64, Ordering};
use std::sync::mpsc;
use std::time::{Duration, Instant};

use vpcore::serde_json::{self, Value, json};
use vpcore::{Ctx, Histo, Report, finish, machinery_error};
use vpe4::tree::{Path, get, get_mut};
use vpe4::{
    Fixture, FriSpec, FvpSpec, ParamOverride, StructFault, Verdict, apply_struct_fault, catalogue, class_string, leaves,
    parse_path, path_string, struct_faults,
};

// ---------------------------------------------------------------------------------------------
// cases

/// Both tiers sweep the whole catalogue (thorough with more fault kinds and values). This
/// cross-section goes first, so that a slow machine loses breadth at the tail, never the core:
/// uni-STARK Fibonacci, uni-STARK with a preprocessed trace and a longer final polynomial / higher
/// arity, batch with local+global lookups and preprocessed columns (cap height 1), a circuit-table
/// batch proof (with `BatchStarkProof` metadata), a hiding-PCS batch, a D = 5 circuit-table proof.
const QUICK: &[&str] = &[
    "babybear_d4_p2w16/uni/fri/fib8/fri_testing",
    "babybear_d4_p2w16/uni/fri/mul_prep/fri_b1_a2_f1",
    "babybear_d4_p2w16/batch/fri/lookups_local_global/fri_testing_cap1",
    "babybear_d4_p2w16/batch/fri/circuit_tables_arith10_d1/fri_testing",
    "babybear_d4_p2w16/batch/hiding_fri/lookups_local_global/fri_testing",
    "koalabear_quintic_d5_p2w16d1/batch/fri/circuit_tables_arith10_d5/fri_testing",
    "goldilocks_d2_p2w8/batch/fri/mixed3_prep_tall/fri_b2_a3_f2",
];

const FVP_FIELDS: &[&str] = &["log_blowup", "log_final_poly_len", "commit_pow_bits", "query_pow_bits"];
const CONFIG_ONLY_FIELDS: &[&str] = &["num_queries", "max_log_arity", "cap_height"];

#[derive(Clone, Debug, PartialEq)]
enum Scope {
    /// only `FriVerifierParams` (inconsistent with the `StarkConfig`)
    Fvp,
    /// `FriVerifierParams` and the same field of the config's `FriParameters`
    Both,
    /// a `FriParameters` / MMCS field that `FriVerifierParams` does not carry
    Config,
}

impl Scope {
    fn tag(&self) -> &'static str {
        match self {
            Scope::Fvp => "fvp_only",
            Scope::Both => "fvp+config",
            Scope::Config => "config_only",
        }
    }
    fn from_tag(s: &str) -> Option<Scope> {
        Some(match s {
            "fvp_only" => Scope::Fvp,
            "fvp+config" => Scope::Both,
            "config_only" => Scope::Config,
            _ => return None,
        })
    }
}

/// A fault of a JSON tree: one of E4's structural faults, or a replaced scalar (bool / enum name).
#[derive(Clone, Debug)]
enum TFault {
    S(StructFault),
    Replace { path: Path, value: Value, tag: &'static str },
}

impl TFault {
    fn path(&self) -> &Path {
        match self {
            TFault::S(f) => f.path(),
            TFault::Replace { path, .. } => path,
        }
    }
    /// fault kind without values: `int-1`, `int+1`, `int=0`, `int=63`, `pop`, `dup_last`, …
    fn kind(&self, honest: &Value) -> String {
        match self {
            TFault::S(StructFault::IntSet(p, v)) => {
                let old = get(honest, p).and_then(|x| x.as_u64()).unwrap_or(u64::MAX);
                format!("int{}", rel(old, *v))
            }
            TFault::S(f) => f.tag(),
            TFault::Replace { tag, .. } => tag.to_string(),
        }
    }
    fn apply(&self, tree: &Value) -> Option<Value> {
        match self {
            TFault::S(f) => apply_struct_fault(tree, f),
            TFault::Replace { path, value, .. } => {
                let mut t = tree.clone();
                *get_mut(&mut t, path)? = value.clone();
                Some(t)
            }
        }
    }
    fn is_int(&self) -> bool {
        matches!(self, TFault::S(StructFault::IntSet(..)))
    }
    fn to_json(&self) -> Value {
        let p = path_string(self.path());
        match self {
            TFault::S(StructFault::Pop(_)) => json!({"k": "pop", "path": p}),
            TFault::S(StructFault::DupLast(_)) => json!({"k": "dup_last", "path": p}),
            TFault::S(StructFault::Empty(_)) => json!({"k": "empty", "path": p}),
            TFault::S(StructFault::SetNull(_)) => json!({"k": "set_null", "path": p}),
            TFault::S(StructFault::FillNull(_)) => json!({"k": "fill_null", "path": p}),
            TFault::S(StructFault::FillNullFrom(_, k)) => json!({"k": "fill_null_from", "path": p, "from": k}),
            TFault::S(StructFault::IntSet(_, v)) => json!({"k": "int", "path": p, "v": v}),
            TFault::Replace { value, tag, .. } => json!({"k": "replace", "path": p, "v": value, "tag": tag}),
        }
    }
    fn from_json(v: &Value) -> Option<TFault> {
        let p = parse_path(v["path"].as_str()?);
        Some(match v["k"].as_str()? {
            "pop" => TFault::S(StructFault::Pop(p)),
            "dup_last" => TFault::S(StructFault::DupLast(p)),
            "empty" => TFault::S(StructFault::Empty(p)),
            "set_null" => TFault::S(StructFault::SetNull(p)),
            "fill_null" => TFault::S(StructFault::FillNull(p)),
            "fill_null_from" => TFault::S(StructFault::FillNullFrom(p, v["from"].as_str()?.to_string())),
            "int" => TFault::S(StructFault::IntSet(p, v["v"].as_u64()?)),
            "replace" => TFault::Replace {
                path: p,
                value: v["v"].clone(),
                tag: match v["tag"].as_str()? {
                    "toggle_bool" => "toggle_bool",
                    "pop_first" => "pop_first",
                    "dup_first" => "dup_first",
                    _ => "swap_variant",
                },
            },
            _ => return None,
        })
    }
}

#[derive(Clone, Debug)]
enum Case {
    /// fault of the proof tree
    Tree(TFault),
    /// one parameter ← value
    Param { scope: Scope, field: String, value: u64 },
    /// `FriVerifierParams::permutation_config` Some → None
    NoMmcs,
    /// fault of the `BatchStarkProof` metadata (circuit-table fixtures)
    Meta(TFault),
    /// `--opt selftest=abort|hang`: not a fault of the repository but of the harness' own worker
    /// (allocate 1 TiB / sleep forever) — demonstrates that a dying or hanging child is seen
    SelfTest(String),
}

/// Integer fault relative to the honest value, without the values themselves: `-1`, `+1`, `=0`,
/// `=small` (1, 2), `=big` (≥ 31: 31, 32, 63, 64, 255, 2^32).
fn rel(old: u64, new: u64) -> String {
    if new.wrapping_add(1) == old {
        "-1".into()
    } else if new == old.wrapping_add(1) {
        "+1".into()
    } else if new == 0 {
        "=0".into()
    } else if new < 31 {
        "=small".into()
    } else {
        "=big".into()
    }
}

impl Case {
    fn to_json(&self) -> Value {
        match self {
            Case::Tree(f) => json!({"t": "tree", "f": f.to_json()}),
            Case::Meta(f) => json!({"t": "meta", "f": f.to_json()}),
            Case::Param { scope, field, value } => json!({"t": "param", "scope": scope.tag(), "field": field, "v": value}),
            Case::NoMmcs => json!({"t": "no_mmcs"}),
            Case::SelfTest(k) => json!({"t": "selftest", "k": k}),
        }
    }
    fn from_json(v: &Value) -> Option<Case> {
        Some(match v["t"].as_str()? {
            "tree" => Case::Tree(TFault::from_json(&v["f"])?),
            "meta" => Case::Meta(TFault::from_json(&v["f"])?),
            "param" => Case::Param {
                scope: Scope::from_tag(v["scope"].as_str()?)?,
                field: v["field"].as_str()?.to_string(),
                value: v["v"].as_u64()?,
            },
            "no_mmcs" => Case::NoMmcs,
            "selftest" => Case::SelfTest(v["k"].as_str()?.to_string()),
            _ => return None,
        })
    }
    /// Fault class: kind + path with indices abstracted, no values.
    fn class(&self, fx: &Fixture) -> String {
        match self {
            Case::Tree(f) => format!("{}@{}", f.kind(&fx.honest), class_string(f.path())),
            Case::Meta(f) => format!("meta:{}@{}", f.kind(&fx.extra["bsp_json"]), class_string(f.path())),
            Case::Param { scope, field, value } => {
                let old = fri_field(&fx.desc["fri"], field);
                format!("param:{}:{}{}", scope.tag(), field, rel(old, *value))
            }
            Case::NoMmcs => "param:fvp_only:permutation_config=None".into(),
            Case::SelfTest(k) => format!("selftest:{k}"),
        }
    }
    /// Coarse fault class used in violation keys: fault kind with pop/empty merged into `shorten`
    /// and dup_last called `lengthen`, applied to the NAME of the faulted member (last object key
    /// of the path), e.g. `shorten@cap`, `int+1@degree_bits`. One root cause (say, "an empty Merkle
    /// cap is not rejected") then has one key however many caps a proof shape contains.
    fn key_class(&self, fx: &Fixture) -> String {
        fn coarse(kind: String) -> String {
            match kind.as_str() {
                "pop" | "empty" | "pop_first" => "shorten".into(),
                "dup_last" | "dup_first" => "lengthen".into(),
                _ => kind,
            }
        }
        fn member(p: &Path) -> String {
            p.iter()
                .rev()
                .find_map(|s| match s {
                    vpe4::Seg::Key(k) => Some(k.clone()),
                    _ => None,
                })
                .unwrap_or_default()
        }
        match self {
            Case::Tree(f) => format!("{}@{}", coarse(f.kind(&fx.honest)), member(f.path())),
            Case::Meta(f) => format!("meta:{}@{}", coarse(f.kind(&fx.extra["bsp_json"])), member(f.path())),
            _ => self.class(fx),
        }
    }
    fn show(&self) -> String {
        match self {
            Case::Tree(f) => format!("{} {}", f.to_json()["k"].as_str().unwrap_or(""), path_string(f.path())) + &f.to_json().get("v").map(|v| format!(" <- {v}")).unwrap_or_default(),
            Case::Meta(f) => format!("metadata {} {}", f.to_json()["k"].as_str().unwrap_or(""), path_string(f.path())) + &f.to_json().get("v").map(|v| format!(" <- {v}")).unwrap_or_default(),
            Case::Param { scope, field, value } => format!("{} {} <- {}", scope.tag(), field, value),
            Case::NoMmcs => "FriVerifierParams.permutation_config <- None".into(),
            Case::SelfTest(k) => format!("harness self-test `{k}`"),
        }
    }
}

fn fri_field(fri: &Value, field: &str) -> u64 {
    fri[field].as_u64().unwrap_or_else(|| machinery_error(&format!("fixture desc has no fri.{field}")))
}

fn fri_spec_of(fri: &Value) -> FriSpec {
    let g = |k: &str| fri_field(fri, k) as usize;
    FriSpec {
        tag: "c15_override",
        log_blowup: g("log_blowup"),
        log_final_poly_len: g("log_final_poly_len"),
        max_log_arity: g("max_log_arity"),
        num_queries: g("num_queries"),
        commit_pow_bits: g("commit_pow_bits"),
        query_pow_bits: g("query_pow_bits"),
        cap_height: g("cap_height"),
    }
}

fn set_fri_field(fs: &mut FriSpec, field: &str, v: usize) {
    match field {
        "log_blowup" => fs.log_blowup = v,
        "log_final_poly_len" => fs.log_final_poly_len = v,
        "max_log_arity" => fs.max_log_arity = v,
        "num_queries" => fs.num_queries = v,
        "commit_pow_bits" => fs.commit_pow_bits = v,
        "query_pow_bits" => fs.query_pow_bits = v,
        "cap_height" => fs.cap_height = v,
        _ => machinery_error(&format!("unknown FRI field {field}")),
    }
}

fn set_fvp_field(f: &mut FvpSpec, field: &str, v: usize) {
    match field {
        "log_blowup" => f.log_blowup = v,
        "log_final_poly_len" => f.log_final_poly_len = v,
        "commit_pow_bits" => f.commit_pow_bits = v,
        "query_pow_bits" => f.query_pow_bits = v,
        _ => machinery_error(&format!("unknown FriVerifierParams field {field}")),
    }
}

/// Fault values of an integer whose honest value is `u`: −1, +1, 0, 63; thorough adds
/// 1, 2, 31, 32, 64, 255, 2^32.
fn int_values(u: u64, thorough: bool) -> Vec<u64> {
    let mut vals = vec![];
    if u > 0 {
        vals.push(u - 1);
    }
    let extra: &[u64] = if thorough { &[1, 2, 31, 32, 64, 255, 1 << 32] } else { &[] };
    for &v in [u + 1, 0, 63].iter().chain(extra) {
        if v != u && !vals.contains(&v) {
            vals.push(v);
        }
    }
    vals
}

/// Structural faults of a tree. Quick: E4's set (pop / dup_last / empty, object members → null,
/// null → filled, structural integers −1/+1/0/63). Thorough adds: EVERY node → null (array
/// elements too), first element removed / duplicated for arrays of length ≥ 2, more integer values.
fn tree_faults(tree: &Value, thorough: bool) -> Vec<TFault> {
    let mut out: Vec<TFault> = vec![];
    for f in struct_faults(tree, thorough) {
        match f {
            StructFault::IntSet(p, _) => {
                // re-enumerated below with the tier's value set
                let _ = p;
            }
            f => out.push(TFault::S(f)),
        }
    }
    for l in leaves(tree) {
        if l.kind == vpe4::LeafKind::Structural {
            for v in int_values(l.value, thorough) {
                out.push(TFault::S(StructFault::IntSet(l.path.clone(), v)));
            }
        }
    }
    if thorough {
        fn firsts(v: &Value, path: &mut Path, out: &mut Vec<TFault>) {
            match v {
                Value::Array(a) => {
                    if a.len() >= 2 {
                        let mut popped = a.clone();
                        popped.remove(0);
                        out.push(TFault::Replace { path: path.clone(), value: Value::Array(popped), tag: "pop_first" });
                        let mut dup = a.clone();
                        dup.insert(0, a[0].clone());
                        out.push(TFault::Replace { path: path.clone(), value: Value::Array(dup), tag: "dup_first" });
                    }
                    for (i, x) in a.iter().enumerate() {
                        path.push(vpe4::Seg::Idx(i));
                        firsts(x, path, out);
                        path.pop();
                    }
                }
                Value::Object(m) => {
                    for (k, x) in m {
                        path.push(vpe4::Seg::Key(k.clone()));
                        firsts(x, path, out);
                        path.pop();
                    }
                }
                _ => {}
            }
        }
        firsts(tree, &mut vec![], &mut out);
    }
    out
}

/// Every single fault of the `BatchStarkProof` metadata. `proof` and `stark_common` are left out:
/// they are the tree's `proof` / `common` (already enumerated as tree faults).
fn meta_faults(bsp: &Value, thorough: bool) -> Vec<TFault> {
    let mut view = bsp.clone();
    if let Some(m) = view.as_object_mut() {
        m.remove("proof");
        m.remove("stark_common");
    }
    let mut out: Vec<TFault> = tree_faults(&view, thorough).into_iter().filter(|f| !f.is_int()).collect();
    // every number in the metadata is a count / size / degree (w_binomial: `null` for D = 1, a
    // field element otherwise — faulted like the others)
    for l in leaves(&view) {
        for v in int_values(l.value, thorough) {
            out.push(TFault::S(StructFault::IntSet(l.path.clone(), v)));
        }
    }
    fn scalars(v: &Value, path: &mut Path, out: &mut Vec<TFault>) {
        match v {
            Value::Bool(b) => out.push(TFault::Replace { path: path.clone(), value: json!(!b), tag: "toggle_bool" }),
            Value::String(s) => {
                // the only enum in the metadata: `AirVariant::{Baseline, Optimized}`
                for alt in ["Baseline", "Optimized", "NoSuchVariant"] {
                    if alt != s {
                        out.push(TFault::Replace { path: path.clone(), value: json!(alt), tag: "swap_variant" });
                    }
                }
            }
            Value::Array(a) => {
                for (i, x) in a.iter().enumerate() {
                    path.push(vpe4::Seg::Idx(i));
                    scalars(x, path, out);
                    path.pop();
                }
            }
            Value::Object(m) => {
                for (k, x) in m {
                    path.push(vpe4::Seg::Key(k.clone()));
                    scalars(x, path, out);
                    path.pop();
                }
            }
            _ => {}
        }
    }
    scalars(&view, &mut vec![], &mut out);
    out
}

fn all_cases(fx: &Fixture, thorough: bool) -> Vec<Case> {
    let mut cases: Vec<Case> = tree_faults(&fx.honest, thorough).into_iter().map(Case::Tree).collect();
    let fri = &fx.desc["fri"];
    for field in FVP_FIELDS {
        for v in int_values(fri_field(fri, field), thorough) {
            cases.push(Case::Param { scope: Scope::Fvp, field: field.to_string(), value: v });
            cases.push(Case::Param { scope: Scope::Both, field: field.to_string(), value: v });
        }
    }
    cases.push(Case::NoMmcs);
    for field in CONFIG_ONLY_FIELDS {
        for v in int_values(fri_field(fri, field), thorough) {
            cases.push(Case::Param { scope: Scope::Config, field: field.to_string(), value: v });
        }
    }
    if !fx.extra["bsp_json"].is_null() {
        cases.extend(meta_faults(&fx.extra["bsp_json"], thorough).into_iter().map(Case::Meta));
    }
    cases
}

// ---------------------------------------------------------------------------------------------
// judging one case

#[derive(Clone, Debug)]
struct Judged {
    native: Value,
    native_tag: String,
    circuit: Value,
    circuit_tag: String,
    /// entry point the circuit side stopped in
    stage: String,
    outcome: String,
    /// panic location / message class (outcome == "panic")
    panic_loc: String,
    panic_line: String,
    /// `[ops, mmcs_ops, public_flat_len, private_flat_len]` of the returned circuit (None: no circuit)
    sig: Option<[usize; 4]>,
}

const BUILD_STAGES: &[&str] = &["allocate", "verify_circuit", "circuit_build"];

/// `"/repo/recursion/src/pcs/fri/verifier.rs:944"` → (`recursion/src/pcs/fri/verifier.rs`, `944`):
/// crate directory + path inside it, independent of where the repository / registry lives.
fn split_loc(loc: &str) -> (String, String) {
    let (file, line) = match loc.rsplit_once(':') {
        Some((f, l)) if l.chars().all(|c| c.is_ascii_digit()) => (f, l),
        _ => (loc, ""),
    };
    let short = match file.rfind("/src/") {
        Some(i) => {
            let start = file[..i].rfind('/').map(|j| j + 1).unwrap_or(0);
            &file[start..]
        }
        None => file,
    };
    (short.to_string(), line.to_string())
}

/// panic message with every number replaced by `N` (values are not part of a key)
fn msg_class(msg: &str) -> String {
    let mut out = String::new();
    let mut in_num = false;
    // first line only: `assert_eq!` appends the two values on further lines
    for c in msg.lines().next().unwrap_or("").trim().chars() {
        if c.is_ascii_digit() {
            if !in_num {
                out.push('N');
            }
            in_num = true;
        } else {
            in_num = false;
            out.push(c);
        }
    }
    out.chars().take(90).collect()
}

fn classify(n: &Verdict, c: &Verdict, stage: &str) -> Judged {
    let outcome = if n.not_a_proof() || c.not_a_proof() {
        "not_a_proof"
    } else {
        match c {
            Verdict::Panic(_) => "panic",
            Verdict::Reject(_) if BUILD_STAGES.contains(&stage) => "err",
            Verdict::Reject(_) => "run_reject",
            Verdict::Accept => match n {
                Verdict::Accept => "ok+native_accept",
                Verdict::Reject(_) => "ok+native_reject",
                _ => "ok+native_panic",
            },
            Verdict::NotAProof(_) => "not_a_proof",
        }
    };
    let (mut panic_loc, mut panic_line) = (String::new(), String::new());
    if let Verdict::Panic(m) = c {
        let (msg, loc) = m.rsplit_once(" @ ").unwrap_or((m.as_str(), ""));
        let (file, line) = split_loc(loc);
        panic_loc = format!("{file}:{}", msg_class(msg));
        panic_line = line;
    }
    Judged {
        native: n.to_json(),
        native_tag: n.tag(),
        circuit: c.to_json(),
        circuit_tag: c.tag(),
        stage: stage.to_string(),
        outcome: outcome.to_string(),
        panic_loc,
        panic_line,
        sig: if c.not_a_proof() || n.not_a_proof() { None } else { vpe4::last_build_sig() },
    }
}

impl Judged {
    fn to_json(&self) -> Value {
        json!({"native": self.native, "native_tag": self.native_tag, "circuit": self.circuit, "circuit_tag": self.circuit_tag,
               "stage": self.stage, "outcome": self.outcome, "panic_loc": self.panic_loc, "panic_line": self.panic_line,
               "circuit_size[ops,mmcs_ops,pub,priv]": self.sig.map(|s| s.to_vec())})
    }
    fn from_json(v: &Value) -> Option<Judged> {
        let s = |k: &str| v[k].as_str().map(|x| x.to_string());
        Some(Judged {
            native: v["native"].clone(),
            native_tag: s("native_tag")?,
            circuit: v["circuit"].clone(),
            circuit_tag: s("circuit_tag")?,
            stage: s("stage")?,
            outcome: s("outcome")?,
            panic_loc: s("panic_loc")?,
            panic_line: s("panic_line")?,
            sig: v["circuit_size[ops,mmcs_ops,pub,priv]"].as_array().and_then(|a| {
                let x: Vec<usize> = a.iter().filter_map(|y| y.as_u64().map(|z| z as usize)).collect();
                <[usize; 4]>::try_from(x).ok()
            }),
        })
    }
    fn dead_worker(how: &str) -> Judged {
        Judged {
            native: json!("unknown"),
            native_tag: "unknown".into(),
            circuit: json!({"abort": how}),
            circuit_tag: format!("abort:{how}"),
            stage: "unknown".into(),
            outcome: "abort".into(),
            panic_loc: String::new(),
            panic_line: String::new(),
            sig: None,
        }
    }
}

/// `None` = the fault does not apply to this object. `skip_native`: the native verifier killed
/// its process on this object before (seen by the parent of a worker), only the circuit side is
/// run. `native_done` is called between the two halves.
fn judge_with(fx: &Fixture, case: &Case, skip_native: bool, native_done: &mut dyn FnMut()) -> Option<Judged> {
    let native_dead = || Verdict::Panic("native verifier killed its process (abort / no answer) @ child-process".to_string());
    match case {
        Case::SelfTest(k) => {
            if k == "abort" {
                let v: Vec<u8> = vec![1u8; 1usize << 40];
                std::hint::black_box(&v);
            } else {
                loop {
                    std::thread::sleep(Duration::from_secs(1));
                }
            }
            None
        }
        Case::Tree(f) => {
            let t = f.apply(&fx.honest)?;
            let n = if skip_native { native_dead() } else { fx.native_verify(&t) };
            native_done();
            if n.not_a_proof() {
                return Some(classify(&n, &n, ""));
            }
            let (c, st) = fx.circuit_verify_fresh_staged(&t);
            Some(classify(&n, &c, st))
        }
        Case::Param { .. } | Case::NoMmcs | Case::Meta(_) => {
            let base = fri_spec_of(&fx.desc["fri"]);
            let mut ov = ParamOverride::default();
            match case {
                Case::Param { scope, field, value } => {
                    let v = *value as usize;
                    if *scope != Scope::Config {
                        let mut f = FvpSpec::of(&base);
                        set_fvp_field(&mut f, field, v);
                        ov.fvp = Some(f);
                    }
                    if *scope != Scope::Fvp {
                        let mut fs = base.clone();
                        set_fri_field(&mut fs, field, v);
                        ov.config = Some(fs);
                    }
                }
                Case::NoMmcs => {
                    let mut f = FvpSpec::of(&base);
                    f.mmcs = false;
                    ov.fvp = Some(f);
                }
                Case::Meta(f) => ov.bsp_json = Some(f.apply(&fx.extra["bsp_json"])?),
                Case::Tree(_) | Case::SelfTest(_) => unreachable!(),
            }
            let n = if skip_native {
                native_dead()
            } else {
                fx.native_verify_with_override(&fx.honest, &ov)
                    .unwrap_or_else(|e| machinery_error(&format!("{}: parameter override failed: {e}", fx.name)))
            };
            native_done();
            if n.not_a_proof() {
                return Some(classify(&n, &n, ""));
            }
            match fx.circuit_verify_with_override(&fx.honest, &ov) {
                Ok((c, st)) => Some(classify(&n, &c, st)),
                Err(e) => machinery_error(&format!("{}: parameter override failed: {e}", fx.name)),
            }
        }
    }
}

// ---------------------------------------------------------------------------------------------
// child-process isolation

fn fnv(s: &str) -> u64 {
    let mut h: u64 = 0xcbf29ce484222325;
    for b in s.bytes() {
        h ^= b as u64;
        h = h.wrapping_mul(0x100000001b3);
    }
    h
}

/// `c15 --worker <config>`: builds the fixture, prints `READY <hash of the honest tree>`, then for
/// every JSON case line on stdin prints `START <i>`, `NATIVE <i>` (native verifier returned) and
/// `DONE <i> <json>`.
fn worker_main(name: &str) -> ! {
    vpcore::install_quiet_panic_hook();
    let spec = vpe4::find_spec(name).unwrap_or_else(|| machinery_error(&format!("worker: unknown config {name}")));
    let fx = (spec.make)().unwrap_or_else(|e| machinery_error(&format!("worker: {e}")));
    let out = std::io::stdout();
    println!("READY {:016x}", fnv(&fx.honest.to_string()));
    let _ = out.lock().flush();
    let stdin = std::io::stdin();
    for line in stdin.lock().lines() {
        let Ok(line) = line else { break };
        let Some((idx, body)) = line.split_once(' ') else { continue };
        let v = serde_json::from_str::<Value>(body).unwrap_or(Value::Null);
        let Some(case) = Case::from_json(&v) else { machinery_error("worker: bad case line") };
        let skip_native = v["skip_native"].as_bool().unwrap_or(false);
        println!("START {idx}");
        let _ = out.lock().flush();
        let r = match judge_with(&fx, &case, skip_native, &mut || {
            println!("NATIVE {idx}");
            let _ = out.lock().flush();
        }) {
            Some(j) => j.to_json(),
            None => Value::Null,
        };
        println!("DONE {idx} {r}");
        let _ = out.lock().flush();
    }
    std::process::exit(0);
}

/// Counting semaphore: bounds the number of live child processes (each may grow to `mem_kb`).
struct Sem(Mutex<usize>, std::sync::Condvar);
impl Sem {
    fn acquire(&self) {
        let mut g = self.0.lock().unwrap();
        while *g == 0 {
            g = self.1.wait(g).unwrap();
        }
        *g -= 1;
    }
    fn release(&self) {
        *self.0.lock().unwrap() += 1;
        self.1.notify_one();
    }
}

struct WorkerCfg {
    exe: std::path::PathBuf,
    mem_kb: u64,
    case_timeout: Duration,
    sem: Sem,
}

/// Runs `cases` (index, case) of configuration `name` in child processes; a child that dies or
/// hangs yields outcome "abort" for the case in flight and is replaced for the remaining cases.
fn run_in_worker(w: &WorkerCfg, name: &str, honest_hash: u64, cases: &[(usize, Case)], deadline: &dyn Fn() -> bool) -> Vec<(usize, Option<Judged>)> {
    let mut results: Vec<(usize, Option<Judged>)> = vec![];
    let mut pos = 0usize;
    // cases whose NATIVE verifier killed the child: re-run with the native half skipped
    let mut skip_native: Vec<bool> = vec![false; cases.len()];
    while pos < cases.len() {
        if deadline() {
            break;
        }
        w.sem.acquire();
        let mut child = Command::new("sh")
            .arg("-c")
            .arg(format!("ulimit -v {}; exec \"$0\" --worker \"$1\"", w.mem_kb))
            .arg(&w.exe)
            .arg(name)
            .env("RAYON_NUM_THREADS", "2")
            .stdin(Stdio::piped())
            .stdout(Stdio::piped())
            .stderr(Stdio::null())
            .spawn()
            .unwrap_or_else(|e| machinery_error(&format!("cannot spawn worker: {e}")));
        let mut stdin = child.stdin.take().unwrap();
        let stdout = child.stdout.take().unwrap();
        let (tx, rx) = mpsc::channel::<String>();
        let reader = std::thread::spawn(move || {
            for line in BufReader::new(stdout).lines() {
                let Ok(line) = line else { break };
                if tx.send(line).is_err() {
                    break;
                }
            }
        });
        // handshake (fixture build; generous: the machine is shared)
        let ready = loop {
            match rx.recv_timeout(Duration::from_secs(180)) {
                Ok(l) if l.starts_with("READY ") => break Some(l[6..].to_string()),
                Ok(l) if l.starts_with("MACHINERY-ERROR") => machinery_error(&format!("worker for {name}: {l}")),
                Ok(_) => continue,
                Err(_) => break None,
            }
        };
        match ready {
            Some(h) if h == format!("{honest_hash:016x}") => {}
            Some(h) => machinery_error(&format!("worker for {name} proved a different honest object ({h})")),
            None => machinery_error(&format!("worker for {name} did not become ready")),
        }
        let mut payload = String::new();
        for (k, (i, c)) in cases.iter().enumerate().skip(pos) {
            let mut j = c.to_json();
            j["skip_native"] = json!(skip_native[k]);
            payload.push_str(&format!("{i} {j}\n"));
        }
        // feed from a thread: a dying child must not block us on a full pipe
        let feeder = std::thread::spawn(move || {
            let _ = stdin.write_all(payload.as_bytes());
            drop(stdin);
        });
        let mut in_flight: Option<usize> = None;
        let mut native_returned = false;
        let mut died: Option<String> = None;
        loop {
            if pos >= cases.len() {
                break;
            }
            match rx.recv_timeout(w.case_timeout) {
                Ok(l) => {
                    if let Some(i) = l.strip_prefix("START ") {
                        in_flight = i.trim().parse().ok();
                        native_returned = false;
                    } else if l.starts_with("NATIVE ") {
                        native_returned = true;
                    } else if let Some(rest) = l.strip_prefix("DONE ") {
                        let (i, body) = rest.split_once(' ').unwrap_or((rest, "null"));
                        let i: usize = i.parse().unwrap_or_else(|_| machinery_error("worker: bad DONE line"));
                        if i != cases[pos].0 {
                            machinery_error("worker: results out of order");
                        }
                        let v: Value = serde_json::from_str(body).unwrap_or(Value::Null);
                        results.push((i, if v.is_null() { None } else { Judged::from_json(&v) }));
                        pos += 1;
                        in_flight = None;
                        if deadline() {
                            break;
                        }
                    } else if l.starts_with("MACHINERY-ERROR") {
                        machinery_error(&format!("worker for {name}: {l}"));
                    }
                }
                Err(mpsc::RecvTimeoutError::Timeout) => {
                    let _ = child.kill();
                    died = Some(format!("no answer within {} s (killed)", w.case_timeout.as_secs()));
                    break;
                }
                Err(mpsc::RecvTimeoutError::Disconnected) => {
                    let st = child.wait().ok();
                    died = Some(match st {
                        Some(s) => {
                            use std::os::unix::process::ExitStatusExt;
                            match (s.code(), s.signal()) {
                                // SIGKILL is not something the code under test does to itself (allocation
                                // failure = SIGABRT, stack overflow = SIGSEGV): the kernel's OOM killer or
                                // an operator — environment, never a verdict
                                (_, Some(9)) => machinery_error(&format!("worker for {name} was killed with SIGKILL (out of memory on this machine?)")),
                                (_, Some(sig)) => format!("signal {sig}"),
                                (Some(c), _) => format!("exit code {c}"),
                                _ => "unknown".into(),
                            }
                        }
                        None => "unknown".into(),
                    });
                    break;
                }
            }
        }
        let _ = child.kill();
        let _ = child.wait();
        w.sem.release();
        let _ = feeder.join();
        let _ = reader.join();
        if pos < cases.len() {
            match (died, in_flight) {
                (Some(_), Some(i)) if i == cases[pos].0 && !native_returned && !skip_native[pos] => {
                    // the native verifier died (not the subject): same case again, circuit side only
                    skip_native[pos] = true;
                }
                (Some(how), Some(i)) if i == cases[pos].0 => {
                    results.push((i, Some(Judged::dead_worker(&how))));
                    pos += 1;
                }
                (Some(how), _) => machinery_error(&format!("worker for {name} died between cases: {how}")),
                (None, _) => {}
            }
        }
    }
    results
}

// ---------------------------------------------------------------------------------------------
// verdict → report

fn family(fx: &Fixture) -> String {
    let stark = match fx.desc["stark"].as_str().unwrap_or("") {
        "uni" => "uni",
        "batch" => "batch",
        _ => "batch_circuit_tables",
    };
    format!("{}/{}", stark, fx.desc["pcs"].as_str().unwrap_or("?"))
}

/// Violation key of a judged case, if it violates C15.
fn violation_key(fx: &Fixture, case: &Case, j: &Judged, honest_sig: Option<[usize; 4]>) -> Option<(String, String)> {
    let class = case.key_class(fx);
    // Clause (b), structural form: a list of the PROOF was shortened, the native verifier rejects the
    // object, yet a circuit is returned and it verifies FEWER Merkle openings (non-primitive MMCS
    // ops) or takes FEWER private proof values (opened rows, sibling coefficients) than the circuit
    // of the well-formed shape — the list was truncated silently. The run
    // of such a circuit on the honestly packed object usually fails for arithmetic reasons, which
    // is luck, not a check: a prover who also adapts the values is not stopped by it. (On the
    // unchanged tree only `query_proofs` behaves like this — the known finding RC11; lengthened
    // or cap faults legitimately change the Merkle depth and are not covered by this rule.)
    if let (Case::Tree(f), Some(sg), Some(h)) = (case, j.sig, honest_sig) {
        let shortened = matches!(f.kind(&fx.honest).as_str(), "pop" | "empty" | "pop_first");
        if shortened && j.native_tag.starts_with("reject") && j.outcome == "run_reject" && (sg[1] < h[1] || sg[3] < h[3]) {
            return Some((
                format!("weaker|{}|{}", class, family(fx)),
                format!(
                    "{}: {} → a verification circuit is returned that verifies {} Merkle openings over {} private proof values instead of the {} / {} of the well-formed shape (its run fails only at `{}`: {}); native verifier rejects the object ({})",
                    fx.name,
                    case.show(),
                    sg[1],
                    sg[3],
                    h[1],
                    h[3],
                    j.stage,
                    j.circuit_tag,
                    j.native_tag
                ),
            ));
        }
    }
    match j.outcome.as_str() {
        "panic" => Some((
            format!("panic|{}|{}|{}", j.stage, j.panic_loc, class),
            format!(
                "{}: {} makes entry point `{}` panic at {} line {} (native: {})",
                fx.name,
                case.show(),
                j.stage,
                j.panic_loc,
                j.panic_line,
                j.native_tag
            ),
        )),
        "abort" => Some((
            format!("abort|{}", class),
            format!("{}: {} kills the process ({})", fx.name, case.show(), j.circuit_tag),
        )),
        "ok+native_reject" => {
            // a parameter the circuit API does not receive cannot make *the circuit* weaker than the
            // parameter set it was given; those cases are recorded, not judged (see assumptions)
            if matches!(case, Case::Param { scope: Scope::Config | Scope::Fvp, .. } | Case::NoMmcs) {
                return None;
            }
            Some((
                format!("weaker|{}|{}", class, family(fx)),
                format!(
                    "{}: {} → verification circuit is built and its run is Ok, native verifier rejects ({})",
                    fx.name,
                    case.show(),
                    j.native_tag
                ),
            ))
        }
        _ => None,
    }
}

fn replay(ctx: &Ctx, path: &std::path::Path, w: &WorkerCfg) -> ! {
    let r = vpcore::load_replay(path);
    let cfg = r["config"].as_str().unwrap_or_else(|| machinery_error("replay: no config"));
    let case = Case::from_json(&r["case"]).unwrap_or_else(|| machinery_error("replay: no case"));
    let spec = vpe4::find_spec(cfg).unwrap_or_else(|| machinery_error(&format!("replay: unknown config {cfg}")));
    let fx = (spec.make)().unwrap_or_else(|e| machinery_error(&e));
    let h = fnv(&fx.honest.to_string());
    let j = run_in_worker(w, cfg, h, &[(0, case.clone())], &|| false).pop().and_then(|x| x.1);
    let report = Report::new();
    let Some(j) = j else { machinery_error("replay: the fault does not apply") };
    println!("replaying {cfg}: {} -> native {} | circuit {} at `{}` => {}", case.show(), j.native_tag, j.circuit_tag, j.stage, j.outcome);
    let _ = fx.circuit_verify_fresh_staged(&fx.honest);
    let honest_sig = vpe4::last_build_sig();
    if let Some((key, what)) = violation_key(&fx, &case, &j, honest_sig) {
        report.violation(key, what, r.clone());
    }
    let cov = json!({"evaluations": 1, "distinct_nontrivial": 2, "rule": "replay of one stored case (native + circuit verdict)",
                     "samples": [{"config": cfg, "case": case.to_json(), "judged": j.to_json()}], "replay": true});
    finish(ctx, cov, vec![], &report)
}

fn main() {
    let args: Vec<String> = std::env::args().collect();
    if args.get(1).map(|s| s.as_str()) == Some("--worker") {
        worker_main(args.get(2).map(|s| s.as_str()).unwrap_or(""));
    }
    let ctx = Ctx::from_args("C15", "fault_enumeration");
    vpcore::install_quiet_panic_hook();
    let w = WorkerCfg {
        exe: std::env::current_exe().unwrap_or_else(|e| machinery_error(&format!("current_exe: {e}"))),
        mem_kb: ctx.opt("worker_mem_kb").and_then(|s| s.parse().ok()).unwrap_or(4 * 1024 * 1024),
        case_timeout: Duration::from_secs(ctx.opt("case_timeout_s").and_then(|s| s.parse().ok()).unwrap_or(120)),
        sem: Sem(Mutex::new(ctx.opt("max_children").and_then(|s| s.parse().ok()).unwrap_or(14)), std::sync::Condvar::new()),
    };
    if let Some(p) = &ctx.replay {
        replay(&ctx, &p.clone(), &w);
    }
    let report = Report::new();
    let outcomes = Histo::new();

    let filter = ctx.opt("config").map(|s| s.to_string());
    let mut specs: Vec<_> = catalogue()
        .into_iter()
        .filter(|s| match &filter {
            Some(f) => s.name.contains(f.as_str()),
            None => true,
        })
        .collect();
    // the quick cross-section first, so that a slow machine loses breadth at the tail
    specs.sort_by_key(|s| QUICK.iter().position(|q| *q == s.name).unwrap_or(usize::MAX));
    if specs.is_empty() {
        machinery_error("no configuration selected");
    }
    if filter.is_none() {
        for q in QUICK {
            if !specs.iter().any(|s| s.name == *q) {
                machinery_error(&format!("quick configuration {q} missing from the catalogue"));
            }
        }
    }
    let n_specs = specs.len();

    // stage → outcome → n ; class → outcome → n
    let by_stage: Mutex<BTreeMap<String, BTreeMap<String, u64>>> = Mutex::new(BTreeMap::new());
    let by_class: Mutex<BTreeMap<String, BTreeMap<String, u64>>> = Mutex::new(BTreeMap::new());
    // clause (a) reference: the (family | fault class) pairs for which construction returns an
    // error for EVERY case of EVERY configuration on the reference tree (written by a thorough
    // run with --opt dump_err_classes=<file>, committed as harness/c15/err_classes.json). A
    // class in this table whose case now gets a circuit is "a malformed shape no longer rejected".
    let err_table: std::collections::BTreeSet<String> =
        serde_json::from_str::<Vec<String>>(include_str!("../err_classes.json")).unwrap_or_else(|e| machinery_error(&format!("err_classes.json: {e}"))).into_iter().collect();
    let by_family_class: Mutex<BTreeMap<String, BTreeMap<String, u64>>> = Mutex::new(BTreeMap::new());
    let native_panics: Mutex<BTreeMap<String, u64>> = Mutex::new(BTreeMap::new());
    let unjudged_param: Mutex<BTreeMap<String, u64>> = Mutex::new(BTreeMap::new());
    let smaller: Mutex<BTreeMap<String, u64>> = Mutex::new(BTreeMap::new());
    let samples: Mutex<BTreeMap<String, Vec<Value>>> = Mutex::new(BTreeMap::new());
    let per_config: Mutex<Vec<(usize, Value)>> = Mutex::new(vec![]);
    let (evaluations, nontrivial, planned_total, skipped_total, not_applicable, not_a_proof_total) =
        (AtomicU64::new(0), AtomicU64::new(0), AtomicU64::new(0), AtomicU64::new(0), AtomicU64::new(0), AtomicU64::new(0));
    let configs_done = AtomicU64::new(0);
    let next_spec = AtomicU64::new(0);

    // One configuration: the parent only proves the HONEST object and judges it (no fault is ever
    // executed in this process); every faulted case — whatever its class — runs in child processes
    // of this binary under `ulimit -v` and the per-case watchdog. A child that dies is replaced and
    // the case in flight (exactly one: children work sequentially) gets outcome "abort".
    let run_config = |ci: usize, spec: &vpe4::FixtureSpec| {
        let t0 = Instant::now();
        let fx = (spec.make)().unwrap_or_else(|e| machinery_error(&format!("cannot build fixture: {e}")));
        let hn = fx.native_verify(&fx.honest);
        if !hn.accepts() {
            machinery_error(&format!("fixture {}: honest object not accepted natively ({})", fx.name, hn.tag()));
        }
        let (hc, hstage) = fx.circuit_verify_fresh_staged(&fx.honest);
        let honest_sig = vpe4::last_build_sig();
        // C01's known findings: two shapes whose honest proof the circuit rejects. Clause (a) is
        // still meaningful there; of clause (b) only the structural form can fire.
        let honest_note = if hc.accepts() { "accepted by both".to_string() } else { format!("native accepts, circuit {} at `{hstage}` (C01's finding; clause (b) vacuous here)", hc.tag()) };
        fx.release_thread_engine();

        let mut cases = all_cases(&fx, !ctx.quick());
        if let (Some(k), 0) = (ctx.opt("selftest"), ci) {
            cases.push(Case::SelfTest(k.to_string()));
        }
        planned_total.fetch_add(cases.len() as u64, Ordering::Relaxed);
        let indexed: Vec<(usize, Case)> = cases.iter().cloned().enumerate().collect();
        let ev = AtomicU64::new(0);
        let nt = AtomicU64::new(0);
        let na = AtomicU64::new(0);
        let nap = AtomicU64::new(0);
        let cfg_out = Histo::new();

        let record = |idx: usize, case: &Case, j: Option<Judged>| {
            let Some(j) = j else {
                na.fetch_add(1, Ordering::Relaxed);
                return;
            };
            if j.outcome == "not_a_proof" {
                nap.fetch_add(1, Ordering::Relaxed);
            } else {
                ev.fetch_add(1, Ordering::Relaxed);
            }
            outcomes.add(&j.outcome);
            cfg_out.add(&j.outcome);
            let class = case.class(&fx);
            *by_stage.lock().unwrap().entry(if j.stage.is_empty() { "parse".into() } else { j.stage.clone() }).or_default().entry(j.outcome.clone()).or_default() += 1;
            *by_class.lock().unwrap().entry(class.clone()).or_default().entry(j.outcome.clone()).or_default() += 1;
            let fam_class = format!("{}|{}", family(&fx), class);
            *by_family_class.lock().unwrap().entry(fam_class.clone()).or_default().entry(j.outcome.clone()).or_default() += 1;
            if err_table.contains(&fam_class) && j.native_tag.starts_with("reject") && matches!(j.outcome.as_str(), "run_reject" | "ok+native_reject") {
                report.violation_sized(
                    format!("accepted_at_construction|{}|{}", case.key_class(&fx), family(&fx)),
                    format!(
                        "{}: {} → a verification circuit is returned (outcome {}, native {}); construction rejects every alteration of this class with an error on the reference tree",
                        fx.name,
                        case.show(),
                        j.outcome,
                        j.native_tag
                    ),
                    json!({"config": fx.name, "case": case.to_json(), "class": class, "judged": j.to_json()}),
                    ci * 1_000_000 + idx,
                );
            }
            if j.native_tag.starts_with("reject") {
                nt.fetch_add(1, Ordering::Relaxed);
                if let (Some(sg), Some(h)) = (j.sig, honest_sig) {
                    let dims: Vec<&str> = ["ops", "mmcs_ops", "pub", "priv"].iter().zip(sg.iter().zip(h.iter())).filter(|(_, (a, b))| a < b).map(|(n, _)| *n).collect();
                    if !dims.is_empty() {
                        *smaller.lock().unwrap().entry(format!("{} | {} | smaller: {}", case.key_class(&fx), j.outcome, dims.join(","))).or_default() += 1;
                    }
                }
            }
            if let Some(loc) = j.native_tag.strip_prefix("panic@") {
                let (file, line) = split_loc(loc);
                *native_panics.lock().unwrap().entry(format!("native panic at {file}:{line} <- {class}")).or_default() += 1;
            }
            let case_json = json!({"config": fx.name, "case": case.to_json(), "class": class, "judged": j.to_json()});
            match violation_key(&fx, case, &j, honest_sig) {
                // among the cases of one key keep the first configuration's first case (independent of thread timing)
                Some((key, what)) => report.violation_sized(key, what, case_json.clone(), ci * 1_000_000 + idx),
                None => {
                    if j.outcome == "ok+native_reject" {
                        *unjudged_param.lock().unwrap().entry(format!("{class} (native {})", j.native_tag)).or_default() += 1;
                    }
                }
            }
            let mut s = samples.lock().unwrap();
            let v = s.entry(j.outcome.clone()).or_default();
            if v.len() < 2 {
                v.push(case_json);
            }
        };

        let h = fnv(&fx.honest.to_string());
        let n_workers = (indexed.len() / 500).clamp(1, 4);
        let chunk = indexed.len().div_ceil(n_workers).max(1);
        let mut got = 0usize;
        std::thread::scope(|sc| {
            let handles: Vec<_> = indexed
                .chunks(chunk)
                .map(|part| {
                    let (w, name, ctx) = (&w, fx.name.clone(), &ctx);
                    sc.spawn(move || run_in_worker(w, &name, h, part, &|| ctx.out_of_time() || (ctx.quick() && ctx.used() > 0.9)))
                })
                .collect();
            for hdl in handles {
                let rs = hdl.join().unwrap_or_else(|_| machinery_error("worker driver thread panicked"));
                got += rs.len();
                for (i, j) in rs {
                    record(i, &cases[i], j);
                }
            }
        });
        let sk = (indexed.len() - got) as u64;
        skipped_total.fetch_add(sk, Ordering::Relaxed);
        evaluations.fetch_add(ev.load(Ordering::Relaxed), Ordering::Relaxed);
        nontrivial.fetch_add(nt.load(Ordering::Relaxed), Ordering::Relaxed);
        not_applicable.fetch_add(na.load(Ordering::Relaxed), Ordering::Relaxed);
        not_a_proof_total.fetch_add(nap.load(Ordering::Relaxed), Ordering::Relaxed);
        per_config.lock().unwrap().push((ci, json!({
            "config": fx.name, "family": family(&fx), "desc": fx.desc, "honest": honest_note,
            "faults_planned": cases.len(), "in_child_processes": cases.len(), "child_processes": n_workers,
            "evaluated": ev.load(Ordering::Relaxed), "not_a_proof": nap.load(Ordering::Relaxed), "native_rejects": nt.load(Ordering::Relaxed),
            "fault_not_applicable": na.load(Ordering::Relaxed), "skipped_out_of_time": sk,
            "outcomes": cfg_out.to_json(), "wall_s": t0.elapsed().as_secs_f64(),
        })));
        configs_done.fetch_add(1, Ordering::Relaxed);
        eprintln!(
            "[C15] t={:.1}s {} cases={} evaluated={} native_rejects={} {} {:.1}s",
            ctx.elapsed_s(),
            fx.name,
            cases.len(),
            ev.load(Ordering::Relaxed),
            nt.load(Ordering::Relaxed),
            cfg_out.to_json(),
            t0.elapsed().as_secs_f64()
        );
    };

    // configurations are taken in list order (core first) by a few driver threads
    let n_drivers: usize = ctx.opt("drivers").and_then(|s| s.parse().ok()).unwrap_or(8);
    std::thread::scope(|sc| {
        for _ in 0..n_drivers.min(n_specs) {
            sc.spawn(|| loop {
                let ci = next_spec.fetch_add(1, Ordering::Relaxed) as usize;
                if ci >= n_specs || ctx.out_of_time() || (ctx.quick() && ctx.used() > 0.8) {
                    break;
                }
                run_config(ci, &specs[ci]);
            });
        }
    });
    let configs_done = configs_done.load(Ordering::Relaxed) as usize;
    let skipped_total = skipped_total.load(Ordering::Relaxed);
    let exhaustive = configs_done == n_specs && skipped_total == 0;
    let (evaluations, nontrivial, planned_total, not_applicable, not_a_proof_total) = (
        evaluations.load(Ordering::Relaxed),
        nontrivial.load(Ordering::Relaxed),
        planned_total.load(Ordering::Relaxed),
        not_applicable.load(Ordering::Relaxed),
        not_a_proof_total.load(Ordering::Relaxed),
    );
    let mut per_config = per_config.into_inner().unwrap();
    per_config.sort_by_key(|x| x.0);
    let per_config: Vec<Value> = per_config.into_iter().map(|x| x.1).collect();

    let samples: Vec<Value> = samples.into_inner().unwrap().into_values().flatten().collect();
    if let Some(path) = ctx.opt("dump_err_classes") {
        let t: Vec<String> = by_family_class
            .lock()
            .unwrap()
            .iter()
            .filter(|(_, o)| o.get("err").copied().unwrap_or(0) > 0 && o.keys().all(|k| k == "err" || k == "not_a_proof"))
            .map(|(k, _)| k.clone())
            .collect();
        std::fs::write(path, serde_json::to_string_pretty(&t).unwrap()).unwrap_or_else(|e| machinery_error(&format!("dump_err_classes: {e}")));
        println!("[C15] wrote {} construction-error reference classes to {path}", t.len());
    }
    let cov = json!({
        "evaluations": evaluations,
        "distinct_nontrivial": nontrivial,
        "rule": "one evaluation = one single-fault object (configuration × fault) that still deserialises, judged by the native \
                 verifier AND driven through allocate → verify_*_circuit → build → pack_values → set inputs → set_*_mmcs_private_data → run; \
                 distinct = distinct (configuration, fault); non-trivial = the native verifier REJECTS the object (so an `Ok` run of the \
                 circuit would be a weaker circuit). Faults that no longer deserialise are counted separately (not_a_proof) and are not evaluations",
        "exhaustive": exhaustive,
        "space": "configurations × every single structural fault: proof-tree arrays pop/dup_last/empty, object members → null, null → filled, \
                  structural integers −1/+1/0/63; FriVerifierParams integers −1/+1/0/63 (alone and together with the config), permutation_config → None, \
                  config-only num_queries/max_log_arity/cap_height −1/+1/0/63; BatchStarkProof metadata (circuit tables): arrays, options, every integer, bools, enum variant",
        "configurations_planned": n_specs,
        "configurations_done": configs_done,
        "faults_planned": planned_total,
        "faults_skipped_out_of_time": skipped_total,
        "faults_not_applicable": not_applicable,
        "faults_not_a_proof(no longer deserialise; counted, skipped)": not_a_proof_total,
        "outcome_histogram": outcomes.to_json(),
        "outcomes_by_entry_point": *by_stage.lock().unwrap(),
        "outcomes_by_fault_class": *by_class.lock().unwrap(),
        "construction_error_reference_classes": err_table.len(),
        "native_panics_recorded_not_judged": *native_panics.lock().unwrap(),
        "circuit_ok_native_reject_not_judged(parameter_not_in_circuit_api_or_inconsistent_set)": *unjudged_param.lock().unwrap(),
        "returned_circuit_smaller_than_honest_while_native_rejects": *smaller.lock().unwrap(),
        "per_config": per_config,
        "samples": samples,
    });
    let assumptions = vec![
        "native Plonky3 0.6.3 verifiers (verify_with_preprocessed, verify_batch; BatchStarkProver::verify_all_tables for circuit-table proofs) define which malformed objects must not be accepted".to_string(),
        "single faults only; integer fault values −1, +1, 0, 63".to_string(),
        "clause (b) is judged two ways: run Ok on the honestly packed malformed object while native rejects; and, for shortened lists, a returned circuit with fewer Merkle-opening ops or fewer private proof inputs than the well-formed shape's circuit while native rejects (the run failing later for arithmetic reasons does not make the truncation a check)".to_string(),
        "clause (b) compares on the SAME parameter set: for parameter faults the native verifier is configured with the faulted value. Parameters the circuit API does not receive (num_queries, max_log_arity, cap height) and FriVerifierParams made inconsistent with the StarkConfig are judged under clause (a) only; their circuit-Ok/native-reject counts are reported".to_string(),
        "circuit verdict = runner outcome on honestly packed inputs of the faulted object (pack_values + set_*_mmcs_private_data)".to_string(),
        "panic keys use crate-relative file + message with numbers abstracted (no line numbers, no values); the line is given in the description".to_string(),
        "build_next_layer_circuit (unified recursion API, examples-only glue) is not driven here (C17 owns it); verify_fri_circuit is reached through the PCS of all three verify_* entry points, not with hand-made arguments".to_string(),
    ];
    finish(&ctx, cov, assumptions, &report)
}
