//! C16 — proof metadata cannot weaken verification; serialization preserves the verdict.
//!
//! For a set of circuit proofs (honest proofs and proofs of INVALID traces produced with the
//! H4 matrix-tamper hook, over three configurations incl. one with non-primitive tables)
//! every alteration of one metadata leaf of the serialized `BatchStarkProof` (everything
//! but the inner `proof`) to every other value of a small well-formed domain — and every
//! pair of such alterations — is deserialised back and judged by the real
//! `verify_all_tables`:
//!   (a) no altered invalid-trace proof verifies,
//!   (b) never a panic,
//!   (c) metadata contradicting the verifier's field parameters (ext_degree, w_binomial,
//!       quintic flag) is rejected,
//!   (d) verify(deser(ser(p))) == verify(p) for JSON and postcard, for every proof of the set
//!       and every altered proof that deserialises.

use std::any::Any;
use std::sync::atomic::{AtomicU64, Ordering};

use p3_baby_bear::BabyBear;
use p3_batch_stark::ProverData;
use p3_circuit::ops::{Poseidon2Config, Poseidon2PermCall, generate_poseidon2_trace, generate_recompose_trace};
use p3_circuit::{CircuitBuilder, ExprId};
use p3_circuit_prover::batch_stark_prover::{BatchStarkProof, BatchStarkProver, CircuitProverData, TablePacking, poseidon2_air_builders, recompose_air_builders};
use p3_circuit_prover::common::{NpoPreprocessor, get_airs_and_degrees_with_prep};
use p3_circuit_prover::config::{BabyBearConfig, KoalaBearConfig};
use p3_circuit_prover::{ConstraintProfile, Poseidon2Preprocessor, RecomposePreprocessor};
use p3_field::extension::BinomialExtensionField;
use p3_field::{BasedVectorSpace, PrimeCharacteristicRing};
use p3_koala_bear::{KoalaBear, default_koalabear_poseidon2_16};
use p3_matrix::dense::RowMajorMatrix;
use p3_poseidon2_circuit_air::KoalaBearD4Width16;
use vpcore::rayon::prelude::*;
use vpcore::serde_json::{self, Value, json};
use vpcore::{Ctx, Histo, Report, finish, quiet_catch};

type BB = BabyBear;
type BB4 = BinomialExtensionField<BB, 4>;
type KB = KoalaBear;
type KB4 = BinomialExtensionField<KB, 4>;

#[derive(Clone, Debug, PartialEq, Eq)]
enum Verdict {
    Accept,
    Reject(String),
    Panic(String),
    NotAProof,
}
impl Verdict {
    fn tag(&self) -> String {
        match self {
            Verdict::Accept => "accept".into(),
            Verdict::Reject(e) => format!("reject:{}", e.split(|c: char| !c.is_alphanumeric()).find(|w| !w.is_empty()).unwrap_or("")),
            Verdict::Panic(_) => "panic".into(),
            Verdict::NotAProof => "not_a_proof".into(),
        }
    }
}

struct Fixture {
    name: &'static str,
    /// serialized proofs: (label, json tree, invalid_trace?)
    proofs: Vec<(String, Value, bool)>,
    verify_json: Box<dyn Fn(&Value) -> Verdict + Send + Sync>,
    /// `VerifierManifest::matches` of the manifest derived from the HONEST proof of the fixture,
    /// applied to the proof deserialised from the tree (`None`: not a proof)
    manifest_json: Box<dyn Fn(&Value) -> Option<bool> + Send + Sync>,
    /// verdict after a postcard round trip of the object deserialised from the JSON tree
    verify_postcard: Box<dyn Fn(&Value) -> Verdict + Send + Sync>,
    /// in-memory alterations of proof fields that serialization does not carry
    /// (`stark_common.lookups`): (proof label, alteration, verdict in memory, verdict after a
    /// postcard round trip, verdict after a JSON round trip)
    inmem: Vec<(String, String, Verdict, Verdict, Verdict)>,
}

/// The manifest a verifier would write down for the honest proof of a fixture.
fn manifest_of<SC>(p: &BatchStarkProof<SC>) -> p3_circuit_prover::manifest::VerifierManifest<p3_batch_stark::Val<SC>>
where
    SC: p3_batch_stark::StarkGenericConfig,
    p3_batch_stark::Val<SC>: Copy,
{
    use p3_circuit_prover::air::AluExtMulKind;
    use p3_circuit_prover::manifest::{ExpectedNpoEntry, VerifierManifest};
    VerifierManifest {
        ext_degree: p.ext_degree,
        reduction: if p.alu_quintic_trinomial {
            AluExtMulKind::QuinticTrinomial
        } else {
            match p.w_binomial {
                Some(w) => AluExtMulKind::Binomial { w },
                None => AluExtMulKind::Base,
            }
        },
        alu_variant: p.alu_variant,
        expected_npo: p
            .non_primitives
            .iter()
            .map(|e| ExpectedNpoEntry { op_type: e.op_type.clone(), air_variant: e.air_variant, public_values_len: e.public_values.len() })
            .collect(),
    }
}

/// Reference for `VerifierManifest::matches` on the JSON trees: the fields a manifest covers
/// (everything but `w_binomial`, whose encoding is not compared here) agree position by position.
fn manifest_ref(honest: &Value, t: &Value) -> bool {
    for k in ["ext_degree", "alu_quintic_trinomial", "alu_variant"] {
        if honest.get(k) != t.get(k) {
            return false;
        }
    }
    let (Some(a), Some(b)) = (honest.get("non_primitives").and_then(|x| x.as_array()), t.get("non_primitives").and_then(|x| x.as_array())) else {
        return honest.get("non_primitives") == t.get("non_primitives");
    };
    if a.len() != b.len() {
        return false;
    }
    a.iter().zip(b).all(|(x, y)| {
        x.get("op_type") == y.get("op_type")
            && x.get("air_variant") == y.get("air_variant")
            && x.get("public_values").and_then(|v| v.as_array()).map(|v| v.len()) == y.get("public_values").and_then(|v| v.as_array()).map(|v| v.len())
    })
}

macro_rules! verdict_of {
    ($r:expr) => {
        match quiet_catch(|| $r) {
            Ok(Ok(())) => Verdict::Accept,
            Ok(Err(e)) => Verdict::Reject(e),
            Err(p) => Verdict::Panic(p),
        }
    };
}

/// Alterations of the non-serialized `stark_common.lookups` of an in-memory proof: every swap
/// of two tables' lookups, and dropping the last entry. Each is judged in memory and after
/// both round trips (which must give the same verdict).
fn inmem_lookup_alterations<SC>(
    label: &str,
    p: &mut BatchStarkProof<SC>,
    verify: &dyn Fn(&BatchStarkProof<SC>) -> Result<(), String>,
    out: &mut Vec<(String, String, Verdict, Verdict, Verdict)>,
) where
    SC: p3_uni_stark::StarkGenericConfig,
    BatchStarkProof<SC>: serde::Serialize + serde::de::DeserializeOwned,
{
    let judge = |p: &BatchStarkProof<SC>| -> (Verdict, Verdict, Verdict) {
        let mem = verdict_of!(verify(p));
        let pc = match postcard::to_allocvec(p).ok().and_then(|b| postcard::from_bytes::<BatchStarkProof<SC>>(&b).ok()) {
            Some(q) => verdict_of!(verify(&q)),
            None => Verdict::NotAProof,
        };
        let js = match serde_json::to_value(p).ok().and_then(|v| serde_json::from_value::<BatchStarkProof<SC>>(v).ok()) {
            Some(q) => verdict_of!(verify(&q)),
            None => Verdict::NotAProof,
        };
        (mem, pc, js)
    };
    let n = p.stark_common.lookups.len();
    let (m, a, b) = judge(p);
    out.push((label.to_string(), "unaltered".into(), m, a, b));
    for i in 0..n {
        for j in (i + 1)..n {
            p.stark_common.lookups.swap(i, j);
            let (m, a, b) = judge(p);
            out.push((label.to_string(), format!("swap lookups[{i}]<->[{j}]"), m, a, b));
            p.stark_common.lookups.swap(i, j);
        }
    }
    if n > 0 {
        let last = p.stark_common.lookups.pop().unwrap();
        let (m, a, b) = judge(p);
        out.push((label.to_string(), "drop last lookups entry".into(), m, a, b));
        p.stark_common.lookups.push(last);
        // duplicate the first table's lookups over every other table (same length)
        let saved: Vec<_> = p.stark_common.lookups.drain(..).collect();
        // cannot clone `Lookups` generically: rotate instead
        let mut rot = saved;
        rot.rotate_left(1);
        p.stark_common.lookups = rot;
        let (m, a, b) = judge(p);
        out.push((label.to_string(), "rotate lookups by one".into(), m, a, b));
        p.stark_common.lookups.rotate_right(1);
    }
}

fn tamper_cell(table: usize, row: usize, col: usize) {
    p3_circuit_prover::verif_hooks::set_matrix_tamper(Some(Box::new(move |any: &mut dyn Any| {
        if let Some(ms) = any.downcast_mut::<Vec<RowMajorMatrix<BB>>>() {
            if let Some(m) = ms.get_mut(table) {
                let w = m.width;
                if row * w + col < m.values.len() {
                    m.values[row * w + col] += BB::ONE;
                }
            }
        } else if let Some(ms) = any.downcast_mut::<Vec<RowMajorMatrix<KB>>>() {
            if let Some(m) = ms.get_mut(table) {
                let w = m.width;
                if row * w + col < m.values.len() {
                    m.values[row * w + col] += KB::ONE;
                }
            }
        }
    })));
}
fn clear_tamper() {
    p3_circuit_prover::verif_hooks::set_matrix_tamper(None);
}

/// An honest proof of a small ALU circuit over `EF` (BabyBear base field, extension degree `D`).
fn bb_honest_proof<EF, const D: usize>() -> Option<BatchStarkProof<BabyBearConfig>>
where
    EF: p3_field::Field + p3_field::ExtensionField<BB> + BasedVectorSpace<BB> + p3_circuit_prover::field_params::ExtractBinomialW<BB> + core::hash::Hash,
{
    let mut b = CircuitBuilder::<EF>::new();
    let x = b.public_input();
    let y = b.public_input();
    let m = b.mul(x, y);
    let s = b.add(m, x);
    let e = b.public_input();
    b.connect(s, e);
    let circuit = b.build().ok()?;
    // x with every coefficient non-zero so that the product depends on the reduction
    let coeffs: Vec<BB> = (0..D).map(|i| BB::from_u64(3 + 2 * i as u64)).collect();
    let xv = EF::from_basis_coefficients_slice(&coeffs)?;
    let yv = xv + EF::from_u64(5);
    let ev = xv * yv + xv;
    let packing = TablePacking::new(1, 1);
    let mut r = circuit.runner();
    r.set_public_inputs(&[xv, yv, ev]).ok()?;
    let traces = r.run().ok()?;
    let cfg = vpe1::accept::fast_baby_bear();
    let (ad, prim, np) = get_airs_and_degrees_with_prep::<BabyBearConfig, _, D>(&circuit, &packing, &[], &[], ConstraintProfile::Standard).ok()?;
    let (airs, degs): (Vec<_>, Vec<usize>) = ad.into_iter().unzip();
    let pd = ProverData::from_airs_and_degrees(&cfg, &airs, &degs);
    let cpd = CircuitProverData::new(pd, prim, np);
    let prover = BatchStarkProver::new(cfg).with_table_packing(packing);
    let proof = prover.prove_all_tables(&traces, &cpd).ok()?;
    prover.verify_all_tables::<EF>(&proof).ok()?;
    Some(proof)
}

/// Cross-field clause: a genuine proof over one trace field presented to a verifier instantiated
/// for ANOTHER extension degree of the same base field (same binomial parameter W for 4 / 8) must be
/// rejected: "metadata contradicting the verifier's expected field parameters is rejected".
/// Returns (proof field, verifier field, verdict).
fn cross_field_verdicts() -> Vec<(&'static str, &'static str, Verdict)> {
    type BB8 = p3_field::extension::BinomialExtensionField<BB, 8>;
    let v = |p: &BatchStarkProof<BabyBearConfig>, which: &str| -> Verdict {
        let pr = BatchStarkProver::new(vpe1::accept::fast_baby_bear());
        match which {
            "d1" => verdict_of!(pr.verify_all_tables::<BB>(p).map_err(|e| format!("{e:?}"))),
            "d4" => verdict_of!(pr.verify_all_tables::<BB4>(p).map_err(|e| format!("{e:?}"))),
            _ => verdict_of!(pr.verify_all_tables::<BB8>(p).map_err(|e| format!("{e:?}"))),
        }
    };
    let proofs: Vec<(&'static str, Option<BatchStarkProof<BabyBearConfig>>)> = vec![
        ("d1", quiet_catch(bb_honest_proof::<BB, 1>).ok().flatten()),
        ("d4", quiet_catch(bb_honest_proof::<BB4, 4>).ok().flatten()),
        ("d8", quiet_catch(bb_honest_proof::<BB8, 8>).ok().flatten()),
    ];
    let mut out = vec![];
    for (pf, p) in &proofs {
        let Some(p) = p else { continue };
        for vf in ["d1", "d4", "d8"] {
            out.push((*pf, vf, v(p, vf)));
        }
    }
    out
}

/// BabyBear, element field = base (D=1) or the degree-4 extension.
fn bb_fixture<const EXT: bool>() -> Fixture {
    type Proof = BatchStarkProof<BabyBearConfig>;
    fn build_and_prove<EF, const D: usize>(tampers: &[(usize, usize, usize)], inmem: &mut Vec<(String, String, Verdict, Verdict, Verdict)>) -> Vec<(String, Value, bool)>
    where
        EF: p3_field::Field + p3_field::ExtensionField<BB> + BasedVectorSpace<BB> + p3_circuit_prover::field_params::ExtractBinomialW<BB> + core::hash::Hash,
    {
        let mut b = CircuitBuilder::<EF>::new();
        let x = b.public_input();
        let y = b.public_input();
        let z = b.public_input();
        let c3 = b.define_const(EF::from_u64(3));
        let zero = b.define_const(EF::ZERO);
        let s = b.add(x, y);
        let m = b.mul(s, z);
        let ma = b.mul_add(x, y, z);
        let h1 = b.horner_acc_step(zero, x, y, z);
        let h2 = b.horner_acc_step(h1, x, z, y);
        let d = b.sub(m, c3);
        let q = b.div(ma, c3);
        let t = b.add(h2, d);
        let u = b.add(t, q);
        let e = b.public_input();
        b.connect(u, e);
        let bit = b.public_input();
        b.assert_bool(bit);
        let circuit = b.build().unwrap();
        let (xv, yv, zv) = (EF::from_u64(2), EF::from_u64(5), EF::from_u64(7));
        let three = EF::from_u64(3);
        let h1v = yv - zv;
        let h2v = h1v * xv + zv - yv;
        let ev = h2v + ((xv + yv) * zv - three) + (xv * yv + zv) * three.inverse();
        let packing = TablePacking::new(2, 2);
        let mut out = vec![];
        let mut all = vec![None];
        all.extend(tampers.iter().copied().map(Some));
        for t in all {
            let mut r = circuit.runner();
            r.set_public_inputs(&[xv, yv, zv, ev, EF::ONE]).unwrap();
            let traces = r.run().unwrap();
            let cfg = vpe1::accept::fast_baby_bear();
            let (ad, prim, np) = get_airs_and_degrees_with_prep::<BabyBearConfig, _, D>(&circuit, &packing, &[], &[], ConstraintProfile::Standard).unwrap();
            let (airs, degs): (Vec<_>, Vec<usize>) = ad.into_iter().unzip();
            let pd = ProverData::from_airs_and_degrees(&cfg, &airs, &degs);
            let cpd = CircuitProverData::new(pd, prim, np);
            let prover = BatchStarkProver::new(cfg).with_table_packing(packing.clone());
            if let Some((tb, row, col)) = t {
                tamper_cell(tb, row, col);
            }
            let proof = quiet_catch(|| prover.prove_all_tables(&traces, &cpd));
            clear_tamper();
            if let Ok(Ok(mut p)) = proof {
                let label = match t {
                    None => "honest".to_string(),
                    Some((tb, row, col)) => format!("invalid(table{tb},row{row},col{col})"),
                };
                out.push((label.clone(), serde_json::to_value(&p).unwrap(), t.is_some()));
                let v = |q: &Proof| -> Result<(), String> { BatchStarkProver::new(vpe1::accept::fast_baby_bear()).verify_all_tables::<EF>(q).map_err(|e| format!("{e:?}")) };
                inmem_lookup_alterations::<BabyBearConfig>(&label, &mut p, &v, inmem);
            }
        }
        out
    }
    let tampers = [(2usize, 1usize, 3usize), (2, 2, 0), (1, 0, 0), (0, 1, 0)];
    let mut inmem = vec![];
    let proofs = if EXT { build_and_prove::<BB4, 4>(&tampers, &mut inmem) } else { build_and_prove::<BB, 1>(&tampers, &mut inmem) };
    let verify = move |p: &Proof| -> Result<(), String> {
        let prover = BatchStarkProver::new(vpe1::accept::fast_baby_bear());
        if EXT { prover.verify_all_tables::<BB4>(p).map_err(|e| format!("{e:?}")) } else { prover.verify_all_tables::<BB>(p).map_err(|e| format!("{e:?}")) }
    };
    Fixture {
        name: if EXT { "babybear-d4-alu" } else { "babybear-d1-alu" },
        inmem,
        manifest_json: {
            let m = proofs.first().and_then(|p| serde_json::from_value::<Proof>(p.1.clone()).ok()).map(|p| manifest_of(&p));
            Box::new(move |v| {
                let m = m.as_ref()?;
                let p = serde_json::from_value::<Proof>(v.clone()).ok()?;
                quiet_catch(|| m.matches(&p).is_ok()).ok()
            })
        },
        proofs,
        verify_json: Box::new(move |v| match serde_json::from_value::<Proof>(v.clone()) {
            Err(_) => Verdict::NotAProof,
            Ok(p) => verdict_of!(verify(&p)),
        }),
        verify_postcard: Box::new(move |v| match serde_json::from_value::<Proof>(v.clone()) {
            Err(_) => Verdict::NotAProof,
            Ok(p) => {
                let bytes = match postcard::to_allocvec(&p) {
                    Ok(b) => b,
                    Err(e) => return Verdict::Reject(format!("postcard_ser:{e}")),
                };
                match postcard::from_bytes::<Proof>(&bytes) {
                    Err(e) => Verdict::Reject(format!("postcard_de:{e}")),
                    Ok(p2) => verdict_of!(verify(&p2)),
                }
            }
        }),
    }
}

/// KoalaBear D=4 with a Poseidon2 table and a recompose table. `REVERSED`: the recompose table is
/// registered (prover, preprocessors, AIR builders) BEFORE the Poseidon2 table, so the proof's
/// table list is not in lexicographic order of the op types.
fn kb_npo_fixture<const REVERSED: bool>() -> Fixture {
    type Proof = BatchStarkProof<KoalaBearConfig>;
    let perm = default_koalabear_poseidon2_16();
    let mut b = CircuitBuilder::<KB4>::new();
    b.enable_poseidon2_perm::<KoalaBearD4Width16, _>(generate_poseidon2_trace::<KB4, KoalaBearD4Width16>, perm);
    b.enable_recompose::<KB>(generate_recompose_trace::<KB, KB4>);
    let limbs: [ExprId; 4] = core::array::from_fn(|i| {
        let coeffs: [KB; 4] = core::array::from_fn(|j| KB::from_u64((i * 4 + j + 1) as u64));
        b.alloc_const(KB4::from_basis_coefficients_slice(&coeffs).unwrap(), "in")
    });
    let mut last: Vec<Option<ExprId>> = vec![None; 4];
    for row in 0..2 {
        let first = row == 0;
        let is_last = row == 1;
        let mut inputs: Vec<Option<ExprId>> = vec![None; 4];
        if first {
            for l in 0..4 {
                inputs[l] = Some(limbs[l]);
            }
        }
        let (_id, outs) = b
            .add_poseidon2_perm(&Poseidon2PermCall {
                config: Poseidon2Config::KOALA_BEAR_D4_W16,
                new_start: first,
                merkle_path: false,
                mmcs_bit: None,
                mmcs_bit2: None,
                inputs,
                out_ctl: vec![is_last, is_last],
                return_all_outputs: false,
                mmcs_index_sum: None,
            })
            .unwrap();
        if is_last {
            last = outs;
        }
    }
    let s = b.add(last[0].unwrap(), last[1].unwrap());
    let coeffs = b.decompose_ext_to_base_coeffs::<KB>(s).unwrap();
    let r = b.recompose_base_coeffs_to_ext::<KB>(&coeffs).unwrap();
    b.connect(r, s);
    let p = b.public_input();
    let _q = b.mul(p, r);
    let circuit = b.build().unwrap();
    let packing = TablePacking::new(2, 2);
    let fast_cfg = || {
        // repository KoalaBear configuration with test-grade FRI parameters
        vpe1::accept::fast_koala_bear()
    };
    let mk_prover = move || {
        let mut prover = BatchStarkProver::new(fast_cfg()).with_table_packing(TablePacking::new(2, 2));
        if REVERSED {
            prover.register_recompose_table::<4>(false);
            prover.register_poseidon2_table::<4>(Poseidon2Config::KOALA_BEAR_D4_W16);
        } else {
            prover.register_poseidon2_table::<4>(Poseidon2Config::KOALA_BEAR_D4_W16);
            prover.register_recompose_table::<4>(false);
        }
        prover
    };
    let mut proofs = vec![];
    let mut inmem = vec![];
    for t in [None, Some((2usize, 1usize, 3usize)), Some((3, 0, 5)), Some((4, 0, 1)), Some((1, 0, 0))] {
        let mut rn = circuit.runner();
        rn.set_public_inputs(&[KB4::from_u64(9)]).unwrap();
        let traces = rn.run().unwrap();
        let npo_prep: Vec<Box<dyn NpoPreprocessor<KB>>> = if REVERSED {
            vec![Box::new(RecomposePreprocessor::default()), Box::new(Poseidon2Preprocessor)]
        } else {
            vec![Box::new(Poseidon2Preprocessor), Box::new(RecomposePreprocessor::default())]
        };
        let air_builders = if REVERSED {
            let mut a = recompose_air_builders(1, false);
            a.extend(poseidon2_air_builders::<_, 4>());
            a
        } else {
            let mut a = poseidon2_air_builders::<_, 4>();
            a.extend(recompose_air_builders(1, false));
            a
        };
        let (ad, prim, np) = get_airs_and_degrees_with_prep::<KoalaBearConfig, _, 4>(&circuit, &packing, &npo_prep, &air_builders, ConstraintProfile::Standard).unwrap();
        let (airs, degs): (Vec<_>, Vec<usize>) = ad.into_iter().unzip();
        let cfg = fast_cfg();
        let pd = ProverData::from_airs_and_degrees(&cfg, &airs, &degs);
        let cpd = CircuitProverData::new(pd, prim, np);
        let prover = mk_prover();
        if let Some((tb, row, col)) = t {
            tamper_cell(tb, row, col);
        }
        let proof = quiet_catch(|| prover.prove_all_tables(&traces, &cpd));
        clear_tamper();
        if let Ok(Ok(mut p)) = proof {
            let label = match t {
                None => "honest".to_string(),
                Some((tb, row, col)) => format!("invalid(table{tb},row{row},col{col})"),
            };
            proofs.push((label.clone(), serde_json::to_value(&p).unwrap(), t.is_some()));
            let v = |q: &Proof| -> Result<(), String> { mk_prover().verify_all_tables::<KB4>(q).map_err(|e| format!("{e:?}")) };
            inmem_lookup_alterations::<KoalaBearConfig>(&label, &mut p, &v, &mut inmem);
        }
    }
    let verify = move |p: &Proof| -> Result<(), String> { mk_prover().verify_all_tables::<KB4>(p).map_err(|e| format!("{e:?}")) };
    Fixture {
        name: if REVERSED { "koalabear-d4-recompose-poseidon2(reverse registration)" } else { "koalabear-d4-poseidon2-recompose" },
        inmem,
        manifest_json: {
            let m = proofs.first().and_then(|p| serde_json::from_value::<Proof>(p.1.clone()).ok()).map(|p| manifest_of(&p));
            Box::new(move |v| {
                let m = m.as_ref()?;
                let p = serde_json::from_value::<Proof>(v.clone()).ok()?;
                quiet_catch(|| m.matches(&p).is_ok()).ok()
            })
        },
        proofs,
        verify_json: Box::new(move |v| match serde_json::from_value::<Proof>(v.clone()) {
            Err(_) => Verdict::NotAProof,
            Ok(p) => verdict_of!(verify(&p)),
        }),
        verify_postcard: Box::new(move |v| match serde_json::from_value::<Proof>(v.clone()) {
            Err(_) => Verdict::NotAProof,
            Ok(p) => {
                let bytes = match postcard::to_allocvec(&p) {
                    Ok(b) => b,
                    Err(e) => return Verdict::Reject(format!("postcard_ser:{e}")),
                };
                match postcard::from_bytes::<Proof>(&bytes) {
                    Err(e) => Verdict::Reject(format!("postcard_de:{e}")),
                    Ok(p2) => verdict_of!(verify(&p2)),
                }
            }
        }),
    }
}

// ---------------------------------------------------------------------------------------
// metadata alterations on the JSON tree

#[derive(Clone, Debug)]
struct Alt {
    /// JSON pointer of the altered node
    path: String,
    /// path with array indices abstracted
    class: String,
    /// new value
    value: Value,
    /// "set" | "array-drop" | "array-dup" | "array-swap"
    kind: &'static str,
}

fn class_of(path: &str) -> String {
    path.split('/').map(|s| if s.chars().all(|c| c.is_ascii_digit()) && !s.is_empty() { "*" } else { s }).collect::<Vec<_>>().join("/")
}

fn collect_alts(node: &Value, path: String, strings: &[String], out: &mut Vec<Alt>) {
    let mk = |p: &str, v: Value, k: &'static str| Alt { path: p.to_string(), class: class_of(p), value: v, kind: k };
    match node {
        Value::Number(n) => {
            if let Some(x) = n.as_u64() {
                let mut cands: Vec<u64> = vec![0, 1, 2, 3, 4, 5, 6, 8, 16, x + 1, x.saturating_sub(1), x * 2];
                cands.sort();
                cands.dedup();
                for c in cands {
                    if c != x {
                        out.push(mk(&path, json!(c), "set"));
                    }
                }
                out.push(mk(&path, Value::Null, "set"));
            }
        }
        Value::Bool(b) => out.push(mk(&path, json!(!b), "set")),
        Value::Null => {
            out.push(mk(&path, json!(11), "set"));
            out.push(mk(&path, json!(0), "set"));
        }
        Value::String(s) => {
            for o in strings {
                if o != s {
                    out.push(mk(&path, json!(o), "set"));
                }
            }
        }
        Value::Array(a) => {
            // structural alterations of lists of tables / instances (not of digests)
            let is_words = a.iter().all(|x| x.is_number());
            if !is_words && !a.is_empty() {
                for i in 0..a.len() {
                    let mut d = a.clone();
                    d.remove(i);
                    out.push(mk(&path, Value::Array(d), "array-drop"));
                    let mut d = a.clone();
                    d.insert(i, a[i].clone());
                    out.push(mk(&path, Value::Array(d), "array-dup"));
                    if i + 1 < a.len() {
                        let mut d = a.clone();
                        d.swap(i, i + 1);
                        out.push(mk(&path, Value::Array(d), "array-swap"));
                    }
                    // an extra entry that is a variant of entry i: one numeric field set to a
                    // small value (a table declared with no rows, one lane, ...), right after
                    // entry i and at the end of the list
                    if let Value::Object(m) = &a[i] {
                        for (k, v) in m {
                            let Some(x) = v.as_u64() else { continue };
                            for c in [0u64, 1, 2] {
                                if c == x {
                                    continue;
                                }
                                let mut e = a[i].clone();
                                e[k.as_str()] = json!(c);
                                let mut d = a.clone();
                                d.insert(i + 1, e.clone());
                                out.push(mk(&path, Value::Array(d), "array-insert-variant"));
                                if i + 1 < a.len() {
                                    let mut d = a.clone();
                                    d.push(e);
                                    out.push(mk(&path, Value::Array(d), "array-insert-variant"));
                                }
                            }
                        }
                    }
                }
            }
            for (i, c) in a.iter().enumerate() {
                // digests: first and last word only
                if is_words && a.len() > 2 && i != 0 && i != a.len() - 1 {
                    continue;
                }
                collect_alts(c, format!("{path}/{i}"), strings, out);
            }
        }
        Value::Object(m) => {
            for (k, c) in m {
                collect_alts(c, format!("{path}/{k}"), strings, out);
            }
        }
    }
}

fn collect_strings(node: &Value, out: &mut Vec<String>) {
    match node {
        Value::String(s) => out.push(s.clone()),
        Value::Array(a) => a.iter().for_each(|c| collect_strings(c, out)),
        Value::Object(m) => m.values().for_each(|c| collect_strings(c, out)),
        _ => {}
    }
}

fn apply(tree: &Value, alts: &[&Alt]) -> Option<Value> {
    let mut t = tree.clone();
    for a in alts {
        *t.pointer_mut(&a.path)? = a.value.clone();
    }
    Some(t)
}

fn metadata_alts(tree: &Value) -> Vec<Alt> {
    let mut strings = vec!["Baseline".to_string(), "Optimized".to_string()];
    let Value::Object(m) = tree else { return vec![] };
    for (k, c) in m {
        if k != "proof" {
            collect_strings(c, &mut strings);
        }
    }
    // derived names: a declared id extended by a suffix, and every proper `/`-prefix of it (ids
    // that are NOT in the verifier's table set but look related to one that is)
    for st in strings.clone() {
        if st.contains('/') || st.contains('_') {
            strings.push(format!("{st}/alt"));
            let mut p = st.as_str();
            while let Some(i) = p.rfind('/') {
                p = &p[..i];
                strings.push(p.to_string());
            }
        }
    }
    strings.sort();
    strings.dedup();
    let mut out = vec![];
    for (k, c) in m {
        if k != "proof" {
            collect_alts(c, format!("/{k}"), &strings, &mut out);
        }
    }
    out
}

/// structural alteration of the non-primitive table list, or another table's name in an entry
fn is_table_set(a: &Alt) -> bool {
    (a.path == "/non_primitives" && a.kind.starts_with("array-")) || (a.path.starts_with("/non_primitives/") && a.path.ends_with("/op_type"))
}

fn is_field_param(path: &str) -> bool {
    path == "/ext_degree" || path == "/w_binomial" || path == "/alu_quintic_trinomial"
}

fn main() {
    vpcore::install_quiet_panic_hook();
    let ctx = Ctx::from_args("C16", "fault_enumeration");
    let report = Report::new();
    let histo = Histo::new();
    let panics = Histo::new();

    let mut fixtures = vec![bb_fixture::<false>(), kb_npo_fixture::<false>(), kb_npo_fixture::<true>()];
    if !ctx.quick() {
        fixtures.push(bb_fixture::<true>());
    }
    if let Some(path) = &ctx.replay {
        let r = vpcore::load_replay(path);
        if r["fixture"].as_str() == Some("cross_field") {
            for (pf, vf, verdict) in cross_field_verdicts() {
                if Some(pf) == r["proof"].as_str() && Some(vf) == r["verifier"].as_str() {
                    println!("replay cross_field: babybear proof over {pf}, verifier for {vf} -> {verdict:?}");
                    if pf != vf && verdict == Verdict::Accept {
                        report.violation("replay:cross_field_accepted", "accepted", r.clone());
                    }
                }
            }
            let cov = json!({"evaluations":1,"distinct_nontrivial":1,"rule":"replay","samples":[r]});
            finish(&ctx, cov, vec![], &report);
        }
        let fx = fixtures.iter().find(|f| f.name == r["fixture"].as_str().unwrap_or("")).unwrap_or_else(|| vpcore::machinery_error("unknown fixture in replay"));
        let label = r["proof"].as_str().unwrap_or("honest");
        if let Some(alt) = r["inmem"].as_str() {
            // in-memory alteration of non-serialized fields: the fixture already evaluated it
            for (l, a, mem, pc, js) in &fx.inmem {
                if l == label && a == alt {
                    println!("replay {} {} in-memory [{}] -> memory {:?} / postcard {:?} / json {:?}", fx.name, l, a, mem, pc, js);
                    let t = |v: &Verdict| v.tag().split(':').next().unwrap().to_string();
                    if t(mem) != t(pc) || t(mem) != t(js) {
                        report.violation("replay:serde_roundtrip:inmem", "verdict changes across a serde round trip", r.clone());
                    }
                }
            }
            let cov = json!({"evaluations":3,"distinct_nontrivial":2,"rule":"replay","samples":[r]});
            finish(&ctx, cov, vec![], &report);
        }
        let (_, tree, _) = fx.proofs.iter().find(|p| p.0 == label).unwrap_or_else(|| vpcore::machinery_error("unknown proof label"));
        let alts: Vec<Alt> = r["alterations"].as_array().cloned().unwrap_or_default().iter().map(|a| Alt { path: a["path"].as_str().unwrap().to_string(), class: String::new(), value: a["value"].clone(), kind: "set" }).collect();
        let refs: Vec<&Alt> = alts.iter().collect();
        let t = apply(tree, &refs).unwrap();
        let v = (fx.verify_json)(&t);
        println!("replay {} {} {:?} -> {:?}", fx.name, label, r["alterations"], v);
        if v == Verdict::Accept && label != "honest" {
            report.violation("replay:invalid_trace_accepted", "accepted", r.clone());
        }
        let cov = json!({"evaluations":1,"distinct_nontrivial":2,"rule":"replay","samples":[r]});
        finish(&ctx, cov, vec![], &report);
    }

    let evals = AtomicU64::new(0);
    let nontrivial = AtomicU64::new(0);
    let mut per_fixture = vec![];
    let mut samples = vec![];
    let mut exhaustive = true;
    let mut harmless: std::collections::BTreeSet<String> = Default::default();
    let harmless_m = std::sync::Mutex::new(&mut harmless);

    // cross-field clause
    let mut cross_hist: Vec<String> = vec![];
    for (pf, vf, verdict) in cross_field_verdicts() {
        evals.fetch_add(1, Ordering::Relaxed);
        cross_hist.push(format!("babybear proof over {pf} / verifier for {vf}: {}", verdict.tag().split(':').next().unwrap()));
        if pf == vf {
            if verdict != Verdict::Accept {
                vpcore::machinery_error(&format!("honest babybear {pf} proof not accepted by its own verifier: {verdict:?}"));
            }
        } else {
            if matches!(verdict, Verdict::Reject(_)) {
                nontrivial.fetch_add(1, Ordering::Relaxed);
            }
            if verdict == Verdict::Accept {
                report.violation(
                    format!("field_param_mismatch_accepted:cross_field:babybear-{pf}-proof/{vf}-verifier"),
                    format!("a genuine proof over BabyBear {pf} is accepted by verify_all_tables instantiated for {vf}"),
                    json!({"fixture": "cross_field", "proof": pf, "verifier": vf, "alterations": []}),
                );
            }
        }
    }
    for fx in &fixtures {
        // in-memory alterations of non-serialized fields: verdict must survive both round trips,
        // and an invalid-trace proof must never verify
        let accepted_unaltered: std::collections::HashSet<&String> = fx
            .inmem
            .iter()
            .filter(|(l, alt, mem, _, _)| l != "honest" && alt == "unaltered" && *mem == Verdict::Accept)
            .map(|x| &x.0)
            .collect();
        for (label, alt, mem, pc, js) in &fx.inmem {
            if accepted_unaltered.contains(label) {
                // the tampered cell is one the AIR does not constrain (C04 matter): not an invalid trace here
                continue;
            }
            evals.fetch_add(3, Ordering::Relaxed);
            let t = |v: &Verdict| v.tag().split(':').next().unwrap().to_string();
            histo.add(&format!("inmem/{}/{}", if label == "honest" { "honest" } else { "invalid_trace" }, t(mem)));
            let replay = json!({"fixture": fx.name, "proof": label, "alterations": [], "inmem": alt});
            if t(mem) != t(pc) || t(mem) != t(js) {
                report.violation(
                    format!("serde_roundtrip:inmem:{}", fx.name),
                    format!("{} {label} [{alt}]: verdict in memory {mem:?}, after postcard {pc:?}, after json {js:?}", fx.name),
                    replay.clone(),
                );
            }
            if label != "honest" && (*mem == Verdict::Accept || *pc == Verdict::Accept || *js == Verdict::Accept) && alt != "unaltered" {
                report.violation(format!("invalid_trace_accepted:{}:inmem-lookups", fx.name), format!("{label} [{alt}] verifies"), replay);
            }
            if matches!(mem, Verdict::Reject(_)) {
                nontrivial.fetch_add(1, Ordering::Relaxed);
            }
        }
        // sanity of the proof set under correct metadata
        let mut set_info = vec![];
        let mut skip_fixture = false;
        let mut usable: Vec<&(String, Value, bool)> = vec![];
        for p in &fx.proofs {
            let v = (fx.verify_json)(&p.1);
            set_info.push(json!({"proof": p.0, "invalid_trace": p.2, "verdict_correct_metadata": v.tag()}));
            match (&v, p.2) {
                (Verdict::Accept, false) => usable.push(p),
                (Verdict::Reject(_), true) => usable.push(p),
                (Verdict::Accept, true) => histo.add("invalid_trace_proof_accepted_under_correct_metadata(C04 matter, excluded)"),
                (other, false) => {
                    // the honest proof as DESERIALISED from its JSON form is not accepted. If the very same
                    // proof object was accepted in memory this is the round-trip clause (reported above
                    // from `fx.inmem`), not a broken fixture; the JSON-based enumeration of this fixture
                    // has no reference point then and is skipped.
                    let mem_ok = fx.inmem.iter().any(|(l, a, mem, _, _)| l == "honest" && a == "unaltered" && *mem == Verdict::Accept);
                    if mem_ok {
                        skip_fixture = true;
                        break;
                    }
                    vpcore::machinery_error(&format!("honest fixture proof of {} not accepted: {other:?}", fx.name))
                }
                (Verdict::Panic(_), true) => usable.push(p),
                _ => {}
            }
            // (d) serde round trips of the unaltered object
            let pc = (fx.verify_postcard)(&p.1);
            evals.fetch_add(1, Ordering::Relaxed);
            if pc.tag().split(':').next() != v.tag().split(':').next() {
                report.violation(format!("serde_roundtrip:postcard:{}", fx.name), format!("{}: json verdict {v:?}, after postcard round trip {pc:?}", p.0), json!({"fixture": fx.name, "proof": p.0, "alterations": []}));
            }
            let reser = serde_json::to_value(&p.1).unwrap();
            if reser != p.1 {
                vpcore::machinery_error("json value not stable");
            }
        }
        if skip_fixture {
            histo.add("fixture_skipped_after_round_trip_violation");
            continue;
        }
        if !usable.iter().any(|p| p.2) {
            vpcore::machinery_error(&format!("fixture {} has no rejected invalid-trace proof", fx.name));
        }
        let honest_tree = &usable.iter().find(|p| !p.2).unwrap().1;
        let alts = metadata_alts(honest_tree);
        let n_alts = alts.len();
        // singles on every proof of the set
        let judge = |p: &(String, Value, bool), sel: &[&Alt]| {
            let Some(t) = apply(&p.1, sel) else { return };
            let v = (fx.verify_json)(&t);
            evals.fetch_add(1, Ordering::Relaxed);
            let desc: Vec<Value> = sel.iter().map(|a| json!({"path": a.path, "value": a.value, "kind": a.kind})).collect();
            let classes: Vec<String> = sel.iter().map(|a| format!("{}[{}]", a.class, a.kind)).collect();
            histo.add(&format!("{}/{}/{}", if p.2 { "invalid_trace" } else { "honest" }, sel.len(), v.tag().split(':').next().unwrap()));
            let replay = json!({"fixture": fx.name, "proof": p.0, "alterations": desc});
            match &v {
                Verdict::NotAProof => return,
                Verdict::Panic(m) => {
                    // The statement of C16 has no no-panic clause: a panicking verifier does
                    // not accept. Recorded as an observation (location histogram) only.
                    let loc = m.rsplit('@').next().unwrap_or("").trim().to_string();
                    let loc = loc.rsplit("/src/").next().unwrap_or(&loc).to_string();
                    panics.add(&loc);
                    nontrivial.fetch_add(1, Ordering::Relaxed);
                    let _ = replay;
                    return;
                }
                Verdict::Accept if p.2 => {
                    report.violation(format!("invalid_trace_accepted:{}:{}", fx.name, classes.join("+")), format!("proof of an invalid trace ({}) verifies after metadata alteration {:?}", p.0, desc), replay);
                    return;
                }
                Verdict::Accept => {
                    if sel.iter().any(|a| is_field_param(&a.path)) {
                        report.violation(format!("field_param_mismatch_accepted:{}", classes.join("+")), format!("{}: metadata contradicting the verifier's field parameters verifies: {:?}", fx.name, desc), replay);
                    } else if sel.iter().any(|a| is_table_set(a)) {
                        report.violation(format!("table_set_mismatch_accepted:{}", classes.join("+")), format!("{}: a table list that differs from the verifier's table set (entry dropped / duplicated / reordered / added) verifies: {:?}", fx.name, desc), replay);
                    } else {
                        harmless_m.lock().unwrap().insert(format!("{}:{}", fx.name, classes.join("+")));
                    }
                }
                Verdict::Reject(_) => {
                    nontrivial.fetch_add(1, Ordering::Relaxed);
                }
            }
            // (e) the caller-side manifest written down for the honest proof accepts the altered
            // proof iff every field it covers (degree, reduction kind, ALU variant, table list in
            // order with variants and public-value lengths) is unchanged
            if !sel.iter().any(|a| a.path.starts_with("/w_binomial")) {
                if let Some(m) = (fx.manifest_json)(&t) {
                    evals.fetch_add(1, Ordering::Relaxed);
                    let r = manifest_ref(honest_tree, &t);
                    if m != r {
                        let dir = if m { "accepts_contradicting_metadata" } else { "rejects_matching_metadata" };
                        report.violation(format!("manifest:{dir}:{}", classes.join("+")), format!("{}: VerifierManifest::matches {} for {:?}", fx.name, dir, desc), json!({"fixture": fx.name, "proof": p.0, "alterations": desc}));
                    }
                }
            }
            // (d) on altered proofs that deserialise: postcard round trip keeps the verdict
            if sel.len() == 1 {
                let pc = (fx.verify_postcard)(&t);
                evals.fetch_add(1, Ordering::Relaxed);
                if pc.tag().split(':').next() != v.tag().split(':').next() {
                    report.violation(format!("serde_roundtrip:postcard:{}", fx.name), format!("{} {:?}: json {v:?} vs postcard {pc:?}", p.0, classes), json!({"fixture": fx.name, "proof": p.0, "alterations": desc}));
                }
            }
        };
        let mut work: Vec<(usize, Vec<usize>)> = vec![];
        for (pi, _) in usable.iter().enumerate() {
            for ai in 0..n_alts {
                work.push((pi, vec![ai]));
            }
        }
        // pairs: every pair of alterations at different leaves — quick: pairs whose first member
        // is a top-level scalar field; thorough: all pairs — on the honest and the first invalid proof
        let core: Vec<usize> = (0..n_alts).filter(|&i| alts[i].path.matches('/').count() <= 2 && alts[i].kind == "set").collect();
        let pair_proofs: Vec<usize> = usable.iter().enumerate().filter(|(_, p)| p.2).map(|(i, _)| i).take(if ctx.quick() { 1 } else { 2 }).collect();
        let firsts: Vec<usize> = if ctx.quick() { core.clone() } else { (0..n_alts).collect() };
        for &pi in &pair_proofs {
            for &a in &firsts {
                for b in 0..n_alts {
                    if ctx.quick() && !core.contains(&b) && b % 4 != 0 {
                        continue; // quick: core x (core + every 4th alteration)
                    }
                    if alts[b].path != alts[a].path && (ctx.quick() || a < b) {
                        work.push((pi, vec![a, b]));
                    }
                }
            }
        }
        let total = work.len();
        let done = AtomicU64::new(0);
        work.par_iter().for_each(|(pi, sel)| {
            if ctx.used() > 0.93 {
                return;
            }
            let refs: Vec<&Alt> = sel.iter().map(|i| &alts[*i]).collect();
            judge(usable[*pi], &refs);
            done.fetch_add(1, Ordering::Relaxed);
        });
        let d = done.load(Ordering::Relaxed) as usize;
        exhaustive &= d == total;
        per_fixture.push(json!({"fixture": fx.name, "proof_set": set_info, "metadata_alterations": n_alts, "cases_planned": total, "cases_done": d}));
        if samples.len() < 6 {
            for a in alts.iter().step_by((n_alts / 3).max(1)).take(3) {
                samples.push(json!({"fixture": fx.name, "path": a.path, "new_value": a.value, "kind": a.kind}));
            }
        }
        eprintln!("[C16] {} alterations={} cases={}/{} t={:.1}s", fx.name, n_alts, d, total, ctx.elapsed_s());
    }
    drop(harmless_m);
    let cov = json!({
        "evaluations": evals.load(Ordering::Relaxed),
        "distinct_nontrivial": nontrivial.load(Ordering::Relaxed),
        "rule": "a case = one proof of the set with one or two metadata leaves altered to another value of the leaf's small domain (numbers: 0,1,2,3,4,5,6,8,16,n±1,2n,null; booleans flipped; enum strings: every other string occurring in the metadata; null<->number; lists of tables/instances: drop/duplicate/swap), deserialised and verified; non-trivial = the altered proof deserialises and is rejected",
        "samples": samples,
        "fixtures": per_fixture,
        "exhaustive": exhaustive,
        "verdict_histogram(proof kind/number of alterations/verdict)": histo.to_json(),
        "cross_field_verdicts(genuine proof over one extension degree, verifier instantiated for another)": cross_hist,
        "verifier_panics_by_location(observation, counted as rejection)": panics.to_json(),
        "honest_proof_still_accepted_after_alteration_of": harmless.iter().cloned().collect::<Vec<_>>(),
    });
    finish(
        &ctx,
        cov,
        vec![
            "invalid-trace proofs are produced by the real prover from a trace with one deviated cell (H4 hook) and are rejected under correct metadata; soundness of the STARK is assumed".into(),
            "alterations are those of a GIVEN proof (the statement's letter); a prover re-proving under other metadata is C04's subject".into(),
        ],
        &report,
    );
}
