fn main() {
    eprintln!("MACHINERY-ERROR: check c16 not built yet");
    std::process::exit(2);
}
