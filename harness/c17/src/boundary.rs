//! C17, config-boundary scenario: the `_cross` aggregation entry point called with an input
//! config and an output config that DIFFER IN ZK-NESS (hiding-PCS children aggregated into a
//! plain proof, and plain children wrapped into a hiding proof).
//!
//! The BFS of `main.rs` runs everything under one plain config. This scenario adds a second
//! config `Z` (the same fields/hash/FRI parameters behind `HidingFriPcs`, the `--zk` half of the
//! glue in `recursion/examples/common/mod.rs`) and enumerates, per direction `In -> Out`:
//!
//!   children (proved under `In`): base proofs `B0` (unit circuit, batch-STARK) and `U0`
//!     (Fibonacci, uni-STARK), and the depth-1 proofs `L(B0)`, `A(B0,B0)` (+ `L(U0)`, `A(U0,B0)`
//!     in the thorough tier) produced by the real same-config API under `In`;
//!   case = (direction, ordered pair (x, y) of children, params P);
//!   history of a case (every step is one real API call, judged on its own):
//!     1. `Ax[In->Out](x, y, None)`
//!     2. `Ax[In->Out](x, y, Some(&mut None))`        (empty slot, gets filled)
//!     3. `Ax[In->Out](x', y', Some(&mut slot))`      (slot filled by step 2, other value instance)
//!     4. `L[Out](output of 1)`                       (the further step, really proved)
//!     thorough only:
//!     5. `L[Out](output of 3)`
//!     6. `A[Out](output of 1, output of 2)`          (further aggregation under `Out`)
//!     7. `Ax[Out->In](output of 1, output of 2)`     (crossing back over the boundary)
//!
//! Oracle per step = the one of the rest of C17 (`judge`): no panic, `Ok`, the output verifies
//! natively under the config it was committed with (`verify_all_tables`), and
//! `into_recursion_input` of it is accepted by the next layer's in-circuit verifier built under
//! that config; steps 1/2/3 must agree (cached ≡ uncached).
//!
//! Nothing is sampled: the hiding PCS draws its blinding randomness from a `SmallRng` whose seed
//! is a function of the case label (and `VERIF_SEED`); it only changes values inside proofs.

use std::rc::Rc;
use std::sync::Arc;
use std::time::Instant;

use p3_batch_stark::ProverData;
use p3_challenger::DuplexChallenger;
use p3_circuit::ops::{generate_poseidon2_trace, generate_recompose_trace};
use p3_circuit::{CircuitBuilder, CircuitRunner, NonPrimitiveOpId};
use p3_circuit_prover::common::get_airs_and_degrees_with_prep;
use p3_circuit_prover::{BatchStarkProof, BatchStarkProver, CircuitProverData, ConstraintProfile, TablePacking};
use p3_commit::Pcs;
use p3_field::PrimeCharacteristicRing;
use p3_fri::{FriParameters, HidingFriPcs};
use p3_koala_bear::default_koalabear_poseidon2_16;
use p3_lookup::logup::LogUpGadget;
use p3_matrix::dense::RowMajorMatrix;
use p3_poseidon2_circuit_air::KoalaBearD4Width16;
use p3_recursion::pcs::{
    HidingFriProofTargets, InputProofTargets, MerkleCapTargets, RecValMmcs, set_hiding_fri_mmcs_private_data,
};
use p3_recursion::traits::{RecursiveAir, RecursivePcs};
use p3_recursion::verifier::VerificationError;
use p3_recursion::{
    AggregationPrepCache, BatchOnly, FriRecursionConfig, FriVerifierParams, PcsRecursionBackend, RecursionInput,
    RecursionOutput, VerifierCircuitResult, build_and_prove_aggregation_layer,
    build_and_prove_aggregation_layer_cross, build_and_prove_next_layer, build_next_layer_circuit,
};
use p3_uni_stark::{Proof, StarkConfig, StarkGenericConfig, Val, prove, verify};
use rand::SeedableRng;
use rand::rngs::SmallRng;
use vpcore::quiet_catch;
use vpcore::rayon::prelude::*;
use vpcore::serde_json::{Value, json};

use crate::engine::{Env, Verdict, counters, fnv64, fp_str};
use crate::glue::*;
use crate::objs::FibAir;

// ---------------------------------------------------------------------------------------------
// the hiding config (ZK half of `define_field_module_types!`)

pub type MyPcsZk = HidingFriPcs<F, Dft, MyMmcs, ChallengeMmcs, SmallRng>;
pub type MyConfigZk = StarkConfig<MyPcsZk, Challenge, Challenger>;
type RecVal = RecValMmcs<F, DIGEST_ELEMS, MyHash, MyCompress>;
type InputPf = InputProofTargets<F, Challenge, RecVal>;
type InnerFriZk = HidingFriProofTargets<
    F,
    Challenge,
    p3_recursion::pcs::RecExtensionValMmcs<F, Challenge, DIGEST_ELEMS, RecVal>,
    InputPf,
    p3_recursion::pcs::Witness<F>,
>;

#[derive(Clone)]
pub struct ZkCfg {
    config: Arc<MyConfigZk>,
    fri_verifier_params: FriVerifierParams,
}

impl StarkGenericConfig for ZkCfg {
    type Challenge = Challenge;
    type Challenger = DuplexChallenger<F, Perm, WIDTH, RATE>;
    type Pcs = MyPcsZk;
    fn pcs(&self) -> &MyPcsZk {
        self.config.pcs()
    }
    fn initialise_challenger(&self) -> Challenger {
        self.config.initialise_challenger()
    }
}

impl FriRecursionConfig for ZkCfg
where
    MyPcsZk: RecursivePcs<
            ZkCfg,
            InputPf,
            InnerFriZk,
            MerkleCapTargets<F, DIGEST_ELEMS>,
            <MyPcsZk as Pcs<Challenge, Challenger>>::Domain,
        >,
{
    type Commitment = MerkleCapTargets<F, DIGEST_ELEMS>;
    type InputProof = InputPf;
    type OpeningProof = InnerFriZk;
    type RawOpeningProof = <MyPcsZk as Pcs<Challenge, Challenger>>::Proof;
    const DIGEST_ELEMS: usize = DIGEST_ELEMS;

    fn with_fri_opening_proof<'a, A, R>(
        prev: &RecursionInput<'a, Self, A>,
        f: impl FnOnce(&Self::RawOpeningProof) -> R,
    ) -> R
    where
        A: RecursiveAir<Val<Self>, Self::Challenge, LogUpGadget>,
    {
        match prev {
            RecursionInput::UniStark { proof, .. } => f(&proof.opening_proof),
            RecursionInput::BatchStark { proof, .. } => f(&proof.proof.opening_proof),
        }
    }

    fn prepare_circuit_for_verification(
        &self,
        circuit: &mut CircuitBuilder<Challenge>,
    ) -> Result<(), VerificationError> {
        let perm = default_koalabear_poseidon2_16();
        circuit.enable_poseidon2_perm::<KoalaBearD4Width16, _>(
            generate_poseidon2_trace::<Challenge, KoalaBearD4Width16>,
            perm,
        );
        circuit.enable_recompose::<F>(generate_recompose_trace::<F, Challenge>);
        Ok(())
    }

    fn pcs_verifier_params(&self) -> &FriVerifierParams {
        &self.fri_verifier_params
    }

    fn set_fri_private_data(
        runner: &mut CircuitRunner<'_, Challenge>,
        op_ids: &[NonPrimitiveOpId],
        opening_proof: &Self::RawOpeningProof,
    ) -> Result<(), &'static str> {
        set_hiding_fri_mmcs_private_data::<F, Challenge, ChallengeMmcs, MyMmcs, MyHash, MyCompress, DIGEST_ELEMS>(
            runner,
            op_ids,
            opening_proof,
            P2,
        )
    }
}

/// `create_config_zk` of the examples: 2 random codewords, blinding RNG seeded by `rng_seed`.
pub fn make_zk_cfg(fp: &FriParams, rng_seed: u64) -> ZkCfg {
    let perm = default_koalabear_poseidon2_16();
    let hash = MyHash::new(perm.clone());
    let compress = MyCompress::new(perm.clone());
    let val_mmcs = MyMmcs::new(hash, compress, fp.cap_height);
    let challenge_mmcs = ChallengeMmcs::new(val_mmcs.clone());
    let fri_params = FriParameters {
        max_log_arity: fp.max_log_arity,
        log_blowup: fp.log_blowup,
        log_final_poly_len: fp.log_final_poly_len,
        num_queries: fp.num_queries,
        commit_proof_of_work_bits: fp.commit_pow_bits,
        query_proof_of_work_bits: fp.query_pow_bits,
        mmcs: challenge_mmcs,
    };
    let pcs = MyPcsZk::new(Dft::default(), val_mmcs, fri_params, 2, SmallRng::seed_from_u64(rng_seed));
    ZkCfg {
        config: Arc::new(MyConfigZk::new(pcs, Challenger::new(perm))),
        fri_verifier_params: FriVerifierParams::with_mmcs(
            fp.log_blowup,
            fp.log_final_poly_len,
            fp.commit_pow_bits,
            fp.query_pow_bits,
            P2,
        ),
    }
}

/// A config of the boundary matrix, constructible per call (the hiding one owns an RNG).
pub trait MkCfg: StarkGenericConfig + Sized {
    const TAG: &'static str;
    fn mk(fp: &FriParams, rng_seed: u64) -> Self;
}
impl MkCfg for Cfg {
    const TAG: &'static str = "plain";
    fn mk(fp: &FriParams, _rng_seed: u64) -> Self {
        make_cfg(fp)
    }
}
impl MkCfg for ZkCfg {
    const TAG: &'static str = "zk";
    fn mk(fp: &FriParams, rng_seed: u64) -> Self {
        make_zk_cfg(fp, rng_seed)
    }
}

// ---------------------------------------------------------------------------------------------
// proofs under either config

/// Plain data (no `Rc`): shared between worker threads.
pub enum PObj<SC: StarkGenericConfig> {
    Uni { proof: Proof<SC>, air: FibAir, pis: Vec<F> },
    Batch { proof: BatchStarkProof<SC>, tpi: Vec<Vec<F>> },
}

macro_rules! with_inp {
    ($cfg:ty, $obj:expr, |$inp:ident, $A:ident| $body:expr) => {
        match $obj {
            PObj::Uni { proof, air, pis } => {
                #[allow(dead_code)]
                type $A = FibAir;
                let $inp: RecursionInput<'_, $cfg, FibAir> = RecursionInput::UniStark {
                    proof,
                    air,
                    public_inputs: pis.clone(),
                    preprocessed_commit: None,
                };
                $body
            }
            PObj::Batch { proof, tpi } => {
                #[allow(dead_code)]
                type $A = BatchOnly;
                let $inp: RecursionInput<'_, $cfg, BatchOnly> = RecursionInput::BatchStark {
                    proof,
                    common_data: &proof.stark_common,
                    table_public_inputs: tpi.clone(),
                };
                $body
            }
        }
    };
}

pub type CallRes<SC> = Result<Result<RecursionOutput<SC>, VerificationError>, String>;

fn fib_trace(n: usize, a: u32, b: u32) -> (RowMajorMatrix<F>, Vec<F>) {
    let mut v = vec![F::ZERO; 2 * n];
    v[0] = F::from_u32(a);
    v[1] = F::from_u32(b);
    for i in 1..n {
        let (l, r) = (v[2 * (i - 1)], v[2 * (i - 1) + 1]);
        v[2 * i] = r;
        v[2 * i + 1] = l + r;
    }
    let x = v[2 * n - 1];
    (RowMajorMatrix::new(v, 2), vec![F::from_u32(a), F::from_u32(b), x])
}

/// Same-config operations, instantiated for the plain and for the hiding config.
macro_rules! cfg_ops {
    ($m:ident, $cfg:ty) => {
        pub mod $m {
            use super::*;
            pub type C = $cfg;

            /// Base proofs under `cfg`: `U0` = the repository's Fibonacci AIR (8 rows), `B0` = the
            /// aggregation example's unit circuit (`prove_dummy_circuit{,_zk}`: const == public).
            pub fn make_base(name: &str, inst: usize, cfg: &C, fp: &FriParams) -> Result<PObj<C>, String> {
                match name {
                    "U0" => {
                        let (a, b) = if inst == 0 { (0, 1) } else { (2, 5) };
                        let (trace, pis) = fib_trace(8, a, b);
                        let air = FibAir { variant: 0 };
                        let proof = prove(cfg, &air, trace, &pis);
                        verify(cfg, &air, &proof, &pis).map_err(|e| format!("base U0 does not verify: {e:?}"))?;
                        Ok(PObj::Uni { proof, air, pis })
                    }
                    "B0" => {
                        let constant = if inst == 0 { 3 } else { 11 };
                        let tp = TablePacking::new(1, 1).with_fri_params(fp.log_final_poly_len, fp.log_blowup);
                        let mut b = CircuitBuilder::<F>::new();
                        let expected = b.alloc_public_input("expected");
                        let c = b.alloc_const(F::from_u32(constant), "c");
                        b.connect(c, expected);
                        let circuit = b.build().map_err(|e| format!("{e:?}"))?;
                        let (ad, pc, npc) =
                            get_airs_and_degrees_with_prep::<C, F, 1>(&circuit, &tp, &[], &[], ConstraintProfile::Standard)
                                .map_err(|e| format!("{e:?}"))?;
                        let (airs, degrees): (Vec<_>, Vec<usize>) = ad.into_iter().unzip();
                        let mut r = circuit.runner();
                        r.set_public_inputs(&[F::from_u32(constant)]).map_err(|e| format!("{e:?}"))?;
                        let traces = r.run().map_err(|e| format!("{e:?}"))?;
                        // as the example: the extended degree bits of the config the proof is committed under
                        let ext: Vec<usize> = degrees.iter().map(|&d| d + cfg.is_zk()).collect();
                        let pd = ProverData::from_airs_and_degrees(cfg, &airs, &ext);
                        let cpd = CircuitProverData::new(pd, pc, npc);
                        let prover = BatchStarkProver::new(cfg.clone()).with_table_packing(tp);
                        let proof = prover.prove_all_tables(&traces, &cpd).map_err(|e| format!("{e}"))?;
                        prover.verify_all_tables::<F>(&proof).map_err(|e| format!("base B0 does not verify: {e}"))?;
                        let n = proof.proof.opened_values.instances.len();
                        Ok(PObj::Batch { proof, tpi: vec![vec![]; n] })
                    }
                    _ => Err(format!("bad base name {name}")),
                }
            }

            pub fn call_l(env: &Env, cfg: &C, x: &PObj<C>, p: usize) -> CallRes<C> {
                let params = &env.params[p].1;
                with_inp!($cfg, x, |xi, A| {
                    quiet_catch(|| build_and_prove_next_layer::<C, A, _, D>(&xi, cfg, &env.backend, params))
                })
            }

            pub fn call_a(
                env: &Env,
                cfg: &C,
                x: &PObj<C>,
                y: &PObj<C>,
                p: usize,
                slot: Option<&mut Option<AggregationPrepCache<C>>>,
            ) -> CallRes<C> {
                let params = &env.params[p].1;
                with_inp!($cfg, x, |xi, A1| {
                    with_inp!($cfg, y, |yi, A2| {
                        quiet_catch(move || {
                            build_and_prove_aggregation_layer::<C, A1, A2, _, D>(&xi, &yi, cfg, &env.backend, params, slot)
                        })
                    })
                })
            }

            /// The oracle of `engine::judge`, under config `C`: native verification as the examples
            /// do after every layer, then the converted output must be accepted by the in-circuit
            /// verifier of a further layer. Returns the verdict, the output as plain data and the
            /// size counters of the further layer's verification circuit.
            pub fn judge(env: &Env, cfg: &C, p: usize, res: CallRes<C>) -> (Verdict, Option<PObj<C>>, String) {
                let out = match res {
                    Err(panic) => return (Verdict::Panic(panic), None, String::new()),
                    Ok(Err(e)) => return (Verdict::Err(format!("{e:?}")), None, String::new()),
                    Ok(Ok(o)) => o,
                };
                let verifier = || {
                    let mut v = BatchStarkProver::new(cfg.clone()).with_table_packing(env.params[p].1.table_packing.clone());
                    v.register_poseidon2_table::<D>(P2);
                    v.register_recompose_table::<D>(P2.d() != D);
                    v
                };
                match quiet_catch(|| verifier().verify_all_tables::<Challenge>(&out.0)) {
                    Err(panic) => return (Verdict::NonVerifying(format!("verifier panicked: {panic}")), None, String::new()),
                    Ok(Err(e)) => return (Verdict::NonVerifying(format!("{e}")), None, String::new()),
                    Ok(Ok(())) => {}
                }
                let chain = quiet_catch(|| -> Result<(Vec<Vec<F>>, String), String> {
                    let inp = out.into_recursion_input::<BatchOnly>();
                    let tpi = match &inp {
                        RecursionInput::BatchStark { table_public_inputs, .. } => table_public_inputs.clone(),
                        RecursionInput::UniStark { .. } => return Err("into_recursion_input returned a UniStark input".into()),
                    };
                    let (c, vr) = build_next_layer_circuit::<C, BatchOnly, _, D>(&inp, cfg, &env.backend)
                        .map_err(|e| format!("next circuit does not build: {e:?}"))?;
                    let pubs = VerifierCircuitResult::<C, BatchOnly>::pack_public_inputs(&vr, &inp)
                        .map_err(|e| format!("pack_public_inputs: {e:?}"))?;
                    let privs = VerifierCircuitResult::<C, BatchOnly>::pack_private_inputs(&vr, &inp)
                        .map_err(|e| format!("pack_private_inputs: {e:?}"))?;
                    let mut r = c.runner();
                    r.set_public_inputs(&pubs).map_err(|e| format!("set_public_inputs: {e:?}"))?;
                    r.set_private_inputs(&privs).map_err(|e| format!("set_private_inputs: {e:?}"))?;
                    PcsRecursionBackend::<C, BatchOnly, D>::set_private_data(
                        &env.backend,
                        cfg,
                        &mut r,
                        VerifierCircuitResult::<C, BatchOnly>::op_ids(&vr),
                        &inp,
                    )
                    .map_err(|e| format!("set_private_data: {e}"))?;
                    r.run().map_err(|e| format!("in-circuit verifier rejects: {e:?}"))?;
                    Ok((tpi, fp_str(&counters(&c))))
                });
                match chain {
                    Err(panic) => (Verdict::NotChainable(format!("panic: {panic}")), None, String::new()),
                    Ok(Err(e)) => (Verdict::NotChainable(e), None, String::new()),
                    Ok(Ok((tpi, cnt))) => {
                        let RecursionOutput(proof, cpd) = out;
                        drop(cpd);
                        (Verdict::Good, Some(PObj::Batch { proof, tpi }), cnt)
                    }
                }
            }
        }
    };
}

cfg_ops!(plain, Cfg);
cfg_ops!(zk, ZkCfg);

/// `Ax[In->Out](x, y, slot)`: the cross-config entry point.
macro_rules! cross_call {
    ($f:ident, $in:ty, $out:ty) => {
        pub fn $f(
            env: &Env,
            in_cfg: &$in,
            out_cfg: &$out,
            x: &PObj<$in>,
            y: &PObj<$in>,
            p: usize,
            slot: Option<&mut Option<AggregationPrepCache<$out>>>,
        ) -> CallRes<$out> {
            let params = &env.params[p].1;
            with_inp!($in, x, |xi, A1| {
                with_inp!($in, y, |yi, A2| {
                    quiet_catch(move || {
                        build_and_prove_aggregation_layer_cross::<$in, $out, A1, A2, _, D>(
                            &xi,
                            &yi,
                            in_cfg,
                            out_cfg,
                            &env.backend,
                            params,
                            slot,
                        )
                    })
                })
            })
        }
    };
}

cross_call!(x_zk_plain, ZkCfg, Cfg);
cross_call!(x_plain_zk, Cfg, ZkCfg);
cross_call!(x_zk_zk, ZkCfg, ZkCfg);
cross_call!(x_plain_plain, Cfg, Cfg);

// ---------------------------------------------------------------------------------------------
// enumeration

/// A child proof available under the input config: up to two value instances of one shape.
pub struct Child<SC: StarkGenericConfig> {
    pub label: String,
    pub level: usize,
    pub insts: Vec<PObj<SC>>,
}

#[derive(Clone, Debug)]
pub struct StepRes {
    /// `aggregation_cross:no_cache`, `aggregation_cross:empty_slot`, `aggregation_cross:same_circuit_cache`,
    /// `further_next_layer`, `further_aggregation`, `cross_back`, `child:next_layer`, `child:aggregation`
    pub kind: String,
    pub call: String,
    pub verdict: Verdict,
    pub secs: f64,
    /// counters of the verification circuit the next layer builds for the output
    pub next_counters: String,
    /// step 3 only: the slot still holds the prover data object of step 2 after the call
    pub reused: Option<bool>,
    /// an operand of the call is a uni-STARK proof made under the hiding config
    pub hiding_uni_input: bool,
}

#[derive(Clone, Debug)]
pub struct CaseSpec {
    pub dir: &'static str,
    pub x: String,
    pub y: String,
    pub p: usize,
    /// only step 1 (the uncached boundary call, judged incl. the in-circuit chain check): used by
    /// the quick tier for the expensive depth-2 pair into a hiding output; the thorough tier runs
    /// the full history of every pair
    pub lite: bool,
}

impl CaseSpec {
    pub fn label(&self) -> String {
        format!("{}:Ax[P{}]({}, {}){}", self.dir, self.p, self.x, self.y, if self.lite { " [step 1 only]" } else { "" })
    }
    pub fn to_json(&self) -> Value {
        json!({"dir": self.dir, "x": self.x, "y": self.y, "p": self.p, "lite": self.lite})
    }
}

pub struct CaseRes {
    pub spec: CaseSpec,
    pub size: usize,
    pub steps: Vec<StepRes>,
    /// verdict tags of steps 1/2/3 if they disagree on Good / not Good
    pub cached_mismatch: Option<String>,
    /// the budget ran out inside the history: its remaining steps were not executed
    pub truncated: bool,
}

fn seed_of(label: &str, seed: u64) -> u64 {
    fnv64(label.as_bytes()) ^ seed.wrapping_mul(0x9e3779b97f4a7c15)
}

/// Children under one config: the real same-config API produces the depth-1 ones, every call
/// judged (these are `L`/`A` transitions of C17 under that config).
macro_rules! children_fn {
    ($f:ident, $m:ident, $cfg:ty) => {
        pub fn $f(env: &Env, seed: u64, thorough: bool) -> Result<(Vec<Child<$cfg>>, Vec<StepRes>), String> {
            let tag = <$cfg as MkCfg>::TAG;
            let mut kids: Vec<Child<$cfg>> = vec![];
            for name in ["B0", "U0"] {
                let mut insts = vec![];
                for inst in 0..2 {
                    let cfg = <$cfg as MkCfg>::mk(&env.fri, seed_of(&format!("{tag}:{name}:{inst}"), seed));
                    let o = quiet_catch(|| $m::make_base(name, inst, &cfg, &env.fri))
                        .map_err(|p| format!("base {name} under the {tag} config panicked: {p}"))?
                        .map_err(|e| format!("base {name} under the {tag} config: {e}"))?;
                    insts.push(o);
                }
                kids.push(Child { label: name.to_string(), level: 0, insts });
            }
            // depth-1 children: (label, left, right) with right = None for `L`
            let mut plan: Vec<(&str, usize, Option<usize>)> = vec![("L(B0)", 0, None), ("A(B0,B0)", 0, Some(0))];
            if thorough {
                plan.push(("L(U0)", 1, None));
                plan.push(("A(U0,B0)", 1, Some(0)));
            }
            let n_inst = if thorough { 2 } else { 1 };
            let jobs: Vec<(usize, usize)> = (0..plan.len()).flat_map(|i| (0..n_inst).map(move |k| (i, k))).collect();
            let made: Vec<(usize, StepRes, Option<PObj<$cfg>>)> = jobs
                .par_iter()
                .with_max_len(1)
                .map(|&(i, k)| {
                    let (label, l, r) = plan[i];
                    let t0 = Instant::now();
                    let cfg = <$cfg as MkCfg>::mk(&env.fri, seed_of(&format!("{tag}:{label}:{k}"), seed));
                    let (kind, res) = match r {
                        None => ("child:next_layer", $m::call_l(env, &cfg, &kids[l].insts[k], 0)),
                        // two distinct leaves, in the other order for the second instance
                        Some(r) => (
                            "child:aggregation",
                            $m::call_a(env, &cfg, &kids[l].insts[k], &kids[r].insts[1 - k], 0, None),
                        ),
                    };
                    let (verdict, obj, cnt) = $m::judge(env, &cfg, 0, res);
                    (
                        i,
                        StepRes {
                            kind: kind.to_string(),
                            call: format!("{}[{tag}, P0] = {label} (value instance {k})", if r.is_none() { "L" } else { "A" }),
                            verdict,
                            secs: t0.elapsed().as_secs_f64(),
                            next_counters: cnt,
                            reused: None,
                            hiding_uni_input: tag == "zk" && (kids[l].label == "U0" || r.map(|r| kids[r].label == "U0").unwrap_or(false)),
                        },
                        obj,
                    )
                })
                .collect();
            let mut steps = vec![];
            let mut by_plan: Vec<Vec<PObj<$cfg>>> = (0..plan.len()).map(|_| vec![]).collect();
            for (i, s, o) in made {
                steps.push(s);
                if let Some(o) = o {
                    by_plan[i].push(o);
                }
            }
            for (i, insts) in by_plan.into_iter().enumerate() {
                // a child that could not be produced is reported through its step; pairs over it are skipped
                if !insts.is_empty() {
                    kids.push(Child { label: plan[i].0.to_string(), level: 1, insts });
                }
            }
            Ok((kids, steps))
        }
    };
}

children_fn!(children_plain, plain, Cfg);
children_fn!(children_zk, zk, ZkCfg);

/// One case = one history over the boundary `In -> Out` (see the module doc).
macro_rules! case_fn {
    ($f:ident, $in:ty, $out:ty, $om:ident, $im:ident, $fwd:ident, $back:ident) => {
        pub fn $f(
            env: &Env,
            seed: u64,
            spec: &CaseSpec,
            kids: &[Child<$in>],
            thorough: bool,
            oot: &(dyn Fn() -> bool + Sync),
        ) -> Result<CaseRes, String> {
            let truncated = std::sync::atomic::AtomicBool::new(false);
            // a slow machine shortens histories instead of overrunning the budget
            let late = || {
                let l = oot();
                if l {
                    truncated.store(true, std::sync::atomic::Ordering::Relaxed);
                }
                l
            };
            let find = |l: &str| kids.iter().find(|c| c.label == l).ok_or_else(|| format!("no child {l}"));
            let (cx, cy) = (find(&spec.x)?, find(&spec.y)?);
            let p = spec.p;
            let lab = spec.label();
            // operands: for a shape aggregated with itself two distinct proofs where two exist
            let pick = |c: &'_ Child<$in>, k: usize| -> usize { k % c.insts.len() };
            let (x0, y0) = (&cx.insts[pick(cx, 0)], &cy.insts[pick(cy, 1)]);
            let (x1, y1) = (&cx.insts[pick(cx, 1)], &cy.insts[pick(cy, 0)]);
            let (ti, to) = (<$in as MkCfg>::TAG, <$out as MkCfg>::TAG);
            let uni_in = ti == "zk" && (spec.x == "U0" || spec.y == "U0");
            let ax = format!("Ax[{ti}->{to}, P{p}]({}, {}", spec.x, spec.y);
            let step = |kind: &str, call: String, v: Verdict, t0: Instant, cnt: String, reused: Option<bool>| StepRes {
                kind: kind.to_string(),
                call,
                verdict: v,
                secs: t0.elapsed().as_secs_f64(),
                next_counters: cnt,
                reused,
                // only the boundary calls themselves take the children; later steps take outputs (batch proofs)
                hiding_uni_input: uni_in && kind.starts_with("aggregation_cross"),
            };
            // The uncached call (job A) and the slot history (job B) do not depend on each other and
            // run side by side; each job owns its config objects (the hiding config owns the blinding
            // RNG), so the values drawn do not depend on the interleaving.
            let cfgs = |job: &str| {
                (
                    <$in as MkCfg>::mk(&env.fri, seed_of(&format!("{lab}:{job}:in"), seed)),
                    <$out as MkCfg>::mk(&env.fri, seed_of(&format!("{lab}:{job}:out"), seed)),
                )
            };
            // the further step: a next layer over an output, under the output config, really proved
            let further_l = |out_cfg: &$out, o: &PObj<$out>, what: &str| -> StepRes {
                let t0 = Instant::now();
                let r = $om::call_l(env, out_cfg, o, p);
                let (v, _, cnt) = $om::judge(env, out_cfg, p, r);
                step("further_next_layer", format!("L[{to}, P{p}](output of {ax}; cache={what}))"), v, t0, cnt, None)
            };
            let job_a = || {
                let (in_cfg, out_cfg) = cfgs("a");
                let mut st = vec![];
                // 1. no cache
                let t0 = Instant::now();
                let r = $fwd(env, &in_cfg, &out_cfg, x0, y0, p, None);
                let (v_none, o_none, cnt) = $om::judge(env, &out_cfg, p, r);
                st.push(step("aggregation_cross:no_cache", format!("{ax}; cache=none)"), v_none.clone(), t0, cnt, None));
                // 4. the further step over the uncached output
                let mut st4 = vec![];
                if let (false, Some(o)) = (spec.lite, &o_none) {
                    if !late() {
                        st4.push(further_l(&out_cfg, o, "none"));
                    }
                }
                (st, st4, v_none, o_none)
            };
            let job_b = || {
                if spec.lite {
                    return (vec![], None, None, None);
                }
                let (in_cfg, out_cfg) = cfgs("b");
                let mut st = vec![];
                // 2. empty slot
                let t0 = Instant::now();
                let mut slot: Option<AggregationPrepCache<$out>> = None;
                let r = $fwd(env, &in_cfg, &out_cfg, x0, y0, p, Some(&mut slot));
                let (v_fill, o_fill, cnt) = $om::judge(env, &out_cfg, p, r);
                st.push(step("aggregation_cross:empty_slot", format!("{ax}; cache=empty slot)"), v_fill.clone(), t0, cnt, None));
                // 3. the slot step 2 filled, on the other value instances (same circuit: the shape decides it)
                let mut v_hit = None;
                let mut o_hit = None;
                if let Some(before) = slot.as_ref().map(|c| Rc::clone(&c.circuit_prover_data)).filter(|_| !late()) {
                    let t0 = Instant::now();
                    let r = $fwd(env, &in_cfg, &out_cfg, x1, y1, p, Some(&mut slot));
                    let ok = matches!(r, Ok(Ok(_)));
                    let reused = ok && slot.as_ref().map(|c| Rc::ptr_eq(&before, &c.circuit_prover_data)).unwrap_or(false);
                    drop(before);
                    let (v, o, cnt) = $om::judge(env, &out_cfg, p, r);
                    st.push(step(
                        "aggregation_cross:same_circuit_cache",
                        format!("{ax}; cache=slot filled by the same call)"),
                        v.clone(),
                        t0,
                        cnt,
                        Some(reused),
                    ));
                    v_hit = Some(v);
                    o_hit = o;
                }
                drop(slot);
                // 5. (thorough) the further step over the output made with the cached data
                if let (true, Some(o)) = (thorough, &o_hit) {
                    if !late() {
                        st.push(further_l(&out_cfg, o, "slot filled by the same call"));
                    }
                }
                (st, Some(v_fill), o_fill, v_hit)
            };
            let ((st1, st4, v_none, o_none), (st235, v_fill, o_fill, v_hit)) = vpcore::rayon::join(job_a, job_b);
            let mut steps: Vec<StepRes> = st1;
            steps.extend(st235);
            steps.extend(st4);
            let mut tags = vec![v_none.tag()];
            for v in [&v_fill, &v_hit].into_iter().flatten() {
                tags.push(v.tag());
            }
            let cached_mismatch = if tags.iter().any(|t| (*t == "ok_verifies_chains") != (tags[0] == "ok_verifies_chains")) {
                Some(tags.join("_vs_"))
            } else {
                None
            };
            if thorough && !late() {
                if let (Some(a), Some(b)) = (&o_none, &o_fill) {
                    let (in_cfg, out_cfg) = cfgs("c");
                    let (s6, s7) = vpcore::rayon::join(
                        || {
                            // 6. further aggregation under the output config (plain entry point)
                            let t0 = Instant::now();
                            let r = $om::call_a(env, &out_cfg, a, b, p, None);
                            let (v, _, cnt) = $om::judge(env, &out_cfg, p, r);
                            step("further_aggregation", format!("A[{to}, P{p}](o, o') over two outputs of {ax})"), v, t0, cnt, None)
                        },
                        || {
                            // 7. back over the boundary (own config objects: runs beside step 6)
                            let (in_cfg, out_cfg) = cfgs("d");
                            let t0 = Instant::now();
                            let r = $back(env, &out_cfg, &in_cfg, a, b, p, None);
                            let (v, _, cnt) = $im::judge(env, &in_cfg, p, r);
                            step("cross_back", format!("Ax[{to}->{ti}, P{p}](o, o'; cache=none) over two outputs of {ax})"), v, t0, cnt, None)
                        },
                    );
                    let _ = &in_cfg;
                    steps.push(s6);
                    steps.push(s7);
                }
            }
            let size = 2 * (cx.level + cy.level) + p;
            let truncated = truncated.load(std::sync::atomic::Ordering::Relaxed);
            Ok(CaseRes { spec: spec.clone(), size, steps, cached_mismatch, truncated })
        }
    };
}

case_fn!(case_zk_plain, ZkCfg, Cfg, plain, zk, x_zk_plain, x_plain_zk);
case_fn!(case_plain_zk, Cfg, ZkCfg, zk, plain, x_plain_zk, x_zk_plain);
case_fn!(case_zk_zk, ZkCfg, ZkCfg, zk, zk, x_zk_zk, x_zk_zk);
case_fn!(case_plain_plain, Cfg, Cfg, plain, plain, x_plain_plain, x_plain_plain);

pub const DIRS: [&str; 4] = ["zk_to_plain", "plain_to_zk", "zk_to_zk", "plain_to_plain"];

/// The cases of a tier. `quick`: hiding->plain over 4 ordered pairs and plain->hiding over 3, both
/// reaching depth 2 (the depth-2 pair into a hiding output with step 1 only: a hiding layer proof
/// costs 4-7 s), and the hiding->hiding control on the base pair, params P0. `thorough`: all ordered pairs of the six
/// children, the three directions with a hiding side under P0 (and the diagonal under P1), and
/// the plain->plain control on the diagonal.
pub fn cases(thorough: bool) -> Vec<CaseSpec> {
    let mut v = vec![];
    let mk = |dir: &'static str, x: &str, y: &str, p: usize| CaseSpec { dir, x: x.to_string(), y: y.to_string(), p, lite: false };
    if !thorough {
        for (x, y) in [("B0", "B0"), ("U0", "B0"), ("A(B0,B0)", "A(B0,B0)"), ("L(B0)", "A(B0,B0)")] {
            v.push(mk("zk_to_plain", x, y, 0));
        }
        for (x, y) in [("B0", "B0"), ("U0", "B0")] {
            v.push(mk("plain_to_zk", x, y, 0));
        }
        v.push(CaseSpec { lite: true, ..mk("plain_to_zk", "A(B0,B0)", "L(B0)", 0) });
        v.push(mk("zk_to_zk", "B0", "B0", 0));
    } else {
        let kids = ["B0", "U0", "L(B0)", "A(B0,B0)", "L(U0)", "A(U0,B0)"];
        for dir in ["zk_to_plain", "plain_to_zk", "zk_to_zk"] {
            for x in kids {
                for y in kids {
                    v.push(mk(dir, x, y, 0));
                }
            }
            for x in kids {
                v.push(mk(dir, x, x, 1));
            }
        }
        for x in kids {
            v.push(mk("plain_to_plain", x, x, 0));
        }
    }
    v
}

pub struct BoundaryRun {
    pub child_steps: Vec<(&'static str, StepRes)>,
    pub cases: Vec<CaseRes>,
    pub skipped_for_budget: usize,
    pub wall_s: f64,
}

/// Runs the children production and the given cases (in parallel, one case per worker).
pub fn run(env: &Env, seed: u64, specs: &[CaseSpec], thorough: bool, out_of_time: &(dyn Fn() -> bool + Sync)) -> Result<BoundaryRun, String> {
    let t0 = Instant::now();
    let need_plain = specs.iter().any(|s| s.dir.starts_with("plain"));
    let need_zk = specs.iter().any(|s| s.dir.starts_with("zk"));
    let (kp, kz) = vpcore::rayon::join(
        || if need_plain { children_plain(env, seed, thorough).map(Some) } else { Ok(None) },
        || if need_zk { children_zk(env, seed, thorough).map(Some) } else { Ok(None) },
    );
    let (kp, kz) = (kp?, kz?);
    let mut child_steps = vec![];
    let (kids_p, kids_z) = (
        kp.map(|(k, s)| {
            child_steps.extend(s.into_iter().map(|s| ("plain", s)));
            k
        })
        .unwrap_or_default(),
        kz.map(|(k, s)| {
            child_steps.extend(s.into_iter().map(|s| ("zk", s)));
            k
        })
        .unwrap_or_default(),
    );
    // short histories first: under a budget cut they are the ones kept (as in the BFS)
    let mut order: Vec<usize> = (0..specs.len()).collect();
    let depth = |s: &CaseSpec| s.x.matches('(').count() + s.y.matches('(').count() + s.p;
    order.sort_by_key(|&i| depth(&specs[i]));
    let results: Vec<(usize, Option<Result<CaseRes, String>>)> = order
        .par_iter()
        .with_max_len(1)
        .map(|&i| {
            if out_of_time() {
                return (i, None);
            }
            let s = &specs[i];
            let has = |l: &str| match s.dir {
                "zk_to_plain" | "zk_to_zk" => kids_z.iter().any(|c| c.label == l),
                _ => kids_p.iter().any(|c| c.label == l),
            };
            if !has(&s.x) || !has(&s.y) {
                // a child could not be produced: already reported through its own step
                return (i, Some(Ok(CaseRes { spec: s.clone(), size: 0, steps: vec![], cached_mismatch: None, truncated: false })));
            }
            let r = match s.dir {
                "zk_to_plain" => case_zk_plain(env, seed, s, &kids_z, thorough, out_of_time),
                "plain_to_zk" => case_plain_zk(env, seed, s, &kids_p, thorough, out_of_time),
                "zk_to_zk" => case_zk_zk(env, seed, s, &kids_z, thorough, out_of_time),
                "plain_to_plain" => case_plain_plain(env, seed, s, &kids_p, thorough, out_of_time),
                d => Err(format!("bad direction {d}")),
            };
            (i, Some(r))
        })
        .collect();
    let mut by_idx: Vec<Option<Result<CaseRes, String>>> = (0..specs.len()).map(|_| None).collect();
    for (i, r) in results {
        by_idx[i] = r;
    }
    let mut cases = vec![];
    let mut skipped = 0;
    for r in by_idx {
        match r {
            None => skipped += 1,
            Some(r) => {
                let c = r?;
                if c.truncated {
                    skipped += 1;
                }
                cases.push(c);
            }
        }
    }
    Ok(BoundaryRun { child_steps, cases, skipped_for_budget: skipped, wall_s: t0.elapsed().as_secs_f64() })
}

// ---------------------------------------------------------------------------------------------
// oracle clauses and evidence

fn sym(v: &Verdict) -> Option<&'static str> {
    match v {
        Verdict::Good => None,
        Verdict::Err(_) => Some("err"),
        Verdict::Panic(_) => Some("panic"),
        Verdict::NonVerifying(_) => Some("non_verifying"),
        Verdict::NotChainable(_) => Some("not_chainable"),
    }
}

fn describe(v: &Verdict) -> &'static str {
    match v {
        Verdict::Good => "Ok, verifies, chains",
        Verdict::Err(_) => "Err",
        Verdict::Panic(_) => "panic",
        Verdict::NonVerifying(_) => "Ok, but the proof does not verify under the output config",
        Verdict::NotChainable(_) => "Ok and verifies, but is not a valid input for a further layer",
    }
}

/// (size, key, what, replay) of every broken clause. No cache handed to any of these calls is
/// foreign (the slot of step 3 was filled by the identical call), so every step has to be `Good`.
pub fn clauses(run: &BoundaryRun) -> Vec<(usize, String, String, Value)> {
    let mut out = vec![];
    // One root cause, one key: any call of the unified API over a uni-STARK proof made under the
    // hiding config is refused by the in-circuit verifier run (C01 finding `...uni/hiding_fri...
    // native_accept_circuit_reject`); every other outcome of such a call keeps its own key.
    let key_of = |scope: &str, s: &StepRes, sy: &str| -> String {
        if s.hiding_uni_input && matches!(&s.verdict, Verdict::Err(e) if e.starts_with("Circuit(WitnessConflict")) {
            "config_boundary:hiding_uni_stark_input:in_circuit_verifier_rejects".to_string()
        } else {
            format!("config_boundary:{scope}:{}:{sy}", s.kind)
        }
    };
    for (tag, s) in &run.child_steps {
        if let Some(sy) = sym(&s.verdict) {
            out.push((
                0,
                key_of(&format!("{tag}_config"), s, sy),
                format!("{} -> {}: {}", s.call, describe(&s.verdict), s.verdict.detail().chars().take(200).collect::<String>()),
                json!({"boundary": {"children": tag}}),
            ));
        }
    }
    for c in &run.cases {
        for s in &c.steps {
            if let Some(sy) = sym(&s.verdict) {
                out.push((
                    c.size,
                    key_of(c.spec.dir, s, sy),
                    format!(
                        "{} -> {}: {} [history of the case: {}]",
                        s.call,
                        describe(&s.verdict),
                        s.verdict.detail().chars().take(200).collect::<String>(),
                        c.steps.iter().map(|s| format!("{}={}", s.kind, s.verdict.tag())).collect::<Vec<_>>().join(" ; ")
                    ),
                    json!({"boundary": c.spec.to_json()}),
                ));
            }
        }
        if let Some(m) = &c.cached_mismatch {
            out.push((
                c.size,
                format!("config_boundary:{}:cached_vs_uncached:{m}", c.spec.dir),
                format!("{}: verdicts with cache none / empty slot / filled slot: {m}", c.spec.label()),
                json!({"boundary": c.spec.to_json()}),
            ));
        }
    }
    out.sort_by(|a, b| (a.0, &a.1, &a.2).cmp(&(b.0, &b.1, &b.2)));
    out
}

pub struct BoundaryCounts {
    pub transitions: u64,
    pub states: u64,
    pub compared: u64,
}

pub fn evidence(run: &BoundaryRun, specs: &[CaseSpec], thorough: bool) -> (Value, BoundaryCounts) {
    use std::collections::BTreeMap;
    let mut histo: BTreeMap<String, u64> = BTreeMap::new();
    let mut per_dir: BTreeMap<String, (u64, u64)> = BTreeMap::new();
    let mut transitions = 0u64;
    let mut compared = 0u64;
    let mut reused = (0u64, 0u64);
    let mut cpu = 0.0;
    let mut next_counters: BTreeMap<String, std::collections::BTreeSet<String>> = BTreeMap::new();
    for (tag, s) in &run.child_steps {
        *histo.entry(format!("{tag}_config:{} -> {}", s.kind, s.verdict.tag())).or_default() += 1;
        transitions += 1;
        cpu += s.secs;
    }
    let mut samples = vec![];
    for c in run.cases.iter().filter(|c| !c.steps.is_empty()) {
        let e = per_dir.entry(c.spec.dir.to_string()).or_default();
        e.0 += 1;
        e.1 += c.steps.len() as u64;
        let n_agg = c.steps.iter().filter(|s| s.kind.starts_with("aggregation_cross")).count() as u64;
        compared += n_agg.saturating_sub(1);
        for s in &c.steps {
            *histo.entry(format!("{}:{} -> {}", c.spec.dir, s.kind, s.verdict.tag())).or_default() += 1;
            transitions += 1;
            cpu += s.secs;
            if let Some(r) = s.reused {
                reused.1 += 1;
                if r {
                    reused.0 += 1;
                }
            }
            if !s.next_counters.is_empty() {
                next_counters.entry(c.spec.dir.to_string()).or_default().insert(s.next_counters.clone());
            }
        }
        let first_of_dir = per_dir[c.spec.dir].0 == 1;
        if first_of_dir || (c.size >= 4 && samples.len() < 8) {
            samples.push(json!({
                "case": c.spec.label(),
                "history": c.steps.iter().map(|s| json!({"call": s.call, "verdict": s.verdict.tag(),
                    "detail": s.verdict.detail().chars().take(120).collect::<String>(),
                    "slot_data_reused": s.reused, "next_layer_circuit_counters": s.next_counters,
                    "secs": (s.secs * 1000.0).round() / 1000.0})).collect::<Vec<_>>(),
            }));
        }
    }
    // observations (not verdicts): is a ZK/non-ZK combination refused by the API?
    let mut observations: Vec<String> = vec![];
    for dir in DIRS {
        let calls: Vec<&StepRes> = run
            .cases
            .iter()
            .filter(|c| c.spec.dir == dir)
            .flat_map(|c| c.steps.iter())
            .filter(|s| s.kind.starts_with("aggregation_cross") && !s.hiding_uni_input)
            .collect();
        if !calls.is_empty() {
            let good = calls.iter().filter(|s| s.verdict == Verdict::Good).count();
            observations.push(format!(
                "{dir}: the cross entry point type-checks for this pair of configs and returned a verifying, chainable proof in {good}/{} calls over batch-STARK / plain uni-STARK children (no refusal by design)",
                calls.len()
            ));
        }
    }
    let uni: Vec<&StepRes> = run
        .child_steps
        .iter()
        .map(|(_, s)| s)
        .chain(run.cases.iter().flat_map(|c| c.steps.iter()))
        .filter(|s| s.hiding_uni_input)
        .collect();
    if !uni.is_empty() {
        observations.push(format!(
            "calls over a uni-STARK proof made under the hiding config: {} executed, {} returned Err (the in-circuit uni-STARK verifier does not accept hiding-PCS proofs: known finding, root cause recorded under C01); children that could not be produced for this reason are absent from the pairs",
            uni.len(),
            uni.iter().filter(|s| matches!(s.verdict, Verdict::Err(_))).count()
        ));
    }
    // states: one initial state per config with children (bases only) + one per executed step
    // (every step adds a proof and/or changes the slot of its history)
    let inits = run.child_steps.iter().map(|(t, _)| *t).collect::<std::collections::BTreeSet<_>>().len() as u64
        + per_dir.len() as u64;
    let states = inits + transitions;
    let v = json!({
        "what": "cross aggregation entry point with input/output configs of different ZK-ness (hiding <-> plain), plus the hiding->hiding control; children = base proofs and depth-1 L/A outputs proved under the input config; per case: Ax(none) ; Ax(empty slot) ; Ax(filled slot) ; L[out](uncached output) (+ thorough: L[out](output made with the cached data), A[out](o,o'), Ax[out->in](o,o') back over the boundary)",
        "tier_alphabet": if thorough {
            "children {B0,U0,L(B0),A(B0,B0),L(U0),A(U0,B0)}; all 36 ordered pairs x {zk->plain, plain->zk, zk->zk} under P0, the 6 diagonal pairs under P1, plain->plain control on the diagonal; 7 steps per case"
        } else {
            "children {B0,U0,L(B0),A(B0,B0)}; zk->plain: (B0,B0),(U0,B0),(A,A),(L,A); plain->zk: (B0,B0),(U0,B0),(A,L)[step 1 only]; zk->zk: (B0,B0); params P0; 4 steps per case"
        },
        "cases_planned": specs.len(),
        "cases_executed": run.cases.iter().filter(|c| !c.steps.is_empty()).count(),
        "cases_skipped_or_truncated_for_budget": run.skipped_for_budget,
        "cases_over_a_child_that_could_not_be_produced": run.cases.iter().filter(|c| c.steps.is_empty()).count(),
        "cases_per_direction": per_dir.iter().map(|(k, v)| (k.clone(), json!({"cases": v.0, "steps": v.1}))).collect::<serde_json::Map<_, _>>(),
        "children_production_steps": run.child_steps.len(),
        "transitions": transitions,
        "states": states,
        "state_count_rule": "one initial state per input config / direction + one per executed step (each step adds a proof to, or changes the slot of, its history)",
        "verdicts_by_direction_and_step": histo,
        "filled_slot_calls_reusing_cached_data": format!("{}/{}", reused.0, reused.1),
        "cached_vs_uncached_pairs_compared": compared,
        "distinct_next_layer_circuit_counters_of_outputs": next_counters.iter().map(|(k, v)| (k.clone(), json!(v.len()))).collect::<serde_json::Map<_, _>>(),
        "observations": observations,
        "cpu_s_in_calls": (cpu * 10.0).round() / 10.0,
        "wall_s": (run.wall_s * 10.0).round() / 10.0,
        "samples": samples,
    });
    (v, BoundaryCounts { transitions, states, compared })
}
