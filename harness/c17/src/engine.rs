//! Execution of one API call ("transition class") on the real `p3_recursion::recursion`
//! functions, and its judgement.
//!
//! Everything here runs on one worker thread per call: the cache objects of the API hold
//! `Rc`s, so a cache is *materialised on the thread that uses it* by replaying the real API
//! call that produced it (`build_next_layer_prep` for the circuit it is said to be prepared
//! for; `build_and_prove_aggregation_layer(.., Some(&mut None))` for the pair that filled the
//! slot). Proofs are plain data and shared between threads.

use std::rc::Rc;
use std::sync::Arc;
use std::time::Instant;

use p3_circuit::{Circuit, CircuitBuilder};
use p3_circuit_prover::{BatchStarkProver, ConstraintProfile, TablePacking};
use p3_recursion::verifier::VerificationError;
use p3_recursion::{
    AggregationCircuitFingerprint, AggregationPrepCache, BatchOnly, NextLayerPrepCache,
    PcsRecursionBackend, ProveNextLayerParams, RecursionInput, RecursionOutput,
    VerifierCircuitResult, build_and_prove_aggregation_layer,
    build_and_prove_aggregation_layer_cross, build_and_prove_next_layer, build_next_layer_circuit,
    build_next_layer_prep, prove_next_layer,
};
use vpcore::quiet_catch;

use crate::glue::*;
use crate::objs::ProofObj;
use crate::with_input;

pub struct Env {
    pub cfg: Cfg,
    pub backend: Backend,
    /// Poseidon2 table configs OTHER than the challenger's that the backend variant adds to a layer
    /// proof; the native verifier registers them after the challenger table, as the examples do
    /// (`verifier.register_poseidon2_table::<D>(cfg); ..(cfg_arity4)`). Empty for the plain backend
    /// and for the variants documented to be indistinguishable from it.
    pub verifier_extra: Vec<p3_recursion::Poseidon2Config>,
    pub fri: FriParams,
    pub params: Vec<(String, ProveNextLayerParams)>,
}

/// The `ProveNextLayerParams` alphabet of action `P`: what the examples vary between layers
/// (lane counts, Horner packing) plus the other constraint profile the struct offers.
pub fn params_alphabet(fri: &FriParams, n: usize) -> Vec<(String, ProveNextLayerParams)> {
    let tp = |t: TablePacking| t.with_fri_params(fri.log_final_poly_len, fri.log_blowup);
    let all = vec![
        (
            "P0=lanes(1,3),horner4,Standard".to_string(),
            ProveNextLayerParams {
                table_packing: tp(TablePacking::new(1, 3).with_horner_pack_k(4)),
                constraint_profile: ConstraintProfile::Standard,
            },
        ),
        (
            "P1=lanes(2,2),horner2,Standard".to_string(),
            ProveNextLayerParams {
                table_packing: tp(TablePacking::new(2, 2)),
                constraint_profile: ConstraintProfile::Standard,
            },
        ),
        (
            "P2=lanes(1,3),horner4,RecursionOptimized".to_string(),
            ProveNextLayerParams {
                table_packing: tp(TablePacking::new(1, 3).with_horner_pack_k(4)),
                constraint_profile: ConstraintProfile::RecursionOptimized,
            },
        ),
    ];
    all.into_iter().take(n).collect()
}

pub fn fnv64(bytes: &[u8]) -> u64 {
    let mut h: u64 = 0xcbf29ce484222325;
    for b in bytes {
        h ^= *b as u64;
        h = h.wrapping_mul(0x100000001b3);
    }
    h
}

/// Size counters of a circuit — exactly the fields of `AggregationCircuitFingerprint`.
pub fn counters(c: &Circuit<Challenge>) -> AggregationCircuitFingerprint {
    AggregationCircuitFingerprint {
        witness_count: c.witness_count,
        public_flat_len: c.public_flat_len,
        private_flat_len: c.private_flat_len,
        ops_len: c.ops.len(),
    }
}

/// Identity of a compiled circuit: its whole op list (operands, constants, executors), the
/// public/private input rows and the counters. Two circuits with the same digest have the
/// same preprocessed columns (those are a function of the op list).
pub fn circuit_digest(c: &Circuit<Challenge>) -> u64 {
    let s = format!(
        "{:?}|{:?}|{:?}|{}|{}|{}",
        c.ops, c.public_rows, c.private_input_rows, c.witness_count, c.public_flat_len, c.private_flat_len
    );
    fnv64(s.as_bytes())
}

pub fn fp_str(f: &AggregationCircuitFingerprint) -> String {
    format!("w{}/pub{}/priv{}/ops{}", f.witness_count, f.public_flat_len, f.private_flat_len, f.ops_len)
}

/// (counters, digest) of the verification circuit `L` builds for a proof.
pub fn l_circuit_id(env: &Env, obj: &ProofObj) -> Result<(AggregationCircuitFingerprint, u64), String> {
    with_input!(obj, |inp, A| {
        let (c, _) = build_next_layer_circuit::<Cfg, A, _, D>(&inp, &env.cfg, &env.backend)
            .map_err(|e| format!("{e:?}"))?;
        Ok((counters(&c), circuit_digest(&c)))
    })
}

/// Harness-side replica of the (private) `build_aggregation_layer_circuit`, through the
/// public backend trait, used ONLY to classify a call (which circuit is this? was the slot
/// prepared for the same one?) — never as a verdict. It is validated against the
/// implementation on every slot fill: the counters must equal the fingerprint the real call
/// stored in the slot.
pub fn a_circuit_id(
    env: &Env,
    l: &ProofObj,
    r: &ProofObj,
) -> Result<(AggregationCircuitFingerprint, u64), String> {
    with_input!(l, |li, A1| {
        with_input!(r, |ri, A2| {
            let mut b = CircuitBuilder::<Challenge>::new();
            let e = |e: VerificationError| format!("{e:?}");
            PcsRecursionBackend::<Cfg, A1, D>::prepare_circuit(&env.backend, &env.cfg, &mut b).map_err(e)?;
            PcsRecursionBackend::<Cfg, A2, D>::prepare_circuit(&env.backend, &env.cfg, &mut b).map_err(e)?;
            PcsRecursionBackend::<Cfg, A1, D>::build_verifier_circuit(&env.backend, &li, &env.cfg, &mut b)
                .map_err(e)?;
            PcsRecursionBackend::<Cfg, A2, D>::build_verifier_circuit(&env.backend, &ri, &env.cfg, &mut b)
                .map_err(e)?;
            let c = b.build().map_err(|e| format!("{e:?}"))?;
            Ok((counters(&c), circuit_digest(&c)))
        })
    })
}

/// The native verifier of a layer proof, set up the way the examples do after each layer.
fn layer_verifier(env: &Env, p: usize) -> BatchStarkProver<Cfg> {
    let mut v = BatchStarkProver::new(env.cfg.clone()).with_table_packing(env.params[p].1.table_packing.clone());
    v.register_poseidon2_table::<D>(P2);
    for e in &env.verifier_extra {
        v.register_poseidon2_table::<D>(*e);
    }
    v.register_recompose_table::<D>(P2.d() != D);
    v
}

#[derive(Clone, Debug, PartialEq, Eq)]
pub enum Verdict {
    /// `Ok`, verifies natively, accepted by the next layer's in-circuit verifier
    Good,
    /// `Ok` but `verify_all_tables` rejects the output
    NonVerifying(String),
    /// `Ok`, verifies, but the converted output is not accepted by a further layer
    NotChainable(String),
    /// the call returned `Err`
    Err(String),
    /// the call panicked
    Panic(String),
}

impl Verdict {
    pub fn tag(&self) -> &'static str {
        match self {
            Verdict::Good => "ok_verifies_chains",
            Verdict::NonVerifying(_) => "ok_but_non_verifying",
            Verdict::NotChainable(_) => "ok_verifies_but_not_chainable",
            Verdict::Err(_) => "err",
            Verdict::Panic(_) => "panic",
        }
    }
    pub fn detail(&self) -> String {
        match self {
            Verdict::Good => String::new(),
            Verdict::NonVerifying(s) | Verdict::NotChainable(s) | Verdict::Err(s) | Verdict::Panic(s) => s.clone(),
        }
    }
}

/// What the harness knows about the cache handed to a call.
#[derive(Clone, Debug, Default)]
pub struct CacheFacts {
    /// a cache object was passed and it was non-empty
    pub given: bool,
    /// the circuit the cache was prepared for is the circuit of this call (digest equality)
    pub same_circuit: bool,
    /// the params the cache was prepared under are the params of this call
    pub same_params: bool,
    /// aggregation only: size counters of the two circuits are equal
    pub fp_equal: bool,
    /// aggregation only: after the call the slot still holds the same prover data object
    /// (`Rc::ptr_eq`), i.e. the implementation used the cached data instead of recomputing
    pub reused: bool,
    /// aggregation only: the slot holds data after the call
    pub slot_filled_after: bool,
    pub fp_now: String,
    pub fp_cache: String,
    /// aggregation only: the call replaced the content of a NON-EMPTY slot, and the fingerprint
    /// now stored is not the one of the circuit whose data the slot holds (on a first fill the
    /// same comparison validates the harness replica instead)
    pub stale_fp_after_refill: Option<String>,
    /// `L-reuse` only: the child the circuit was built for and the child proved over carry
    /// different preprocessed commitments (batch children; `None` for uni-STARK children)
    pub reuse_commitments_differ: Option<bool>,
}

pub struct Outcome {
    pub verdict: Verdict,
    pub facts: CacheFacts,
    /// the verifying output, its kind tag and the (counters, digest) of its `L` circuit
    pub output: Option<(ProofObj, String, AggregationCircuitFingerprint, u64)>,
    pub secs: f64,
}

/// Oracle on the result of an `L`/`A` call.
fn judge(
    env: &Env,
    p: usize,
    res: Result<Result<RecursionOutput<Cfg>, VerificationError>, String>,
) -> (Verdict, Option<(ProofObj, String, AggregationCircuitFingerprint, u64)>) {
    let out = match res {
        Err(panic) => return (Verdict::Panic(panic), None),
        Ok(Err(e)) => return (Verdict::Err(format!("{e:?}")), None),
        Ok(Ok(o)) => o,
    };
    // (1) native verification, as the examples do after every layer
    match quiet_catch(|| layer_verifier(env, p).verify_all_tables::<Challenge>(&out.0)) {
        Err(panic) => return (Verdict::NonVerifying(format!("verifier panicked: {panic}")), None),
        Ok(Err(e)) => return (Verdict::NonVerifying(format!("{e}")), None),
        Ok(Ok(())) => {}
    }
    // (2) the converted output is accepted by a further layer: the next verification circuit
    // builds and its in-circuit verifier accepts the proof (the proving of that next layer is
    // the `L` transition of the next BFS level).
    let chain = quiet_catch(|| -> Result<(Vec<Vec<F>>, AggregationCircuitFingerprint, u64), String> {
        let inp = out.into_recursion_input::<BatchOnly>();
        let (tpi, aliases) = match &inp {
            RecursionInput::BatchStark { proof, common_data, table_public_inputs } => (
                table_public_inputs.clone(),
                std::ptr::eq(*proof, &out.0) && std::ptr::eq(*common_data, &out.0.stark_common),
            ),
            RecursionInput::UniStark { .. } => return Err("into_recursion_input returned a UniStark input".into()),
        };
        let (c, vr) = build_next_layer_circuit::<Cfg, BatchOnly, _, D>(&inp, &env.cfg, &env.backend)
            .map_err(|e| format!("next circuit does not build: {e:?}"))?;
        let pubs = VerifierCircuitResult::<Cfg, BatchOnly>::pack_public_inputs(&vr, &inp)
            .map_err(|e| format!("pack_public_inputs: {e:?}"))?;
        let privs = VerifierCircuitResult::<Cfg, BatchOnly>::pack_private_inputs(&vr, &inp)
            .map_err(|e| format!("pack_private_inputs: {e:?}"))?;
        let mut r = c.runner();
        r.set_public_inputs(&pubs).map_err(|e| format!("set_public_inputs: {e:?}"))?;
        r.set_private_inputs(&privs).map_err(|e| format!("set_private_inputs: {e:?}"))?;
        PcsRecursionBackend::<Cfg, BatchOnly, D>::set_private_data(
            &env.backend,
            &env.cfg,
            &mut r,
            VerifierCircuitResult::<Cfg, BatchOnly>::op_ids(&vr),
            &inp,
        )
        .map_err(|e| format!("set_private_data: {e}"))?;
        r.run().map_err(|e| format!("in-circuit verifier rejects: {e:?}"))?;
        if !aliases {
            // The harness re-creates the input of later calls from the stored proof
            // (`proof`, `&proof.stark_common`, the returned `table_public_inputs`); that is
            // faithful while `into_recursion_input` hands out those references, or common data
            // with the same content (commitment, per-instance metadata, lookup counts). Common
            // data of ANOTHER content are a defect of the conversion, not of the harness: the
            // child can then not be chained the way a user of the API would chain it.
            let digest = |cd: &p3_batch_stark::CommonData<Cfg>| -> String {
                match &cd.preprocessed {
                    None => format!("none|{}", cd.lookups.len()),
                    Some(g) => format!(
                        "{}|{:?}|{:?}|{}",
                        vpcore::serde_json::to_string(&g.commitment).unwrap_or_default(),
                        g.instances.iter().map(|m| m.as_ref().map(|m| (m.matrix_index, m.width, m.degree_bits))).collect::<Vec<_>>(),
                        g.matrix_to_instance,
                        cd.lookups.len()
                    ),
                }
            };
            if let RecursionInput::BatchStark { common_data, .. } = &inp {
                let (a, b) = (digest(common_data), digest(&out.0.stark_common));
                if a != b {
                    return Err(format!(
                        "into_recursion_input hands out common data that are not the proof's own stark_common: {} vs {}",
                        &a[a.len().saturating_sub(120)..],
                        &b[b.len().saturating_sub(120)..]
                    ));
                }
            }
        }
        Ok((tpi, counters(&c), circuit_digest(&c)))
    });
    match chain {
        Err(panic) => (Verdict::NotChainable(format!("panic: {panic}")), None),
        Ok(Err(e)) => (Verdict::NotChainable(e), None),
        Ok(Ok((tpi, cnt, dig))) => {
            let RecursionOutput(proof, cpd) = out;
            drop(cpd);
            let obj = ProofObj::Batch { proof, tpi };
            let tag = obj.kind_tag();
            (Verdict::Good, Some((obj, tag, cnt, dig)))
        }
    }
}

/// `L(x, cache)`: next layer over `x` under params `p`.
/// `cache = Some((y, q))`: a `NextLayerPrepCache` built by the real
/// `build_next_layer_prep` for the verification circuit of proof `y` under params `q`
/// (`y` may be another proof than `x`, of the same or of another shape).
pub fn exec_l(env: &Env, x: &ProofObj, cache: Option<(&ProofObj, usize)>, p: usize) -> Result<Outcome, String> {
    let t0 = Instant::now();
    let params = &env.params[p].1;
    let mut facts = CacheFacts::default();
    // materialise the cache
    let prep: Option<NextLayerPrepCache<Cfg>> = match cache {
        None => None,
        Some((y, q)) => {
            let built = with_input!(y, |yi, A| {
                quiet_catch(|| -> Result<_, VerificationError> {
                    let (c, _) = build_next_layer_circuit::<Cfg, A, _, D>(&yi, &env.cfg, &env.backend)?;
                    let prep = build_next_layer_prep::<Cfg, A, _, D>(&c, &env.cfg, &env.backend, &env.params[q].1)?;
                    Ok((prep, counters(&c), circuit_digest(&c)))
                })
            });
            let (prep, cnt_y, dig_y) = match built {
                Err(panic) => {
                    return Ok(Outcome {
                        verdict: Verdict::Panic(format!("build_next_layer_prep: {panic}")),
                        facts,
                        output: None,
                        secs: t0.elapsed().as_secs_f64(),
                    });
                }
                Ok(Err(e)) => {
                    return Ok(Outcome {
                        verdict: Verdict::Err(format!("build_next_layer_prep: {e:?}")),
                        facts,
                        output: None,
                        secs: t0.elapsed().as_secs_f64(),
                    });
                }
                Ok(Ok(v)) => v,
            };
            let (cnt_x, dig_x) = l_circuit_id(env, x)?;
            facts.given = true;
            facts.same_circuit = dig_x == dig_y;
            facts.same_params = p == q;
            facts.fp_equal = cnt_x == cnt_y;
            facts.fp_now = fp_str(&cnt_x);
            facts.fp_cache = fp_str(&cnt_y);
            Some(prep)
        }
    };
    let res = with_input!(x, |xi, A| {
        quiet_catch(|| match &prep {
            // uncached: the convenience wrapper (build circuit + prove_next_layer(.., None))
            None => build_and_prove_next_layer::<Cfg, A, _, D>(&xi, &env.cfg, &env.backend, params),
            Some(prep) => {
                let (c, vr) = build_next_layer_circuit::<Cfg, A, _, D>(&xi, &env.cfg, &env.backend)?;
                prove_next_layer::<Cfg, A, _, D>(&xi, &c, &vr, &env.cfg, &env.backend, params, Some(prep))
            }
        })
    });
    let (verdict, output) = judge(env, p, res);
    drop(prep);
    Ok(Outcome { verdict, facts, output, secs: t0.elapsed().as_secs_f64() })
}

/// `L-reuse(a -> b)`: the verification circuit, its `verifier_result` and the
/// `NextLayerPrepCache` are built ONCE from child `a` (the offline step of a prover service) and
/// used unchanged in `prove_next_layer` over child `b`. `a` and `b` have one shape id, so the
/// circuit built for `b` is the same circuit (digest compared again here and recorded in
/// `facts.same_circuit`); everything that differs between the children - proof values, public
/// values, the preprocessed commitment in `common_data` - has to come from `b` at run time.
pub fn exec_l_reuse(env: &Env, a: &ProofObj, b: &ProofObj, p: usize) -> Result<Outcome, String> {
    let t0 = Instant::now();
    let params = &env.params[p].1;
    let mut facts = CacheFacts::default();
    let (cnt_a, dig_a) = l_circuit_id(env, a)?;
    let (cnt_b, dig_b) = l_circuit_id(env, b)?;
    facts.given = true;
    facts.same_circuit = dig_a == dig_b;
    facts.same_params = true;
    facts.fp_equal = cnt_a == cnt_b;
    facts.fp_now = fp_str(&cnt_b);
    facts.fp_cache = fp_str(&cnt_a);
    if let (ProofObj::Batch { proof: pa, .. }, ProofObj::Batch { proof: pb, .. }) = (a, b) {
        facts.reuse_commitments_differ =
            Some(crate::objs::common_digest(&pa.stark_common) != crate::objs::common_digest(&pb.stark_common));
    }
    macro_rules! reuse {
        ($ai:expr, $bi:expr, $A:ty) => {
            quiet_catch(|| -> Result<RecursionOutput<Cfg>, VerificationError> {
                let (c, vr) = build_next_layer_circuit::<Cfg, $A, _, D>(&$ai, &env.cfg, &env.backend)?;
                let prep = build_next_layer_prep::<Cfg, $A, _, D>(&c, &env.cfg, &env.backend, params)?;
                prove_next_layer::<Cfg, $A, _, D>(&$bi, &c, &vr, &env.cfg, &env.backend, params, Some(&prep))
            })
        };
    }
    let res = match (a, b) {
        (ProofObj::Uni { proof: pa, air: aa, pis: ia }, ProofObj::Uni { proof: pb, air: ab, pis: ib }) => {
            let ai: RecursionInput<'_, Cfg, crate::objs::FibAir> =
                RecursionInput::UniStark { proof: pa, air: aa, public_inputs: ia.clone(), preprocessed_commit: None };
            let bi: RecursionInput<'_, Cfg, crate::objs::FibAir> =
                RecursionInput::UniStark { proof: pb, air: ab, public_inputs: ib.clone(), preprocessed_commit: None };
            reuse!(ai, bi, crate::objs::FibAir)
        }
        (ProofObj::Batch { proof: pa, tpi: ta }, ProofObj::Batch { proof: pb, tpi: tb }) => {
            let ai: RecursionInput<'_, Cfg, BatchOnly> =
                RecursionInput::BatchStark { proof: pa, common_data: &pa.stark_common, table_public_inputs: ta.clone() };
            let bi: RecursionInput<'_, Cfg, BatchOnly> =
                RecursionInput::BatchStark { proof: pb, common_data: &pb.stark_common, table_public_inputs: tb.clone() };
            reuse!(ai, bi, BatchOnly)
        }
        _ => return Err("HARNESS: L-reuse over two proofs of different kinds (they cannot share a shape id)".into()),
    };
    let (verdict, output) = judge(env, p, res);
    Ok(Outcome { verdict, facts, output, secs: t0.elapsed().as_secs_f64() })
}

/// One earlier call `A(left, right, Some(&mut slot))` of the history that changed the content
/// of the aggregation slot.
pub struct SlotStep<'a> {
    pub left: &'a ProofObj,
    pub right: &'a ProofObj,
    pub p: usize,
    pub cross: bool,
}

fn call_aggregation(
    env: &Env,
    x: &ProofObj,
    y: &ProofObj,
    p: usize,
    cross: bool,
    slot: Option<&mut Option<AggregationPrepCache<Cfg>>>,
) -> Result<Result<RecursionOutput<Cfg>, VerificationError>, String> {
    let params = &env.params[p].1;
    with_input!(x, |xi, A1| {
        with_input!(y, |yi, A2| {
            quiet_catch(move || {
                if cross {
                    // same config on both sides: the cross-config entry point must then
                    // behave like the plain one
                    build_and_prove_aggregation_layer_cross::<Cfg, Cfg, A1, A2, _, D>(
                        &xi,
                        &yi,
                        &env.cfg,
                        &env.cfg,
                        &env.backend,
                        params,
                        slot,
                    )
                } else {
                    build_and_prove_aggregation_layer::<Cfg, A1, A2, _, D>(
                        &xi,
                        &yi,
                        &env.cfg,
                        &env.backend,
                        params,
                        slot,
                    )
                }
            })
        })
    })
}

/// Everything observable of the slot's content: the stored fingerprint, the preprocessed
/// columns and the preprocessed commitment of the cached prover data.
fn slot_content(slot: &Option<AggregationPrepCache<Cfg>>) -> Option<String> {
    let c = slot.as_ref()?;
    let d = &c.circuit_prover_data;
    let mut np: Vec<(String, u64)> = d
        .non_primitive_columns
        .iter()
        .map(|(k, v)| (format!("{k:?}"), fnv64(format!("{v:?}").as_bytes())))
        .collect();
    np.sort();
    let commit = d.prover_data.common.preprocessed.as_ref().map(|g| format!("{:?}|{:?}", g.commitment, g.matrix_to_instance));
    Some(format!(
        "fp={}|prim={:016x}|np={:?}|commit={:016x}",
        fp_str(&c.circuit_fingerprint),
        fnv64(format!("{:?}", d.primitive_columns).as_bytes()),
        np,
        fnv64(format!("{commit:?}").as_bytes()),
    ))
}

/// The cached `prover` is opaque; the metadata it stamps on the proof of the call that filled
/// the slot stands in for its configuration.
fn prover_proxy(r: &Result<Result<RecursionOutput<Cfg>, VerificationError>, String>) -> String {
    match r {
        Ok(Ok(o)) => format!("{:?}|{:?}", o.0.table_packing, o.0.alu_variant),
        _ => "no-output".to_string(),
    }
}

/// `A(x, y, slot)`: 2-to-1 aggregation of the ordered pair under params `p`.
/// `slot`: `None` = no cache argument; `Some(steps)` = a slot object that has been through
/// the calls `steps` (in order) before — empty `steps` = an empty slot. `expected_key` is the
/// content key the harness registered for that slot state; the replayed slot must reproduce it.
pub fn exec_a(
    env: &Env,
    x: &ProofObj,
    y: &ProofObj,
    slot: Option<(&[SlotStep<'_>], Option<&str>)>,
    p: usize,
    cross: bool,
) -> Result<AOutcome, String> {
    let t0 = Instant::now();
    let mut facts = CacheFacts::default();
    let (cnt_now, dig_now) = a_circuit_id(env, x, y)?;
    facts.fp_now = fp_str(&cnt_now);

    let mut slot_obj: Option<AggregationPrepCache<Cfg>> = None;
    let mut cur_content: Option<String> = None;
    let mut cur_key: Option<String> = None;
    let mut before: Option<Rc<p3_circuit_prover::CircuitProverData<Cfg>>> = None;
    if let Some((steps, expected_key)) = &slot {
        // replay of the slot's history on this thread (deterministic prover, no RNG in the config)
        let mut last_changing: Option<&SlotStep<'_>> = None;
        for st in steps.iter() {
            let r = call_aggregation(env, st.left, st.right, st.p, st.cross, Some(&mut slot_obj));
            if !matches!(r, Ok(Ok(_))) {
                return Err(format!(
                    "replay of a slot-filling aggregation failed although it succeeded before: {:?}",
                    r.map(|r| r.map(|_| ()).map_err(|e| format!("{e:?}")))
                ));
            }
            let content = slot_content(&slot_obj);
            if content != cur_content {
                cur_key = content.as_ref().map(|c| format!("{c}|{}", prover_proxy(&r)));
                cur_content = content;
                last_changing = Some(st);
            }
        }
        if cur_key.as_deref() != *expected_key {
            return Err(format!(
                "HARNESS: the replayed slot content differs from the registered one (value dependence or nondeterminism): {:?} vs {:?}",
                cur_key, expected_key
            ));
        }
        if let (Some(cached), Some(st)) = (slot_obj.as_ref(), last_changing) {
            let (cnt_fill, dig_fill) = a_circuit_id(env, st.left, st.right)?;
            facts.given = true;
            facts.same_circuit = dig_fill == dig_now;
            facts.same_params = st.p == p;
            // the fingerprint the implementation compares is the stored one
            facts.fp_equal = cached.circuit_fingerprint == cnt_now;
            facts.fp_cache = fp_str(&cached.circuit_fingerprint);
            before = Some(Rc::clone(&cached.circuit_prover_data));
        }
    }

    let res = match &slot {
        None => call_aggregation(env, x, y, p, cross, None),
        Some(_) => call_aggregation(env, x, y, p, cross, Some(&mut slot_obj)),
    };
    let mut slot_changed = false;
    let mut slot_key_after = None;
    if slot.is_some() {
        facts.slot_filled_after = slot_obj.is_some();
        if let (Some(b), Some(after)) = (&before, slot_obj.as_ref()) {
            facts.reused = Rc::ptr_eq(b, &after.circuit_prover_data) && matches!(res, Ok(Ok(_)));
        }
        let content_after = slot_content(&slot_obj);
        slot_changed = content_after != cur_content;
        slot_key_after = if slot_changed {
            content_after.as_ref().map(|c| format!("{c}|{}", prover_proxy(&res)))
        } else {
            cur_key.clone()
        };
        if let (Some(after), true, true) = (slot_obj.as_ref(), matches!(res, Ok(Ok(_))), slot_changed) {
            // validation of the harness replica against the implementation: a freshly stored
            // fingerprint must be the counters of the replica of this call's circuit
            if after.circuit_fingerprint != cnt_now && before.is_some() {
                facts.stale_fp_after_refill = Some(format!(
                    "slot refilled with the data of a circuit with counters {} but labelled {}",
                    fp_str(&cnt_now),
                    fp_str(&after.circuit_fingerprint)
                ));
            } else if after.circuit_fingerprint != cnt_now {
                return Err(format!(
                    "HARNESS: replica counters {} != fingerprint stored by the implementation {}",
                    fp_str(&cnt_now),
                    fp_str(&after.circuit_fingerprint)
                ));
            }
        }
    }
    let (verdict, output) = judge(env, p, res);
    drop(before);
    drop(slot_obj);
    Ok(AOutcome {
        outcome: Outcome { verdict, facts, output, secs: t0.elapsed().as_secs_f64() },
        slot_changed,
        slot_key_after,
    })
}

pub struct AOutcome {
    pub outcome: Outcome,
    /// the observable content of the slot differs from what it was before the call
    pub slot_changed: bool,
    /// content key of the slot after the call (`None`: empty / no slot argument)
    pub slot_key_after: Option<String>,
}

pub type Shared = Arc<ProofObj>;
