//! Trimmed KoalaBear / D=4 / Poseidon2-W16 instance of the glue in
//! `/repo/recursion/examples/common/mod.rs` (`define_field_module_types!`, non-ZK half):
//! a `StarkGenericConfig` that also carries the in-circuit FRI verifier parameters and
//! implements `FriRecursionConfig`, which is what the unified recursion API needs.
//! Nothing here decides anything: it is the same wiring the examples use, with the
//! test-grade FRI parameters of `FriParameters::new_testing`.

use std::sync::Arc;

use p3_challenger::DuplexChallenger;
use p3_circuit::ops::{generate_poseidon2_trace, generate_recompose_trace};
use p3_circuit::{CircuitBuilder, CircuitRunner, NonPrimitiveOpId};
use p3_commit::{ExtensionMmcs, Pcs};
use p3_dft::Radix2DitParallel;
use p3_field::Field;
use p3_field::extension::BinomialExtensionField;
use p3_fri::{FriParameters, TwoAdicFriPcs};
use p3_koala_bear::{KoalaBear, Poseidon2KoalaBear, default_koalabear_poseidon2_16};
use p3_lookup::logup::LogUpGadget;
use p3_merkle_tree::MerkleTreeMmcs;
use p3_poseidon2_circuit_air::KoalaBearD4Width16;
use p3_recursion::pcs::{
    InputProofTargets, MerkleCapTargets, RecValMmcs, set_fri_mmcs_private_data,
};
use p3_recursion::traits::{RecursiveAir, RecursivePcs};
use p3_recursion::verifier::VerificationError;
use p3_recursion::{
    FriRecursionBackend, FriRecursionBackendForExt, FriRecursionConfig, FriVerifierParams,
    Poseidon2Config, RecursionInput,
};
use p3_symmetric::{PaddingFreeSponge, TruncatedPermutation};
use p3_uni_stark::{StarkConfig, StarkGenericConfig, Val};

pub type F = KoalaBear;
pub const D: usize = 4;
pub const WIDTH: usize = 16;
pub const RATE: usize = 8;
pub const DIGEST_ELEMS: usize = 8;
pub const P2: Poseidon2Config = Poseidon2Config::KOALA_BEAR_D4_W16;

pub type Challenge = BinomialExtensionField<F, D>;
pub type Dft = Radix2DitParallel<F>;
pub type Perm = Poseidon2KoalaBear<16>;
pub type MyHash = PaddingFreeSponge<Perm, WIDTH, RATE, DIGEST_ELEMS>;
pub type MyCompress = TruncatedPermutation<Perm, 2, DIGEST_ELEMS, WIDTH>;
pub type MyMmcs = MerkleTreeMmcs<
    <F as Field>::Packing,
    <F as Field>::Packing,
    MyHash,
    MyCompress,
    2,
    DIGEST_ELEMS,
>;
pub type ChallengeMmcs = ExtensionMmcs<F, Challenge, MyMmcs>;
pub type Challenger = DuplexChallenger<F, Perm, WIDTH, RATE>;
pub type MyPcs = TwoAdicFriPcs<F, Dft, MyMmcs, ChallengeMmcs>;
pub type MyConfig = StarkConfig<MyPcs, Challenge, Challenger>;

type InnerFri = p3_recursion::pcs::FriProofTargets<
    F,
    Challenge,
    p3_recursion::pcs::RecExtensionValMmcs<
        F,
        Challenge,
        DIGEST_ELEMS,
        RecValMmcs<F, DIGEST_ELEMS, MyHash, MyCompress>,
    >,
    InputProofTargets<F, Challenge, RecValMmcs<F, DIGEST_ELEMS, MyHash, MyCompress>>,
    p3_recursion::pcs::Witness<F>,
>;

/// Scalar FRI parameters (the examples' `FriParams`).
#[derive(Debug, Clone, Copy)]
pub struct FriParams {
    pub log_blowup: usize,
    pub max_log_arity: usize,
    pub cap_height: usize,
    pub log_final_poly_len: usize,
    pub commit_pow_bits: usize,
    pub query_pow_bits: usize,
    pub num_queries: usize,
}

/// `FriParameters::new_testing(_, 0)`: blowup 4, 2 queries, 1+1 PoW bits, binary folding.
pub const TEST_FRI: FriParams = FriParams {
    log_blowup: 2,
    max_log_arity: 1,
    cap_height: 0,
    log_final_poly_len: 0,
    commit_pow_bits: 1,
    query_pow_bits: 1,
    num_queries: 2,
};

#[derive(Clone)]
pub struct Cfg {
    config: Arc<MyConfig>,
    fri_verifier_params: FriVerifierParams,
}

impl StarkGenericConfig for Cfg {
    type Challenge = Challenge;
    type Challenger = Challenger;
    type Pcs = MyPcs;
    fn pcs(&self) -> &MyPcs {
        self.config.pcs()
    }
    fn initialise_challenger(&self) -> Challenger {
        self.config.initialise_challenger()
    }
}

impl FriRecursionConfig for Cfg
where
    MyPcs: RecursivePcs<
            Cfg,
            InputProofTargets<F, Challenge, RecValMmcs<F, DIGEST_ELEMS, MyHash, MyCompress>>,
            InnerFri,
            MerkleCapTargets<F, DIGEST_ELEMS>,
            <MyPcs as Pcs<Challenge, Challenger>>::Domain,
        >,
{
    type Commitment = MerkleCapTargets<F, DIGEST_ELEMS>;
    type InputProof = InputProofTargets<F, Challenge, RecValMmcs<F, DIGEST_ELEMS, MyHash, MyCompress>>;
    type OpeningProof = InnerFri;
    type RawOpeningProof = <MyPcs as Pcs<Challenge, Challenger>>::Proof;
    const DIGEST_ELEMS: usize = DIGEST_ELEMS;

    fn with_fri_opening_proof<'a, A, R>(
        prev: &RecursionInput<'a, Self, A>,
        f: impl FnOnce(&Self::RawOpeningProof) -> R,
    ) -> R
    where
        A: RecursiveAir<Val<Self>, Self::Challenge, LogUpGadget>,
    {
        match prev {
            RecursionInput::UniStark { proof, .. } => f(&proof.opening_proof),
            RecursionInput::BatchStark { proof, .. } => f(&proof.proof.opening_proof),
        }
    }

    fn prepare_circuit_for_verification(
        &self,
        circuit: &mut CircuitBuilder<Challenge>,
    ) -> Result<(), VerificationError> {
        let perm = default_koalabear_poseidon2_16();
        circuit.enable_poseidon2_perm::<KoalaBearD4Width16, _>(
            generate_poseidon2_trace::<Challenge, KoalaBearD4Width16>,
            perm,
        );
        circuit.enable_recompose::<F>(generate_recompose_trace::<F, Challenge>);
        Ok(())
    }

    fn pcs_verifier_params(&self) -> &FriVerifierParams {
        &self.fri_verifier_params
    }

    fn set_fri_private_data(
        runner: &mut CircuitRunner<'_, Challenge>,
        op_ids: &[NonPrimitiveOpId],
        opening_proof: &Self::RawOpeningProof,
    ) -> Result<(), &'static str> {
        set_fri_mmcs_private_data::<F, Challenge, ChallengeMmcs, MyMmcs, MyHash, MyCompress, DIGEST_ELEMS>(
            runner,
            op_ids,
            opening_proof,
            P2,
        )
    }
}

pub fn make_cfg(fp: &FriParams) -> Cfg {
    let perm = default_koalabear_poseidon2_16();
    let hash = MyHash::new(perm.clone());
    let compress = MyCompress::new(perm.clone());
    let val_mmcs = MyMmcs::new(hash, compress, fp.cap_height);
    let challenge_mmcs = ChallengeMmcs::new(val_mmcs.clone());
    let fri_params = FriParameters {
        max_log_arity: fp.max_log_arity,
        log_blowup: fp.log_blowup,
        log_final_poly_len: fp.log_final_poly_len,
        num_queries: fp.num_queries,
        commit_proof_of_work_bits: fp.commit_pow_bits,
        query_proof_of_work_bits: fp.query_pow_bits,
        mmcs: challenge_mmcs,
    };
    let pcs = MyPcs::new(Dft::default(), val_mmcs, fri_params);
    let challenger = Challenger::new(perm);
    Cfg {
        config: Arc::new(MyConfig::new(pcs, challenger)),
        fri_verifier_params: FriVerifierParams::with_mmcs(
            fp.log_blowup,
            fp.log_final_poly_len,
            fp.commit_pow_bits,
            fp.query_pow_bits,
            P2,
        ),
    }
}

pub type Backend = FriRecursionBackendForExt<D, WIDTH, RATE, Poseidon2Config>;

pub fn make_backend() -> Backend {
    make_backend_with(&[])
}

/// The backend with `extras` registered, in order, through `with_extra_poseidon2_table`
/// (the backend-variant axis, see `variants.rs`). No extras = the plain backend.
pub fn make_backend_with(extras: &[Poseidon2Config]) -> Backend {
    let mut b = FriRecursionBackend::<WIDTH, RATE, _>::new(P2);
    for e in extras {
        b = b.with_extra_poseidon2_table(*e);
    }
    b.for_extension_degree::<D>()
}
