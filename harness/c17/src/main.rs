//! C17 — recursion layers and aggregations chain, with or without cached preparation.
//!
//! Explicit-state BFS (E5) over call sequences of the REAL unified recursion API
//! (`/repo/recursion/src/recursion.rs`, FRI backend), KoalaBear / D=4 / Poseidon2-W16 glue as
//! in `recursion/examples/common/mod.rs`, test-grade FRI parameters.
//!
//! State   = (set of available proofs by shape id, content of the next-layer cache slot,
//!            content of the aggregation cache slot, current `ProveNextLayerParams`).
//! Actions = `L(x, none|fresh|slot|reuse|reuse_self)` (`reuse`: circuit + verifier_result + prep built
//!            once for another proof of x's shape id and used unchanged; `reuse_self`: control), `A(x, y, none|slot)` (ordered pairs, optionally through
//!            the `_cross` entry point), `P(k)` (switch params).
//! Oracle per executed call (engine::judge + `clauses` below):
//!   * no panic; `Ok` unless a cache prepared for ANOTHER circuit/params was handed in
//!     (then a clean `Err` is a legitimate refusal);
//!   * the output verifies natively (`verify_all_tables::<Challenge>`, as the examples do);
//!   * `into_recursion_input` of the output is accepted by the next layer's verifier;
//!   * the same call with and without cache has the same verdict.
//!
//! A second, self-contained scenario (`boundary.rs`) runs next to the BFS: the `_cross`
//! aggregation entry point with input and output configs of DIFFERENT ZK-ness (hiding-PCS
//! children into a plain proof and the reverse, plus the hiding->hiding control), over base and
//! depth-1 children, with no cache / empty slot / filled slot, each output fed to a further
//! really-proved layer under the output config. Its cases are independent histories (own config
//! objects, own slot), so nothing is de-duplicated there; counts are reported separately under
//! `coverage.config_boundary` and added to `states` / `transitions`.
//!
//! A third scenario (`variants.rs`) is the BACKEND-VARIANT axis: the BFS and the boundary scenario
//! use one backend value (`FriRecursionBackend::new(P2)`); here the smallest chain scenario (one
//! base shape, base -> L -> L, A of the two depth-1 children, each cached and uncached) runs
//! under every backend the constructors offer for this config - plain, and with the challenger's
//! own Poseidon2 config registered as an "extra" table once / twice (documented no-ops) - through
//! the same step functions and oracle, plus a differential clause against the plain backend.
//! Counts: `coverage.backend_variants`, added to `states` / `transitions`. Its cases never enter
//! the BFS registry; all its keys, labels and replays carry the variant name.
//!
//! ## Why states are de-duplicated by (shape ids, cache provenance/content, params) only
//! The API functions are pure functions of their explicit arguments: config, backend and
//! params are immutable values, there is no global or thread-local state in
//! `recursion.rs`/`backend/fri.rs`, and the non-ZK prover draws no randomness. The only data
//! that survives a call is what the caller keeps: the proofs and the two cache objects —
//! exactly the components of the state.
//!   * A proof influences *which circuit is built and which cache is valid* only through
//!     its structure (kind, AIR, table metadata, degree bits, opening-proof layout); its field
//!     values only flow into witness values. The shape id is (kind tag incl. all proof
//!     metadata, digest of the complete `L` verification circuit built for it), so two proofs
//!     with one shape id drive every later call through the same circuits. This is checked,
//!     not assumed: whenever a second proof arrives for an existing shape id, its `L` circuit
//!     digest has been compared (it is part of the id), and base proofs come in two value
//!     instances that are required to collapse to one id.
//!   * The next-layer cache is created by `build_next_layer_prep`, a pure function of
//!     (circuit, config, params), and is only ever borrowed immutably by the API: its
//!     provenance (proof shape it was prepared for, params) identifies its content.
//!   * The aggregation slot is `&mut`: its content may depend on every earlier call that was
//!     handed the slot. Its state id is therefore the *observed* content after each call
//!     (stored fingerprint, preprocessed columns, preprocessed commitment, metadata the
//!     cached prover stamps on proofs); two histories are merged only if that content is
//!     equal. A slot state is re-created by replaying, in order, all slot-changing calls of
//!     the shortest history that produced it, and the replayed content is compared with the
//!     registered one (machinery error otherwise) — this also checks that the content does
//!     not depend on the values inside the proofs (replays use the other value instance).
//! Hence two histories reaching the same key enable the same calls with the same outcomes, and
//! a call needs to be executed once per distinct argument tuple (inputs' shapes, cache
//! provenance, params). `transitions` counts those executed calls — every one runs the
//! implementation (`traces_validated_against_impl == transitions`); edges of the state graph
//! that repeat an already executed call are counted separately (`state_graph_edges`).

mod boundary;
mod engine;
mod glue;
mod objs;
mod variants;

use std::collections::{BTreeMap, BTreeSet, HashMap};
use std::sync::Arc;

use engine::*;
use glue::*;
use objs::{ProofObj, make_base};
use vpcore::rayon::prelude::*;
use vpcore::serde_json::{Value, json};
use vpcore::{Ctx, Histo, Report, finish, machinery_error};

type ShapeId = usize;

struct ShapeInfo {
    key: String,
    /// first provenance that produced it, e.g. `L[P0](U0)`
    label: String,
    insts: Vec<Shared>,
    l_counters: String,
    level: usize,
}

#[derive(Clone, Copy, PartialEq, Eq, Hash, PartialOrd, Ord, Debug)]
struct NlProv {
    x: ShapeId,
    p: usize,
}
/// A state of the aggregation slot: index into `World::slots`. A slot state is identified by
/// the observable content of the slot (stored fingerprint, preprocessed columns, preprocessed
/// commitment, and the metadata the cached prover stamps on proofs) and is re-created by
/// replaying the slot-changing calls of the first (shortest) history that reached it.
type AgId = usize;

#[derive(Clone, Copy, PartialEq, Eq, Hash, PartialOrd, Ord, Debug)]
struct SlotCall {
    x: ShapeId,
    y: ShapeId,
    p: usize,
    cross: bool,
}

struct SlotInfo {
    key: String,
    seq: Vec<SlotCall>,
}

/// One call of the API, up to the values inside the proofs ("transition class").
#[derive(Clone, PartialEq, Eq, Hash, PartialOrd, Ord, Debug)]
enum Call {
    /// `reuse`: 0 = the circuit and verifier_result are built for `x` itself at every call and only
    /// the prep is carried over (`cache`); 1 = `L-reuse`: circuit + verifier_result + prep built
    /// once for ANOTHER proof of the same shape id (the first value instance) and used unchanged;
    /// 2 = the control: built once for the very proof that is then proved over.
    L { x: ShapeId, cache: Option<NlProv>, p: usize, reuse: u8 },
    A { x: ShapeId, y: ShapeId, slot: Option<Option<AgId>>, p: usize, cross: bool },
}

#[derive(Clone, PartialEq, Eq, Hash, PartialOrd, Ord, Debug)]
struct State {
    proofs: BTreeSet<ShapeId>,
    nl: Option<NlProv>,
    ag: Option<AgId>,
    p: usize,
}

/// A proof named relative to a history: a base proof or the output of step `i`.
#[derive(Clone, Debug, PartialEq, Eq)]
enum Ref {
    Base(String),
    Step(usize),
}
impl Ref {
    fn s(&self) -> String {
        match self {
            Ref::Base(n) => n.clone(),
            Ref::Step(i) => format!("#{i}"),
        }
    }
    fn parse(s: &str) -> Ref {
        match s.strip_prefix('#') {
            Some(i) => Ref::Step(i.parse().unwrap_or_else(|_| machinery_error("bad step ref"))),
            None => Ref::Base(s.to_string()),
        }
    }
}

#[derive(Clone, Debug)]
enum Act {
    L { x: Ref, cache: &'static str },
    A { x: Ref, y: Ref, cache: &'static str, cross: bool },
    P { k: usize },
}
impl Act {
    fn s(&self) -> String {
        match self {
            Act::L { x, cache } => format!("L({},{cache})", x.s()),
            Act::A { x, y, cache, cross } => {
                format!("A{}({},{},{cache})", if *cross { "x" } else { "" }, x.s(), y.s())
            }
            Act::P { k } => format!("P({k})"),
        }
    }
    fn to_json(&self) -> Value {
        match self {
            Act::L { x, cache } => json!({"op":"L","x":x.s(),"cache":cache}),
            Act::A { x, y, cache, cross } => json!({"op":"A","x":x.s(),"y":y.s(),"cache":cache,"cross":cross}),
            Act::P { k } => json!({"op":"P","k":k}),
        }
    }
    fn from_json(v: &Value) -> Act {
        let st = |k: &str| v[k].as_str().unwrap_or_else(|| machinery_error("bad replay action")).to_string();
        let cache = |s: String| -> &'static str {
            match s.as_str() {
                "none" => "none",
                "fresh" => "fresh",
                "reuse" => "reuse",
                "reuse_self" => "reuse_self",
                "slot" => "slot",
                _ => machinery_error("bad cache mode in replay"),
            }
        };
        match v["op"].as_str() {
            Some("L") => Act::L { x: Ref::parse(&st("x")), cache: cache(st("cache")) },
            Some("A") => Act::A {
                x: Ref::parse(&st("x")),
                y: Ref::parse(&st("y")),
                cache: cache(st("cache")),
                cross: v["cross"].as_bool().unwrap_or(false),
            },
            Some("P") => Act::P { k: v["k"].as_u64().unwrap_or(0) as usize },
            _ => machinery_error("bad replay action"),
        }
    }
}

struct StateInfo {
    hist: Vec<Act>,
    refs: BTreeMap<ShapeId, Ref>,
}

/// What a call did to the aggregation slot it was handed.
#[derive(Clone, Copy, Debug)]
enum SlotEffect {
    Unchanged,
    Now(Option<AgId>),
}

struct Summary {
    verdict: Verdict,
    facts: CacheFacts,
    slot_effect: SlotEffect,
    out_shape: Option<ShapeId>,
    secs: f64,
    hist: Vec<Act>,
    level: usize,
}

struct World {
    env: Env,
    shapes: Vec<ShapeInfo>,
    by_key: HashMap<String, ShapeId>,
    slots: Vec<SlotInfo>,
    slot_by_key: HashMap<String, AgId>,
    slot_merges: u64,
    base_names: Vec<String>,
    memo: HashMap<Call, Summary>,
    order: Vec<Call>,
    /// a later proof of an already known shape arrived (its L-circuit digest matched by construction)
    shape_merges: u64,
}

impl World {
    fn register(&mut self, obj: ProofObj, tag: String, cnt: &str, dig: u64, label: String, level: usize) -> ShapeId {
        // Base proofs (level 0) additionally carry their base name: two base circuits can have one
        // proof shape and one next-layer circuit (B0, B2 and W0 do) and would otherwise be ONE
        // initial proof, the later one silently dropped. A finer partition is always sound.
        let key = if level == 0 { format!("{tag}|L={dig:016x}|base={label}") } else { format!("{tag}|L={dig:016x}") };
        if let Some(&id) = self.by_key.get(&key) {
            self.shape_merges += 1;
            if self.shapes[id].insts.len() < 2 {
                self.shapes[id].insts.push(Arc::new(obj));
            }
            return id;
        }
        let id = self.shapes.len();
        self.shapes.push(ShapeInfo { key: key.clone(), label, insts: vec![Arc::new(obj)], l_counters: cnt.to_string(), level });
        self.by_key.insert(key, id);
        id
    }
    fn register_slot(&mut self, key: String, seq: Vec<SlotCall>) -> AgId {
        if let Some(&id) = self.slot_by_key.get(&key) {
            self.slot_merges += 1;
            if seq.len() < self.slots[id].seq.len() {
                self.slots[id].seq = seq;
            }
            return id;
        }
        let id = self.slots.len();
        self.slots.push(SlotInfo { key: key.clone(), seq });
        self.slot_by_key.insert(key, id);
        id
    }
    fn slot_label(&self, a: AgId) -> String {
        self.slots[a]
            .seq
            .iter()
            .map(|c| format!("A{}[P{}]({}, {})", if c.cross { "x" } else { "" }, c.p, self.label(c.x), self.label(c.y)))
            .collect::<Vec<_>>()
            .join(" then ")
    }
    /// instance used as the subject of a judged call / as the material a cache is prepared on
    fn subject(&self, x: ShapeId) -> Shared {
        self.shapes[x].insts.last().unwrap().clone()
    }
    fn material(&self, x: ShapeId) -> Shared {
        self.shapes[x].insts[0].clone()
    }
    fn label(&self, x: ShapeId) -> &str {
        &self.shapes[x].label
    }
    fn call_label(&self, c: &Call) -> String {
        match c {
            Call::L { x, cache, p, reuse } => format!(
                "L[P{p}]({}; cache={})",
                self.label(*x),
                match (cache, reuse) {
                    (None, _) => "none".to_string(),
                    (Some(n), 0) => format!("prep[P{}] for L({})", n.p, self.label(n.x)),
                    (Some(n), 1) => format!(
                        "circuit + verifier_result + prep[P{}] built once for another proof of the shape {}",
                        n.p,
                        self.label(n.x)
                    ),
                    (Some(n), _) => format!("circuit + verifier_result + prep[P{}] built once for this very proof", n.p),
                }
            ),
            Call::A { x, y, slot, p, cross } => format!(
                "A{}[P{p}]({}, {}; cache={})",
                if *cross { "x" } else { "" },
                self.label(*x),
                self.label(*y),
                match slot {
                    None => "none".to_string(),
                    Some(None) => "empty slot".to_string(),
                    Some(Some(a)) => format!("slot after {}", self.slot_label(*a)),
                }
            ),
        }
    }
    fn out_label(&self, c: &Call) -> String {
        match c {
            Call::L { x, p, .. } => format!("L[P{p}]({})", self.label(*x)),
            Call::A { x, y, p, .. } => format!("A[P{p}]({},{})", self.label(*x), self.label(*y)),
        }
    }
}

/// Result of one executed call plus its effect on the aggregation slot.
struct Executed {
    o: Outcome,
    slot_changed: bool,
    slot_key_after: Option<String>,
}

/// Executes one call on a worker thread.
fn run_call(w: &World, c: &Call) -> Result<Executed, String> {
    match c {
        Call::L { x, p, reuse, .. } if *reuse > 0 => {
            // built on the first value instance (control: on the subject itself), proved over the last one
            let xs = w.subject(*x);
            let builder = if *reuse == 1 { w.material(*x) } else { xs.clone() };
            let o = exec_l_reuse(&w.env, &builder, &xs, *p)?;
            Ok(Executed { o, slot_changed: false, slot_key_after: None })
        }
        Call::L { x, cache, p, .. } => {
            // the cache is prepared on the first value instance, the call runs on the last one
            let xs = w.subject(*x);
            let mat = cache.map(|n| (w.material(n.x), n.p));
            let o = exec_l(&w.env, &xs, mat.as_ref().map(|(o, q)| (&**o, *q)), *p)?;
            Ok(Executed { o, slot_changed: false, slot_key_after: None })
        }
        Call::A { x, y, slot, p, cross } => {
            // judged call: last value instances; for a shape aggregated with itself the two
            // operands are two distinct proofs where two exist (as the example's leaves).
            // Replayed slot history: first value instances.
            let xs = if x == y { w.material(*x) } else { w.subject(*x) };
            let ys = w.subject(*y);
            let seq: Vec<SlotCall> = match slot {
                Some(Some(a)) => w.slots[*a].seq.clone(),
                _ => vec![],
            };
            let objs: Vec<(Shared, Shared)> = seq
                .iter()
                .map(|c| (w.material(c.x), if c.x == c.y { w.subject(c.y) } else { w.material(c.y) }))
                .collect();
            let steps: Vec<SlotStep<'_>> = seq
                .iter()
                .zip(objs.iter())
                .map(|(c, (l, r))| SlotStep { left: l, right: r, p: c.p, cross: c.cross })
                .collect();
            let expected = match slot {
                Some(Some(a)) => Some(w.slots[*a].key.as_str()),
                _ => None,
            };
            let r = exec_a(&w.env, &xs, &ys, slot.map(|_| (steps.as_slice(), expected)), *p, *cross)?;
            Ok(Executed { o: r.outcome, slot_changed: r.slot_changed, slot_key_after: r.slot_key_after })
        }
    }
}

/// Registers the output proof and the slot state an executed call left behind.
fn absorb(w: &mut World, c: &Call, e: Executed, hist: Vec<Act>, level: usize) -> Summary {
    let out_shape = e.o.output.map(|(obj, tag, cnt, dig)| {
        let l = w.out_label(c);
        w.register(obj, tag, &fp_str(&cnt), dig, l, level + 1)
    });
    let slot_effect = match c {
        Call::A { x, y, slot: Some(before), p, cross } if e.slot_changed => match e.slot_key_after {
            None => SlotEffect::Now(None),
            Some(key) => {
                let mut seq = before.map(|a| w.slots[a].seq.clone()).unwrap_or_default();
                seq.push(SlotCall { x: *x, y: *y, p: *p, cross: *cross });
                SlotEffect::Now(Some(w.register_slot(key, seq)))
            }
        },
        _ => SlotEffect::Unchanged,
    };
    Summary { verdict: e.o.verdict, facts: e.o.facts, slot_effect, out_shape, secs: e.o.secs, hist, level }
}

/// Oracle clauses on one executed call. Returns (key, description) of each broken clause.
fn clauses(w: &World, c: &Call, s: &Summary) -> Vec<(String, String)> {
    let f = &s.facts;
    let kind = match c {
        Call::L { reuse: 0, .. } => "next_layer",
        Call::L { .. } => "next_layer_reused_circuit",
        Call::A { cross: false, .. } => "aggregation",
        Call::A { cross: true, .. } => "aggregation_cross",
    };
    let empty_slot = matches!(c, Call::A { slot: Some(None), .. });
    let cache_class = if !f.given {
        if empty_slot { "empty_slot".to_string() } else { "no_cache".to_string() }
    } else if f.same_circuit {
        if f.same_params { "same_circuit_cache".to_string() } else { "same_circuit_other_params_cache".to_string() }
    } else {
        match c {
            Call::L { .. } => "foreign_cache".to_string(),
            // `reused` (the slot still holds the same prover data and the call returned) is
            // only meaningful for calls that returned Ok; for a panic/Err the stored
            // fingerprint tells which branch the implementation took
            Call::A { .. } => format!(
                "foreign_cache:{}",
                match (&s.verdict, f.reused, f.fp_equal) {
                    (Verdict::Panic(_) | Verdict::Err(_), _, true) => "fingerprint_collision",
                    (Verdict::Panic(_) | Verdict::Err(_), _, false) => "fingerprint_differs",
                    (_, true, true) => "fingerprint_collision",
                    (_, true, false) => "reused_despite_fingerprint_mismatch",
                    (_, false, _) => "recomputed",
                }
            ),
        }
    };
    // kind first after the class keeps the keys readable: foreign_cache:next_layer:non_verifying
    let key = |sym: &str| -> String {
        let mut parts: Vec<&str> = cache_class.split(':').collect();
        parts.insert(1, kind);
        format!("{}:{sym}", parts.join(":"))
    };
    let foreign = f.given && (!f.same_circuit || !f.same_params);
    let what = |sym: &str| {
        format!(
            "{} -> {sym}: {} [circuit counters now {} / cache {}]; shortest history: {}",
            w.call_label(c),
            s.verdict.detail().chars().take(160).collect::<String>(),
            f.fp_now,
            if f.given { f.fp_cache.as_str() } else { "-" },
            s.hist.iter().map(|a| a.s()).collect::<Vec<_>>().join(" ; ")
        )
    };
    match &s.verdict {
        Verdict::Good => vec![],
        // a cache prepared for something else may be refused
        Verdict::Err(_) if foreign => vec![],
        Verdict::Err(_) => vec![(key("err"), what("Err"))],
        Verdict::Panic(_) => vec![(key("panic"), what("panic"))],
        Verdict::NonVerifying(_) => vec![(key("non_verifying"), what("Ok, but the proof does not verify"))],
        Verdict::NotChainable(_) => vec![(key("not_chainable"), what("Ok and verifies, but is not a valid input for a further layer"))],
    }
}

struct Alphabet {
    bases: Vec<String>,
    n_params: usize,
    depth: usize,
    cross: bool,
    /// the `L-reuse` call variants (`reuse`, `reuse_self`) are part of the alphabet
    reuse: bool,
    /// aggregation actions are part of the alphabet
    agg: bool,
}

fn enabled(s: &State, info: &StateInfo, al: &Alphabet) -> Vec<Act> {
    let mut v = vec![];
    let r = |x: &ShapeId| info.refs[x].clone();
    for x in &s.proofs {
        v.push(Act::L { x: r(x), cache: "none" });
        v.push(Act::L { x: r(x), cache: "fresh" });
        if al.reuse {
            v.push(Act::L { x: r(x), cache: "reuse" });
            v.push(Act::L { x: r(x), cache: "reuse_self" });
        }
        if s.nl.is_some() {
            v.push(Act::L { x: r(x), cache: "slot" });
        }
    }
    for x in s.proofs.iter().filter(|_| al.agg) {
        for y in &s.proofs {
            v.push(Act::A { x: r(x), y: r(y), cache: "none", cross: false });
            v.push(Act::A { x: r(x), y: r(y), cache: "slot", cross: false });
            if al.cross {
                v.push(Act::A { x: r(x), y: r(y), cache: "none", cross: true });
                v.push(Act::A { x: r(x), y: r(y), cache: "slot", cross: true });
            }
        }
    }
    for k in 0..al.n_params {
        if k != s.p {
            v.push(Act::P { k });
        }
    }
    v
}

/// Shape a `Ref` denotes in a state reached by `info.hist`.
fn deref(info: &StateInfo, r: &Ref) -> Option<ShapeId> {
    info.refs.iter().find(|(_, v)| *v == r).map(|(k, _)| *k)
}

fn resolve(s: &State, info: &StateInfo, a: &Act) -> Option<Call> {
    match a {
        Act::P { .. } => None,
        Act::L { x, cache: cache_mode } => {
            let x = deref(info, x)?;
            let cache = match *cache_mode {
                "none" => None,
                "fresh" | "reuse" | "reuse_self" => Some(NlProv { x, p: s.p }),
                _ => Some(s.nl?),
            };
            let reuse = match *cache_mode {
                "reuse" => 1,
                "reuse_self" => 2,
                _ => 0,
            };
            Some(Call::L { x, cache, p: s.p, reuse })
        }
        Act::A { x, y, cache, cross } => {
            let (x, y) = (deref(info, x)?, deref(info, y)?);
            let slot = match *cache {
                "none" => None,
                _ => Some(s.ag),
            };
            Some(Call::A { x, y, slot, p: s.p, cross: *cross })
        }
    }
}

fn successor(s: &State, info: &StateInfo, a: &Act, call: Option<&Call>, sum: Option<&Summary>) -> (State, StateInfo) {
    let mut ns = s.clone();
    let mut hist = info.hist.clone();
    let mut refs = info.refs.clone();
    let step = hist.len();
    hist.push(a.clone());
    match (a, call, sum) {
        (Act::P { k }, _, _) => ns.p = *k,
        (_, Some(call), Some(sum)) => {
            if let Some(o) = sum.out_shape {
                if ns.proofs.insert(o) {
                    refs.insert(o, Ref::Step(step));
                }
            }
            match (a, call) {
                (Act::L { cache: "fresh", .. }, Call::L { cache: Some(n), .. }) => ns.nl = Some(*n),
                (_, Call::A { slot: Some(_), .. }) => {
                    if let SlotEffect::Now(a) = sum.slot_effect {
                        ns.ag = a;
                    }
                }
                _ => {}
            }
        }
        _ => {}
    }
    (ns, StateInfo { hist, refs })
}

fn main() {
    let ctx = Ctx::from_args("C17", "model_checking");
    vpcore::install_quiet_panic_hook();
    let report = Report::new();

    // ---- alphabet and bounds per tier -------------------------------------------------
    // A scenario is one BFS: a set of base proofs initially available, a params alphabet
    // and a depth. All scenarios share the table of executed calls.
    let sc = |bases: &[&str], n_params: usize, depth: usize, cross: bool| Alphabet {
        bases: bases.iter().map(|s| s.to_string()).collect(),
        n_params,
        depth,
        cross,
        reuse: true,
        agg: true,
    };
    let mut scenarios = if ctx.quick() {
        // cheap scenarios first: a budget cut on a slow machine then drops the tail of the big ones
        vec![
            // L-reuse over two children of one shape and different wiring (other preprocessed commitment)
            sc(&["W0"], 1, 1, false),
            // a child whose prover reduced its ALU lanes (stark_common != the prover data it came with)
            sc(&["B2"], 1, 2, false),
            // one base, two parameter sets, one step deeper: histories such as
            // "prepare under P0 ; switch to P1 ; prove with the held preparation"
            // A pure next-layer chain (L and P actions only): with aggregations its last level alone
            // is 200 calls / 16 s and never fitted the quick budget; aggregation histories of depth 3
            // are in the thorough tier. The L-reuse variants are covered at depth <= 2 above.
            Alphabet { reuse: false, agg: false, ..sc(&["B0"], 2, 3, false) },
            sc(&["U0", "U1", "B0"], 3, 2, false),
        ]
    } else {
        vec![
            // wider alphabet (second batch shape, `_cross` entry point), same depth as quick
            sc(&["U0", "U1", "B0", "B1"], 3, 2, true),
            // wiring-variant children (two sizes) next to the unit circuit: L-reuse over them, over
            // their layers and aggregations, under two parameter sets
            sc(&["W0", "W1", "B0"], 2, 2, false),
            // everything the quick tier does, one step deeper (takes what is left of the budget)
            Alphabet { reuse: false, ..sc(&["U0", "U1", "B0"], 3, 3, false) },
        ]
    };
    if ctx.opt("depth").is_some() || ctx.opt("bases").is_some() || ctx.opt("params").is_some() || ctx.opt("cross").is_some() {
        // the options re-shape the widest scenario of the tier
        let widest = (0..scenarios.len()).max_by_key(|&i| (scenarios[i].bases.len(), scenarios.len() - i)).unwrap_or(0);
        let mut al = scenarios.remove(widest);
        if let Some(d) = ctx.opt("depth") {
            al.depth = d.parse().unwrap_or(al.depth);
        }
        if let Some(b) = ctx.opt("bases") {
            al.bases = b.split(',').map(|s| s.to_string()).collect();
        }
        if let Some(n) = ctx.opt("params") {
            al.n_params = n.parse().unwrap_or(al.n_params);
        }
        if let Some(c) = ctx.opt("cross") {
            al.cross = c == "1";
        }
        scenarios = vec![al];
    }
    let replay_value = ctx.replay.as_ref().map(|p| vpcore::load_replay(p));
    // test-grade FRI parameters (new_testing, with blowup 2 instead of 4 to halve proving time)
    let mut fri = TEST_FRI;
    fri.log_blowup = 1;
    let mk_env_with = |fri: FriParams| Env { cfg: make_cfg(&fri), backend: make_backend(), verifier_extra: vec![], fri, params: params_alphabet(&fri, 3) };
    // environment of a backend variant (variants.rs): config, FRI parameters and params alphabet of
    // the BFS, only the backend value (and the tables the native verifier registers) differ
    let mk_venv = move |v: &variants::VariantSpec| Env {
        cfg: make_cfg(&fri),
        backend: make_backend_with(&v.extras),
        verifier_extra: v.verifier_extra.clone(),
        fri,
        params: params_alphabet(&fri, 3),
    };
    let mk_env = || mk_env_with(fri);
    // The config-boundary scenario keeps blowup 4 (`FriParameters::new_testing`): with a hiding PCS
    // the quotient of the degree-3 table constraints needs 4 chunks of the extended domain
    // (log2_ceil(3 - 1 + is_zk) = 2 > log_blowup 1), a requirement of the p3 STARK stack itself.
    let mk_benv = || mk_env_with(TEST_FRI);

    // ---- config-boundary scenario (see boundary.rs) -------------------------------------
    // replay of one stored boundary case
    if let Some(b) = replay_value.as_ref().and_then(|rp| rp.get("boundary")) {
        let thorough = !ctx.quick();
        let specs: Vec<boundary::CaseSpec> = match b.get("children").and_then(|t| t.as_str()) {
            // a child of one config failed: re-produce the children of that config (and one case over them)
            Some(tag) => vec![boundary::CaseSpec {
                dir: if tag == "zk" { "zk_to_zk" } else { "plain_to_plain" },
                x: "B0".into(),
                y: "B0".into(),
                p: 0,
                lite: true,
            }],
            None => {
                let dir = boundary::DIRS
                    .iter()
                    .copied()
                    .find(|d| Some(*d) == b["dir"].as_str())
                    .unwrap_or_else(|| machinery_error("bad direction in boundary replay"));
                let st = |k: &str| b[k].as_str().unwrap_or_else(|| machinery_error("bad boundary replay")).to_string();
                vec![boundary::CaseSpec { dir, x: st("x"), y: st("y"), p: b["p"].as_u64().unwrap_or(0) as usize, lite: b["lite"].as_bool().unwrap_or(false) }]
            }
        };
        // the children of the thorough tier include those of the quick tier: a case over a
        // thorough-only child is replayed with the thorough children set
        let wide = thorough || specs.iter().any(|s| s.x.contains("U0)") || s.y.contains("U0)") || s.x.contains("(U0") || s.y.contains("(U0"));
        let run = boundary::run(&mk_benv(), ctx.seed, &specs, wide, &|| false).unwrap_or_else(|e| machinery_error(&e));
        for (t, s) in &run.child_steps {
            println!("child [{t}] {}  =>  {} {}", s.call, s.verdict.tag(), s.verdict.detail());
        }
        for c in &run.cases {
            for (i, s) in c.steps.iter().enumerate() {
                println!("step {i}: {}  =>  {} {}", s.call, s.verdict.tag(), s.verdict.detail());
            }
        }
        for (size, k, what, rp) in boundary::clauses(&run) {
            report.violation_sized(k, what, rp, size);
        }
        let (ev, n) = boundary::evidence(&run, &specs, thorough);
        finish(
            &ctx,
            json!({"states": n.states, "transitions": n.transitions, "traces_validated_against_impl": n.transitions,
                   "samples": ev["samples"], "mode": "replay", "config_boundary": ev}),
            vec![],
            &report,
        );
    }
    // ---- backend-variant scenario (see variants.rs) ------------------------------------------
    // replay of one stored (variant, base) history: the variant and the variants it is compared with
    if let Some(b) = replay_value.as_ref().and_then(|rp| rp.get("backend_variant")) {
        let name = b["variant"].as_str().unwrap_or_else(|| machinery_error("bad backend_variant replay"));
        let base = b["base"].as_str().unwrap_or_else(|| machinery_error("bad backend_variant replay")).to_string();
        if !variants::all_variants().iter().any(|v| v.name == name) {
            machinery_error(&format!("unknown backend variant {name} in replay"));
        }
        let specs = variants::select(Some(&[name]));
        let run = variants::run(&specs, &[base], &mk_venv, &|| false).unwrap_or_else(|e| machinery_error(&e));
        for s in &run.steps {
            println!("step {}@{}: {}  =>  {} {}", s.step, s.variant, s.call, s.verdict.tag(), s.verdict.detail());
        }
        if let Some(e) = variants::machinery_problem(&run) {
            machinery_error(&format!("backend-variant scenario, reference backend: {e}"));
        }
        for (size, k, what, rp) in variants::clauses(&run) {
            report.violation_sized(k, what, rp, size);
        }
        let (ev, n) = variants::evidence(&run);
        finish(
            &ctx,
            json!({"states": n.states, "transitions": n.transitions, "traces_validated_against_impl": n.transitions,
                   "samples": ev["samples"], "mode": "replay", "backend_variants": ev}),
            vec![],
            &report,
        );
    }
    // Like the boundary scenario: own thread, own small pool, concurrent with the BFS. Its
    // histories are independent of the BFS's registry (nothing is registered in `World`).
    let variant_specs: Vec<variants::VariantSpec> = match ctx.opt("variants") {
        _ if replay_value.is_some() => vec![],
        Some("0") => vec![],
        Some(list) => {
            let names: Vec<&str> = list.split(',').collect();
            for n in &names {
                if !variants::all_variants().iter().any(|v| v.name == *n) {
                    machinery_error(&format!("unknown backend variant {n}"));
                }
            }
            variants::select(Some(&names))
        }
        None => variants::select(None),
    };
    let variant_bases: Vec<String> = match ctx.opt("variant_bases") {
        Some(l) => l.split(',').map(|s| s.to_string()).collect(),
        None if ctx.quick() => vec!["B0".to_string()],
        None => vec!["B0".to_string(), "U0".to_string(), "B1".to_string()],
    };
    let variant_thread = {
        let specs = variant_specs.clone();
        let bases = variant_bases.clone();
        let (start, budget, thorough) = (ctx.start, ctx.budget, !ctx.quick());
        std::thread::spawn(move || -> Result<Option<variants::VariantRun>, String> {
            if specs.is_empty() {
                return Ok(None);
            }
            let oot = move || start.elapsed().as_secs_f64() > 0.85 * budget.as_secs_f64();
            let pool = vpcore::rayon::ThreadPoolBuilder::new()
                .num_threads(if thorough { 16 } else { 8 })
                .stack_size(64 << 20)
                .build()
                .map_err(|e| format!("cannot build the backend-variant thread pool: {e}"))?;
            pool.install(|| variants::run(&specs, &bases, &mk_venv, &oot)).map(Some)
        })
    };
    // The scenario runs on its own thread AND its own small rayon pool, concurrently with the BFS
    // below: its histories are chains of dependent, mostly single-threaded calls (critical path
    // ~15 s, ~4 cores busy), which the BFS hides. A separate pool keeps the BFS's 1-2 s call tasks
    // from being stolen into the middle of a boundary call (that stretched the chains 2x).
    let boundary_specs = if replay_value.is_some() || ctx.opt("boundary") == Some("0") { vec![] } else { boundary::cases(!ctx.quick()) };
    let boundary_thread = {
        let env = mk_benv();
        let specs = boundary_specs.clone();
        let (start, budget, seed, thorough) = (ctx.start, ctx.budget, ctx.seed, !ctx.quick());
        std::thread::spawn(move || -> Result<Option<boundary::BoundaryRun>, String> {
            if specs.is_empty() {
                return Ok(None);
            }
            let oot = move || start.elapsed().as_secs_f64() > 0.85 * budget.as_secs_f64();
            let pool = vpcore::rayon::ThreadPoolBuilder::new()
                .num_threads(if thorough { 16 } else { 8 })
                .stack_size(64 << 20)
                .build()
                .map_err(|e| format!("cannot build the boundary thread pool: {e}"))?;
            pool.install(|| boundary::run(&env, seed, &specs, thorough, &oot)).map(Some)
        })
    };
    let mut all_bases: Vec<String> = vec![];
    if let Some(rp) = &replay_value {
        for b in rp["bases"].as_array().cloned().unwrap_or_default() {
            all_bases.push(b.as_str().unwrap_or("").to_string());
        }
    } else {
        for al in &scenarios {
            for b in &al.bases {
                if !all_bases.contains(b) {
                    all_bases.push(b.clone());
                }
            }
        }
    }
    let env = mk_env();
    let mut w = World {
        env,
        shapes: vec![],
        by_key: HashMap::new(),
        slots: vec![],
        slot_by_key: HashMap::new(),
        slot_merges: 0,
        base_names: all_bases.clone(),
        memo: HashMap::new(),
        order: vec![],
        shape_merges: 0,
    };

    // ---- base proofs: two value instances per shape, which must collapse to one shape id ---
    // (U2 is the negative control of the collision search and takes part in the search only)
    let mut search_names = all_bases.clone();
    for extra in ["U2", "B1"] {
        if !search_names.iter().any(|n| n == extra) {
            search_names.push(extra.to_string());
        }
    }
    let mut search_objs: Vec<(String, Shared)> = vec![];
    let mut init_refs = BTreeMap::new();
    let mut init_proofs = BTreeSet::new();
    for name in &search_names {
        let in_alphabet = all_bases.contains(name);
        let mut ids = vec![];
        for inst in 0..2 {
            let obj = vpcore::quiet_catch(|| make_base(name, inst, &w.env.cfg, &w.env.fri))
                .unwrap_or_else(|p| machinery_error(&format!("base {name} panicked: {p}")))
                .unwrap_or_else(|e| machinery_error(&format!("base {name}: {e}")));
            let (cnt, dig) = l_circuit_id(&w.env, &obj).unwrap_or_else(|e| machinery_error(&format!("base {name}: L circuit: {e}")));
            if !in_alphabet {
                if inst == 0 {
                    search_objs.push((name.clone(), Arc::new(obj)));
                }
                continue;
            }
            let tag = obj.kind_tag();
            ids.push(w.register(obj, tag, &fp_str(&cnt), dig, name.clone(), 0));
        }
        if in_alphabet {
            if ids[0] != ids[1] {
                machinery_error(&format!("the two value instances of base {name} do not share a shape id"));
            }
            if let Some(other) = init_refs.get(&ids[0]) {
                // the state keeps proofs by shape id: two bases of one shape would silently be one
                machinery_error(&format!("bases {name} and {} share a shape id: pick bases of distinct shapes", match other { Ref::Base(n) => n.as_str(), _ => "?" }));
            }
            if name.starts_with('W') {
                // the point of the wiring variants: one shape id, two preprocessed commitments
                let cd = |o: &ProofObj| match o {
                    ProofObj::Batch { proof, .. } => objs::common_digest(&proof.stark_common),
                    _ => String::new(),
                };
                if cd(&w.shapes[ids[0]].insts[0]) == cd(&w.shapes[ids[0]].insts[1]) {
                    machinery_error(&format!("the two wiring variants of base {name} carry the same preprocessed commitment"));
                }
            }
            search_objs.push((name.clone(), w.material(ids[0])));
            init_refs.insert(ids[0], Ref::Base(name.clone()));
            init_proofs.insert(ids[0]);
        }
    }
    w.shape_merges = 0;

    // ---- replay of one stored history ---------------------------------------------------
    if let Some(rp) = replay_value {
        let acts: Vec<Act> = rp["history"].as_array().unwrap_or_else(|| machinery_error("replay without history")).iter().map(Act::from_json).collect();
        let mut s = State { proofs: init_proofs.clone(), nl: None, ag: None, p: 0 };
        let mut info = StateInfo { hist: vec![], refs: init_refs.clone() };
        for (i, a) in acts.iter().enumerate() {
            let call = resolve(&s, &info, a);
            if call.is_none() && !matches!(a, Act::P { .. }) {
                machinery_error(&format!("replay step {i} {} is not enabled", a.s()));
            }
            let mut sum = None;
            if let Some(c) = &call {
                let e = run_call(&w, c).unwrap_or_else(|e| machinery_error(&e));
                println!("step {i}: {}  =>  {} {}", w.call_label(c), e.o.verdict.tag(), e.o.verdict.detail());
                let mut hist = info.hist.clone();
                hist.push(a.clone());
                let sm = absorb(&mut w, c, e, hist, i);
                for (k, what) in clauses(&w, c, &sm) {
                    report.violation(k, what, rp.clone());
                }
                sum = Some(sm);
            } else {
                println!("step {i}: {}", a.s());
            }
            let (ns, ni) = successor(&s, &info, a, call.as_ref(), sum.as_ref());
            s = ns;
            info = ni;
        }
        finish(
            &ctx,
            json!({"states": acts.len() + 1, "transitions": acts.len(), "traces_validated_against_impl": acts.len(),
                   "samples": [acts.iter().map(|a| a.s()).collect::<Vec<_>>().join(" ; ")], "mode": "replay"}),
            vec![],
            &report,
        );
    }

    // ---- search for circuits with equal size counters but different content --------------
    // over the base family (L circuits) and all ordered pairs (aggregation circuits)
    let mut by_counters: BTreeMap<String, BTreeMap<u64, Vec<String>>> = BTreeMap::new();
    for (n, o) in &search_objs {
        let (cnt, dig) = l_circuit_id(&w.env, o).unwrap_or_else(|e| machinery_error(&e));
        by_counters.entry(format!("L:{}", fp_str(&cnt))).or_default().entry(dig).or_default().push(format!("L({n})"));
    }
    let pairs: Vec<(usize, usize)> = (0..search_objs.len()).flat_map(|i| (0..search_objs.len()).map(move |j| (i, j))).collect();
    let pair_ids: Vec<_> = pairs
        .par_iter()
        .map(|(i, j)| (*i, *j, a_circuit_id(&w.env, &search_objs[*i].1, &search_objs[*j].1)))
        .collect();
    for (i, j, r) in pair_ids {
        let (cnt, dig) = r.unwrap_or_else(|e| machinery_error(&e));
        by_counters
            .entry(format!("A:{}", fp_str(&cnt)))
            .or_default()
            .entry(dig)
            .or_default()
            .push(format!("A({},{})", search_objs[i].0, search_objs[j].0));
    }
    let mut collisions = vec![];
    let mut searched = 0usize;
    for (cnt, groups) in &by_counters {
        searched += groups.values().map(|v| v.len()).sum::<usize>();
        if groups.len() > 1 {
            collisions.push(json!({"counters": cnt, "distinct_circuits": groups.len(),
                "members": groups.values().map(|v| v.join("=")).collect::<Vec<_>>()}));
        }
    }

    // ---- BFS ------------------------------------------------------------------------------
    let histo = Histo::new();
    let class_histo = Histo::new();
    let mut exhaustive = true;
    let mut edges = 0u64;
    let mut p_edges = 0u64;
    let mut skipped_calls = 0u64;
    let mut states_total = 0usize;
    let mut per_scenario = vec![];
    let mut state_samples: Vec<String> = vec![];
    let mut violations: Vec<(usize, usize, usize, String, String, Value)> = vec![];
    for (sci, al) in scenarios.iter().enumerate() {
    let mut per_level = vec![];
    let base_ids: BTreeSet<ShapeId> = init_refs
        .iter()
        .filter(|(_, r)| matches!(r, Ref::Base(n) if al.bases.contains(n)))
        .map(|(k, _)| *k)
        .collect();
    let init = State { proofs: base_ids.clone(), nl: None, ag: None, p: 0 };
    let mut seen: HashMap<State, usize> = HashMap::new();
    seen.insert(init.clone(), 0);
    let refs0: BTreeMap<ShapeId, Ref> = init_refs.iter().filter(|(k, _)| base_ids.contains(k)).map(|(k, v)| (*k, v.clone())).collect();
    let mut frontier: Vec<(State, StateInfo)> = vec![(init, StateInfo { hist: vec![], refs: refs0 })];
    for level in 0..al.depth {
        // enumerate edges of this level
        let mut level_edges: Vec<(usize, Act, Option<Call>)> = vec![];
        let mut new_calls: Vec<(Call, Vec<Act>)> = vec![];
        let mut new_set: BTreeSet<Call> = BTreeSet::new();
        for (si, (s, info)) in frontier.iter().enumerate() {
            for a in enabled(s, info, &al) {
                let call = resolve(s, info, &a);
                if let Some(c) = &call {
                    if !w.memo.contains_key(c) && new_set.insert(c.clone()) {
                        let mut h = info.hist.clone();
                        h.push(a.clone());
                        new_calls.push((c.clone(), h));
                    }
                } else if !matches!(a, Act::P { .. }) {
                    continue; // `slot` action with an empty next-layer slot
                }
                level_edges.push((si, a, call));
            }
        }
        // cheap calls (base inputs) first: under a budget cut the short histories are the ones kept
        let weight = |c: &Call| -> usize {
            match c {
                Call::L { x, cache, .. } => 2 * w.shapes[*x].level + cache.map(|n| w.shapes[n.x].level).unwrap_or(0),
                Call::A { x, y, slot, .. } => {
                    2 * (w.shapes[*x].level + w.shapes[*y].level)
                        + slot
                            .flatten()
                            .map(|a| w.slots[a].seq.iter().map(|c| 2 * (w.shapes[c.x].level + w.shapes[c.y].level) + 1).sum::<usize>())
                            .unwrap_or(0)
                }
            }
        };
        eprintln!("C17 scenario {sci} level {level}: {} states, {} edges, {} calls to execute", frontier.len(), level_edges.len(), new_calls.len());
        let mut order: Vec<usize> = (0..new_calls.len()).collect();
        order.sort_by_key(|i| weight(&new_calls[*i].0));
        let results: Vec<(usize, Option<Result<Executed, String>>)> = order
            .par_iter()
            .with_max_len(1)
            .map(|&i| {
                if ctx.used() > 0.85 {
                    return (i, None);
                }
                (i, Some(run_call(&w, &new_calls[i].0)))
            })
            .collect();
        let mut by_idx: Vec<Option<Result<Executed, String>>> = (0..new_calls.len()).map(|_| None).collect();
        for (i, r) in results {
            by_idx[i] = r;
        }
        // register outcomes sequentially, in enumeration order (deterministic labels)
        let mut executed = 0u64;
        for (i, r) in by_idx.into_iter().enumerate() {
            let (call, hist) = &new_calls[i];
            let Some(r) = r else {
                skipped_calls += 1;
                exhaustive = false;
                continue;
            };
            let e = r.unwrap_or_else(|e| machinery_error(&format!("{}: {e}", w.call_label(call))));
            executed += 1;
            histo.add(e.o.verdict.tag());
            let sum = absorb(&mut w, call, e, hist.clone(), level);
            let f = &sum.facts;
            let cls = format!(
                "{}:{}",
                match call {
                    Call::L { reuse: 0, .. } => "L",
                    Call::L { reuse: 1, .. } => "Lreuse",
                    Call::L { .. } => "Lreuse_self",
                    Call::A { cross: false, .. } => "A",
                    Call::A { cross: true, .. } => "Ax",
                },
                if !f.given {
                    if matches!(call, Call::A { slot: Some(None), .. }) { "empty_slot" } else { "no_cache" }
                } else if f.same_circuit && f.same_params {
                    "cache_same_circuit"
                } else if f.same_circuit {
                    "cache_same_circuit_other_params"
                } else if f.fp_equal {
                    "cache_foreign_equal_counters"
                } else {
                    "cache_foreign_other_counters"
                }
            );
            class_histo.add(&format!("{cls} -> {}", sum.verdict.tag()));
            for (k, what) in clauses(&w, call, &sum) {
                violations.push((level, sci, i, k, what, json!({"history": hist.iter().map(|a| a.to_json()).collect::<Vec<_>>(),
                    "bases": al.bases, "call": w.call_label(call)})));
            }
            w.order.push(call.clone());
            w.memo.insert(call.clone(), sum);
        }
        // successors
        let mut next: Vec<(State, StateInfo)> = vec![];
        for (si, a, call) in &level_edges {
            let (s, info) = &frontier[*si];
            let sum = call.as_ref().and_then(|c| w.memo.get(c));
            if call.is_some() && sum.is_none() {
                continue; // not executed (budget)
            }
            if call.is_some() {
                edges += 1;
            } else {
                p_edges += 1;
            }
            let (ns, ni) = successor(s, info, a, call.as_ref(), sum);
            if !seen.contains_key(&ns) {
                seen.insert(ns.clone(), level + 1);
                if state_samples.len() < 3 * (sci + 1) && level + 1 == al.depth && sum.map(|s| s.out_shape.is_some()).unwrap_or(false) && seen.len() % 41 == 0 {
                    state_samples.push(ni.hist.iter().map(|a| a.s()).collect::<Vec<_>>().join(" ; "));
                }
                next.push((ns, ni));
            }
        }
        per_level.push(json!({"level": level, "states_expanded": frontier.len(), "edges": level_edges.len(),
            "calls_new": new_calls.len(), "calls_executed": executed, "new_states": next.len(), "elapsed_s": ctx.elapsed_s()}));
        eprintln!("C17 level {level}: states {} edges {} new calls {} executed {} new states {} shapes {} t={:.1}s",
            frontier.len(), level_edges.len(), new_calls.len(), executed, next.len(), w.shapes.len(), ctx.elapsed_s());
        frontier = next;
        if !exhaustive {
            break;
        }
    }
    states_total += seen.len();
    per_scenario.push(json!({"bases": al.bases, "params": w.env.params.iter().take(al.n_params).map(|p| p.0.clone()).collect::<Vec<_>>(),
        "depth": al.depth, "cross_entry_point": al.cross, "l_reuse_variants": al.reuse, "aggregation_actions": al.agg, "states": seen.len(), "levels": per_level}));
    if !exhaustive {
        break;
    }
    }

    // ---- cached ≡ uncached -----------------------------------------------------------------
    let mut compared = 0u64;
    for c in &w.order {
        let s = &w.memo[c];
        let twin = match c {
            Call::L { x, cache: Some(_), p, .. } if s.facts.same_circuit => Some(Call::L { x: *x, cache: None, p: *p, reuse: 0 }),
            Call::A { x, y, slot: Some(sl), p, cross } if sl.is_none() || s.facts.same_circuit => {
                Some(Call::A { x: *x, y: *y, slot: None, p: *p, cross: *cross })
            }
            _ => None,
        };
        let Some(twin) = twin else { continue };
        let Some(t) = w.memo.get(&twin) else { continue };
        compared += 1;
        if (s.verdict == Verdict::Good) != (t.verdict == Verdict::Good) {
            let kind = match c {
                Call::L { reuse: 0, .. } => "next_layer",
                Call::L { .. } => "next_layer_reused_circuit",
                _ => "aggregation",
            };
            violations.push((
                s.level,
                usize::MAX,
                usize::MAX,
                format!("cached_vs_uncached:{kind}:{}_vs_{}", s.verdict.tag(), t.verdict.tag()),
                format!("{} gives {} but {} gives {}", w.call_label(c), s.verdict.tag(), w.call_label(&twin), t.verdict.tag()),
                json!({"history": s.hist.iter().map(|a| a.to_json()).collect::<Vec<_>>(), "bases": w.base_names, "call": w.call_label(c)}),
            ));
        }
    }
    for c in &w.order {
        let s = &w.memo[c];
        if let Some(d) = &s.facts.stale_fp_after_refill {
            violations.push((
                s.level,
                usize::MAX,
                usize::MAX,
                "cache_refill:stale_fingerprint".to_string(),
                format!("{}: {d} - the next call with the old shape will take the foreign data for its own", w.call_label(c)),
                json!({"history": s.hist.iter().map(|a| a.to_json()).collect::<Vec<_>>(), "bases": w.base_names, "call": w.call_label(c)}),
            ));
        }
    }
    // ---- config-boundary scenario: collect ---------------------------------------------------
    let boundary_run = boundary_thread
        .join()
        .unwrap_or_else(|_| machinery_error("the config-boundary thread panicked"))
        .unwrap_or_else(|e| machinery_error(&format!("config-boundary scenario: {e}")));
    let mut boundary_ev = Value::Null;
    let mut boundary_counts = boundary::BoundaryCounts { transitions: 0, states: 0, compared: 0 };
    if let Some(run) = &boundary_run {
        for (size, k, what, rp) in boundary::clauses(run) {
            report.violation_sized(k, what, rp, size);
        }
        if run.skipped_for_budget > 0 {
            exhaustive = false;
        }
        let (ev, n) = boundary::evidence(run, &boundary_specs, !ctx.quick());
        boundary_ev = ev;
        boundary_counts = n;
    }

    // ---- backend-variant scenario: collect ---------------------------------------------------
    let variant_run = variant_thread
        .join()
        .unwrap_or_else(|_| machinery_error("the backend-variant thread panicked"))
        .unwrap_or_else(|e| machinery_error(&format!("backend-variant scenario: {e}")));
    let mut variant_ev = Value::Null;
    let mut variant_counts = variants::VariantCounts { transitions: 0, states: 0, compared: 0 };
    if let Some(run) = &variant_run {
        if let Some(e) = variants::machinery_problem(run) {
            machinery_error(&format!("backend-variant scenario, reference backend: {e}"));
        }
        for (size, k, what, rp) in variants::clauses(run) {
            report.violation_sized(k, what, rp, size);
        }
        if run.skipped_for_budget > 0 {
            exhaustive = false;
        }
        let (ev, n) = variants::evidence(run);
        variant_ev = ev;
        variant_counts = n;
    }

    for d in objs::CONVERSION_DEFECTS.lock().unwrap().iter() {
        violations.push((
            0,
            0,
            0,
            "output_to_input:into_recursion_input:foreign_common_data".to_string(),
            d.clone(),
            json!({"history": [], "note": d}),
        ));
    }
    // shortest history first, so that the case kept per key is the minimal one
    violations.sort_by(|a, b| (a.0, a.1, a.2).cmp(&(b.0, b.1, b.2)));
    for (_, _, _, k, what, rp) in violations {
        report.violation(k, what, rp);
    }

    // ---- evidence --------------------------------------------------------------------------
    let bfs_transitions = w.order.len() as u64;
    let transitions = bfs_transitions + boundary_counts.transitions + variant_counts.transitions;
    let mut samples: Vec<Value> = vec![];
    let mut seen_tags = BTreeSet::new();
    for c in &w.order {
        let s = &w.memo[c];
        let tag = format!(
            "{}|{}|{}",
            match c {
                Call::L { reuse, .. } => format!("L{reuse}"),
                _ => "A".to_string(),
            },
            s.facts.given,
            s.verdict.tag()
        );
        if seen_tags.insert(tag) || (samples.len() < 14 && s.hist.len() >= 2 && s.out_shape.is_some() && fnv64(w.call_label(c).as_bytes()) % 23 == 0) {
            samples.push(json!({
                "history": s.hist.iter().map(|a| a.s()).collect::<Vec<_>>().join(" ; "),
                "last_call": w.call_label(c),
                "verdict": s.verdict.tag(),
                "detail": s.verdict.detail().chars().take(120).collect::<String>(),
                "cache": {"given": s.facts.given, "same_circuit": s.facts.same_circuit, "same_params": s.facts.same_params,
                          "counters_equal": s.facts.fp_equal, "reused": s.facts.reused},
                "output_shape": s.out_shape.map(|o| w.shapes[o].label.clone()),
                "secs": (s.secs * 1000.0).round() / 1000.0,
            }));
        }
    }
    for h in state_samples {
        samples.push(json!({"state_history": h}));
    }
    let mut reuse_ev = BTreeMap::new();
    for c in &w.order {
        if let Call::L { reuse, .. } = c {
            if *reuse > 0 {
                let s = &w.memo[c];
                let k = format!(
                    "{}|children's preprocessed commitments {}|{}",
                    if *reuse == 1 { "built for another proof of the shape" } else { "built for the same proof (control)" },
                    match s.facts.reuse_commitments_differ {
                        Some(true) => "differ",
                        Some(false) => "equal",
                        None => "n/a (uni-STARK)",
                    },
                    s.verdict.tag()
                );
                *reuse_ev.entry(k).or_insert(0u64) += 1;
            }
        }
    }
    let total_secs: f64 = w.memo.values().map(|s| s.secs).sum();
    let coverage = json!({
        "states": states_total as u64 + boundary_counts.states + variant_counts.states,
        "transitions": transitions,
        "bfs_states": states_total,
        "bfs_transitions": bfs_transitions,
        "config_boundary": boundary_ev,
        "backend_variants": variant_ev,
        "l_reuse_calls": reuse_ev,
        "traces_validated_against_impl": transitions,
        "state_graph_edges": edges,
        "param_switch_edges": p_edges,
        "edge_resolution": "an edge whose call (input shape ids, cache provenance, params) was already executed is not executed again",
        "exhaustive": exhaustive,
        "calls_skipped_for_budget": skipped_calls,
        "fri": format!("{:?}", w.env.fri),
        "scenarios": per_scenario,
        "proof_shapes": w.shapes.len(),
        "proofs_merged_into_existing_shape": w.shape_merges,
        "aggregation_slot_states": w.slots.len(),
        "slot_states_merged_by_content": w.slot_merges,
        "slot_states_needing_multi_call_replay": w.slots.iter().filter(|s| s.seq.len() > 1).count(),
        "shape_samples": w.shapes.iter().take(12).map(|s| json!({"label": s.label, "level": s.level, "L_circuit_counters": s.l_counters, "key_digest": format!("{:016x}", fnv64(s.key.as_bytes()))})).collect::<Vec<_>>(),
        "verdicts": histo.to_json(),
        "verdicts_by_call_class": class_histo.to_json(),
        "cached_vs_uncached_pairs_compared": compared + boundary_counts.compared + variant_counts.compared,
        "collision_search": {"circuits_compared": searched, "counter_groups": by_counters.len(), "collisions": collisions},
        "cpu_s_in_calls": (total_secs * 10.0).round() / 10.0,
        "samples": samples,
    });
    let assumptions = vec![
        "KoalaBear, D=4, Poseidon2 width 16, non-ZK TwoAdicFriPcs with test-grade FRI parameters (blowup 2, 2 queries, 1+1 PoW bits, final poly len 1): the cache logic under test does not depend on them".to_string(),
        "config-boundary scenario: the second config is the same stack behind HidingFriPcs (2 random codewords, SmallRng seeded from the case label and VERIF_SEED); the blinding randomness only changes values inside proofs, never the set of cases; every case builds its own config objects, so cases are independent of thread scheduling".to_string(),
        "states are identified by (shape ids, next-layer cache provenance, observed aggregation-slot content, params): the API is a pure function of its explicit arguments; shape id = proof metadata + digest of the complete next-layer verification circuit".to_string(),
        "a cache object is re-created on the worker thread by replaying the real calls that produced it (Rc is not Send); the prover is deterministic in this configuration (replayed slot content is compared with the registered content)".to_string(),
        "the cached BatchStarkProver inside a cache object is opaque; the table packing / ALU variant it stamps on the proof of the filling call stands in for its configuration in the slot content key".to_string(),
        "'accepted as input by a further L' = the next verification circuit builds and its in-circuit verifier run succeeds on into_recursion_input(output); proving that circuit is the L transition of the next level (not executed for outputs of the last level)".to_string(),
        "classification of a cache as same/foreign uses a harness replica of the private aggregation circuit builder (public backend trait calls); its counters are validated against the fingerprint the implementation stores on every fill".to_string(),
    ];
    finish(&ctx, coverage, assumptions, &report);
}
