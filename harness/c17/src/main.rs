fn main() {
    eprintln!("MACHINERY-ERROR: check c17 not built yet");
    std::process::exit(2);
}
