//! Proof objects the exploration works on: base proofs (uni-STARK Fibonacci AIR variants,
//! batch-STARK circuit proofs) and the way a stored proof is turned back into a
//! `RecursionInput` for the real API.

use p3_air::{Air, AirBuilder, BaseAir, WindowAccess};
use p3_batch_stark::ProverData;
use p3_circuit::CircuitBuilder;
use p3_circuit_prover::common::get_airs_and_degrees_with_prep;
use p3_circuit_prover::{
    BatchStarkProof, BatchStarkProver, CircuitProverData, ConstraintProfile, TablePacking,
};
use p3_field::PrimeCharacteristicRing;
use p3_matrix::dense::RowMajorMatrix;
use p3_uni_stark::{Proof, prove, verify};

use crate::glue::*;

/// Two-column Fibonacci-like AIR family with 3 public values `[a, b, x]`.
/// * variant 0: the repository's `FibonacciAir` (`l' = r`, `r' = l + r`).
/// * variant 1: the mirrored recurrence (`r' = l`, `l' = l + r`) — the same number of
///   constraints, the same operations, other operands: the candidate for equal circuit size
///   counters with a different verification circuit.
/// * variant 2: `r' = l + r + r` — one more addition: a *different* op count, the negative
///   control of the collision search.
pub struct FibAir {
    pub variant: u8,
}

impl<T> BaseAir<T> for FibAir {
    fn width(&self) -> usize {
        2
    }
    fn num_public_values(&self) -> usize {
        3
    }
}

impl<AB: AirBuilder> Air<AB> for FibAir {
    fn eval(&self, builder: &mut AB) {
        let main = builder.main();
        let pis = builder.public_values();
        let (a, b, x) = (pis[0], pis[1], pis[2]);
        let (local, next) = (main.current_slice(), main.next_slice());
        let (ll, lr, nl, nr) = (local[0], local[1], next[0], next[1]);
        let mut f = builder.when_first_row();
        f.assert_eq(ll, a);
        f.assert_eq(lr, b);
        let mut t = builder.when_transition();
        match self.variant {
            0 => {
                t.assert_eq(lr, nl);
                t.assert_eq(ll + lr, nr);
            }
            1 => {
                t.assert_eq(ll, nr);
                t.assert_eq(ll + lr, nl);
            }
            _ => {
                t.assert_eq(lr, nl);
                t.assert_eq(ll + lr + lr, nr);
            }
        }
        builder.when_last_row().assert_eq(lr, x);
    }
}

fn fib_trace(variant: u8, n: usize, a: u32, b: u32) -> (RowMajorMatrix<F>, Vec<F>) {
    let mut v = vec![F::ZERO; 2 * n];
    v[0] = F::from_u32(a);
    v[1] = F::from_u32(b);
    for i in 1..n {
        let (l, r) = (v[2 * (i - 1)], v[2 * (i - 1) + 1]);
        let (nl, nr) = match variant {
            0 => (r, l + r),
            1 => (l + r, l),
            _ => (r, l + r + r),
        };
        v[2 * i] = nl;
        v[2 * i + 1] = nr;
    }
    let x = v[2 * n - 1];
    (RowMajorMatrix::new(v, 2), vec![F::from_u32(a), F::from_u32(b), x])
}

/// A proof the exploration can feed to the API. `Send + Sync`: plain data, no `Rc`.
/// defects of `RecursionOutput::into_recursion_input` observed while wrapping base proofs
pub static CONVERSION_DEFECTS: std::sync::Mutex<Vec<String>> = std::sync::Mutex::new(Vec::new());

/// content digest of batch common data (commitment, per-instance metadata, lookup count)
pub fn common_digest(cd: &p3_batch_stark::CommonData<Cfg>) -> String {
    match &cd.preprocessed {
        None => format!("none|{}", cd.lookups.len()),
        Some(g) => format!(
            "{}|{:?}|{:?}|{}",
            vpcore::serde_json::to_string(&g.commitment).unwrap_or_default(),
            g.instances.iter().map(|m| m.as_ref().map(|m| (m.matrix_index, m.width, m.degree_bits))).collect::<Vec<_>>(),
            g.matrix_to_instance,
            cd.lookups.len()
        ),
    }
}

pub enum ProofObj {
    Uni {
        proof: Proof<Cfg>,
        air: FibAir,
        pis: Vec<F>,
    },
    /// `tpi` is what `RecursionOutput::into_recursion_input` returned as
    /// `table_public_inputs` when the proof was produced (for base proofs: what the examples
    /// pass, one empty vector per table).
    Batch {
        proof: BatchStarkProof<Cfg>,
        tpi: Vec<Vec<F>>,
    },
}

impl ProofObj {
    pub fn kind_tag(&self) -> String {
        match self {
            ProofObj::Uni { air, .. } => format!("uni:v{}", air.variant),
            ProofObj::Batch { proof, .. } => format!(
                "batch:{:?}|alu={:?}|np={}|inst={}|db={:?}",
                proof,
                proof.alu_variant,
                proof.non_primitives.len(),
                proof.proof.opened_values.instances.len(),
                proof.proof.degree_bits,
            ),
        }
    }
}

/// Binds `$inp` to the `RecursionInput` of a stored proof and `$A` to the AIR type parameter
/// the examples use for that kind of input (`BatchOnly` for batch proofs).
#[macro_export]
macro_rules! with_input {
    ($obj:expr, |$inp:ident, $A:ident| $body:expr) => {
        match $obj {
            $crate::objs::ProofObj::Uni { proof, air, pis } => {
                #[allow(dead_code)]
                type $A = $crate::objs::FibAir;
                let $inp: p3_recursion::RecursionInput<'_, $crate::glue::Cfg, $crate::objs::FibAir> =
                    p3_recursion::RecursionInput::UniStark {
                        proof,
                        air,
                        public_inputs: pis.clone(),
                        preprocessed_commit: None,
                    };
                $body
            }
            $crate::objs::ProofObj::Batch { proof, tpi } => {
                #[allow(dead_code)]
                type $A = p3_recursion::BatchOnly;
                let $inp: p3_recursion::RecursionInput<'_, $crate::glue::Cfg, p3_recursion::BatchOnly> =
                    p3_recursion::RecursionInput::BatchStark {
                        proof,
                        common_data: &proof.stark_common,
                        table_public_inputs: tpi.clone(),
                    };
                $body
            }
        }
    };
}

/// Base proof of the alphabet. `inst` selects one of two value instances with the same
/// structure (other start values / other constant), like the distinct leaves of the
/// aggregation example.
pub fn make_base(name: &str, inst: usize, cfg: &Cfg, fp: &FriParams) -> Result<ProofObj, String> {
    let kind = &name[..1];
    let idx: usize = name[1..].parse().map_err(|_| format!("bad base name {name}"))?;
    match kind {
        "U" => {
            let variant = idx as u8;
            let (a, b) = if inst == 0 { (0, 1) } else { (2, 5) };
            let (trace, pis) = fib_trace(variant, 8, a, b);
            let air = FibAir { variant };
            let proof = prove(cfg, &air, trace, &pis);
            verify(cfg, &air, &proof, &pis).map_err(|e| format!("base {name} does not verify: {e:?}"))?;
            Ok(ProofObj::Uni { proof, air, pis })
        }
        "B" => {
            // B0: the aggregation example's dummy circuit (const == public); B1: the
            // recursive_fibonacci example's base circuit (chain of additions).
            // B2: ONE addition proved with four ALU lanes (the prover reduces the lanes of a
            // one-op table and re-derives its prover data: the proof's own stark_common then
            // differs from the CircuitProverData it was asked to prove with)
            let n_add = if idx == 0 || idx == 2 { 0 } else { 24 * idx };
            let constant = if inst == 0 { 3 } else { 11 };
            let tp = TablePacking::new(1, if idx == 2 { 4 } else { 1 }).with_fri_params(fp.log_final_poly_len, fp.log_blowup);
            let mut b = CircuitBuilder::<F>::new();
            let expected = b.alloc_public_input("expected");
            let mut x = b.alloc_const(F::from_u32(constant), "c");
            let mut y = b.alloc_const(F::ONE, "one");
            let mut val = (F::from_u32(constant), F::ONE);
            if n_add == 0 {
                y = x;
                val.1 = val.0;
            }
            for _ in 0..n_add {
                let z = b.add(x, y);
                x = y;
                y = z;
                val = (val.1, val.0 + val.1);
            }
            b.connect(y, expected);
            if idx == 2 {
                // exactly one ALU row that constant folding cannot remove
                let _sq = b.mul(expected, expected);
            }
            let circuit = b.build().map_err(|e| format!("{e:?}"))?;
            let (ad, pc, npc) = get_airs_and_degrees_with_prep::<Cfg, F, 1>(
                &circuit,
                &tp,
                &[],
                &[],
                ConstraintProfile::Standard,
            )
            .map_err(|e| format!("{e:?}"))?;
            let (airs, degrees): (Vec<_>, Vec<_>) = ad.into_iter().unzip();
            let mut r = circuit.runner();
            r.set_public_inputs(&[val.1]).map_err(|e| format!("{e:?}"))?;
            let traces = r.run().map_err(|e| format!("{e:?}"))?;
            let pd = ProverData::from_airs_and_degrees(cfg, &airs, &degrees);
            let cpd = CircuitProverData::new(pd, pc, npc);
            let prover = BatchStarkProver::new(cfg.clone()).with_table_packing(tp);
            let proof = prover.prove_all_tables(&traces, &cpd).map_err(|e| format!("{e}"))?;
            prover
                .verify_all_tables::<F>(&proof)
                .map_err(|e| format!("base {name} does not verify: {e}"))?;
            let n = proof.proof.opened_values.instances.len();
            // As the examples do for their base proofs: wrap (proof, prover data) as a
            // RecursionOutput and convert it. The conversion must hand out the proof's own common
            // data (the prover may have re-derived them, e.g. after reducing the lanes of a one-op
            // ALU table); a different content is recorded and reported by main as a violation.
            let out = p3_recursion::RecursionOutput(proof, std::rc::Rc::new(cpd));
            {
                let inp = out.into_recursion_input::<p3_recursion::BatchOnly>();
                if let p3_recursion::RecursionInput::BatchStark { common_data, .. } = &inp {
                    let (a, b) = (common_digest(common_data), common_digest(&out.0.stark_common));
                    if a != b {
                        CONVERSION_DEFECTS.lock().unwrap().push(format!(
                            "base {name} wrapped as RecursionOutput(proof, prover data): into_recursion_input hands out common data that are not the proof's own stark_common (…{} vs …{})",
                            &a[a.len().saturating_sub(90)..],
                            &b[b.len().saturating_sub(90)..]
                        ));
                    }
                }
            }
            let p3_recursion::RecursionOutput(proof, _cpd) = out;
            Ok(ProofObj::Batch { proof, tpi: vec![vec![]; n] })
        }
        "W" => {
            // Wiring variants of one circuit shape (`p0, p1, out`: `x = p0 + p1`, then 1 (W0) /
            // 40 (W1) steps `y = y + (p0 | p1)`, `y == out`): the two "value instances" use the OTHER operand in every step. Same op kinds in the same order, same table heights - one
            // shape id (checked by main like for every base) - but other ALU operand indices in
            // the preprocessed columns, hence another preprocessed commitment (checked by main).
            let steps = if idx == 0 { 1 } else { 40 * idx };
            let tp = TablePacking::new(1, 1).with_fri_params(fp.log_final_poly_len, fp.log_blowup);
            let (v0, v1) = if inst == 0 { (3u32, 4u32) } else { (7u32, 2u32) };
            let mut b = CircuitBuilder::<F>::new();
            let p0 = b.alloc_public_input("p0");
            let p1 = b.alloc_public_input("p1");
            let out = b.alloc_public_input("out");
            let mut y = b.add(p0, p1);
            let mut val = v0 + v1;
            for _ in 0..steps {
                y = b.add(y, if inst == 0 { p0 } else { p1 });
                val += if inst == 0 { v0 } else { v1 };
            }
            b.connect(y, out);
            let circuit = b.build().map_err(|e| format!("{e:?}"))?;
            let (ad, pc, npc) =
                get_airs_and_degrees_with_prep::<Cfg, F, 1>(&circuit, &tp, &[], &[], ConstraintProfile::Standard)
                    .map_err(|e| format!("{e:?}"))?;
            let (airs, degrees): (Vec<_>, Vec<_>) = ad.into_iter().unzip();
            let mut r = circuit.runner();
            r.set_public_inputs(&[F::from_u32(v0), F::from_u32(v1), F::from_u32(val)]).map_err(|e| format!("{e:?}"))?;
            let traces = r.run().map_err(|e| format!("{e:?}"))?;
            let pd = ProverData::from_airs_and_degrees(cfg, &airs, &degrees);
            let cpd = CircuitProverData::new(pd, pc, npc);
            let prover = BatchStarkProver::new(cfg.clone()).with_table_packing(tp);
            let proof = prover.prove_all_tables(&traces, &cpd).map_err(|e| format!("{e}"))?;
            prover.verify_all_tables::<F>(&proof).map_err(|e| format!("base {name} does not verify: {e}"))?;
            let n = proof.proof.opened_values.instances.len();
            Ok(ProofObj::Batch { proof, tpi: vec![vec![]; n] })
        }
        _ => Err(format!("bad base name {name}")),
    }
}
