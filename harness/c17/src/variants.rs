//! Backend-variant axis of C17.
//!
//! The BFS and the config-boundary scenario drive ONE backend value,
//! `FriRecursionBackend::new(P2).for_extension_degree::<D>()`. The backend has more constructors
//! than that: `with_extra_poseidon2_table(cfg)` registers further Poseidon2 tables that may appear
//! in the proofs a layer verifies. Its documentation says the extra list is "de-duplicated and
//! excluding the challenger config": registering the challenger's own config (once or twice) must
//! therefore give a backend that is indistinguishable from the plain one, and registering another
//! config of the same extension degree must still give a backend whose layers chain.
//!
//! For every variant the smallest chain scenario runs through the SAME step functions and the
//! SAME oracle as the BFS (`engine::exec_l`, `engine::exec_a`, `engine::judge`): one base shape in
//! two value instances, `base -> L -> L`, the aggregation of the two depth-1 children, each with
//! and without cached preparation. Clauses (`clauses` below):
//!   * every step: no panic, `Ok`, output verifies natively, accepted by a further layer;
//!   * cached == uncached verdict per variant;
//!   * differential: a variant documented to be a no-op (`same_as`) has, step by step, the verdict
//!     AND the output shape (proof metadata + digest of the next verification circuit) of its
//!     reference variant.
//! A failure of a call under a non-reference variant - including one that surfaces in the
//! harness-side classification code (`l_circuit_id`, `a_circuit_id`, slot replay), which is not
//! wrapped in a catch inside `engine` - is a verdict about the repository (the reference variant
//! went through the same code), never a machinery error. Only failures of the `plain` variant's
//! call set-up are machinery errors.
//!
//! Nothing here shares ids with the BFS: outputs are not registered in `World`, every label, step
//! id and replay carries the variant name (`...@<variant>`).

use std::collections::BTreeMap;
use std::sync::Arc;
use std::time::Instant;

use p3_recursion::Poseidon2Config;
use vpcore::quiet_catch;
use vpcore::rayon::prelude::*;
use vpcore::serde_json::{Value, json};

use crate::engine::*;
use crate::glue::*;
use crate::objs::{ProofObj, make_base};

#[derive(Clone)]
pub struct VariantSpec {
    pub name: &'static str,
    /// arguments of the `with_extra_poseidon2_table` calls, in order
    pub extras: Vec<Poseidon2Config>,
    /// tables (other than the challenger's) the native verifier has to register for layer proofs
    pub verifier_extra: Vec<Poseidon2Config>,
    /// the variant this one is documented to be indistinguishable from
    pub same_as: Option<&'static str>,
    pub what: &'static str,
}

pub const W32: Poseidon2Config = Poseidon2Config::KOALA_BEAR_D4_W32;

/// All variants; the reference of a variant precedes it.
pub fn all_variants() -> Vec<VariantSpec> {
    vec![
        VariantSpec { name: "plain", extras: vec![], verifier_extra: vec![], same_as: None, what: "FriRecursionBackend::new(P2)" },
        VariantSpec {
            name: "extra_eq_challenger_x1",
            extras: vec![P2],
            verifier_extra: vec![],
            same_as: Some("plain"),
            what: "new(P2).with_extra_poseidon2_table(P2): the extra table IS the challenger's table",
        },
        VariantSpec {
            name: "extra_eq_challenger_x2",
            extras: vec![P2, P2],
            verifier_extra: vec![],
            same_as: Some("plain"),
            what: "new(P2).with_extra_poseidon2_table(P2).with_extra_poseidon2_table(P2)",
        },
        VariantSpec {
            name: "extra_w32",
            extras: vec![W32],
            verifier_extra: vec![W32],
            same_as: None,
            what: "new(P2).with_extra_poseidon2_table(KOALA_BEAR_D4_W32): another table of the same extension degree (the arity-4 example's layer>=2 backend)",
        },
        VariantSpec {
            name: "extra_w32_x2_and_challenger",
            extras: vec![W32, P2, W32],
            verifier_extra: vec![W32],
            same_as: Some("extra_w32"),
            what: "with_extra_poseidon2_table(W32), (P2), (W32): repeats and the challenger's own config next to a real extra table",
        },
    ]
}

/// Variants the registered tiers run next to `plain`. `extra_w32`: this harness's config keeps
/// its MMCS on the W16 permutation, so the W32 table of a layer proof is empty and left out of
/// the proof, and the backend's in-circuit verifier then refuses that proof ("non-primitive
/// table count mismatch: expected 3, got 2") although it verifies natively - a recorded known
/// finding (known_findings.json, `backend_variant:extra_w32:*:not_chainable`). The variant
/// `extra_w32_x2_and_challenger` repeats it and stays opt-in (`--opt variants=...`).
pub const DEFAULT_VARIANTS: [&str; 3] = ["extra_eq_challenger_x1", "extra_eq_challenger_x2", "extra_w32"];

/// Variants of a tier / selection, closed under `same_as`.
pub fn select(names: Option<&[&str]>) -> Vec<VariantSpec> {
    let all = all_variants();
    let names = names.unwrap_or(&DEFAULT_VARIANTS);
    let mut want: Vec<&str> = vec!["plain"];
    for n in names {
        let mut cur = Some(*n);
        while let Some(c) = cur {
            if !want.contains(&c) {
                want.push(c);
            }
            cur = all.iter().find(|v| v.name == c).and_then(|v| v.same_as);
        }
    }
    all.into_iter().filter(|v| want.contains(&v.name)).collect()
}

/// Steps of the scenario, in dependency order. `c0`/`c1` are the outputs of `L1a`/`L1b`.
pub const STEPS: [&str; 8] = ["L1a", "L1b", "L1b_cached", "L2", "L2_cached", "A", "A_empty_slot", "A_filled_slot"];
/// (cached step, its uncached twin)
pub const TWINS: [(&str, &str); 4] = [("L1b_cached", "L1b"), ("L2_cached", "L2"), ("A_empty_slot", "A"), ("A_filled_slot", "A")];

pub struct StepRes {
    pub variant: &'static str,
    pub base: String,
    pub step: &'static str,
    pub call: String,
    pub verdict: Verdict,
    /// the failure happened outside the judged API call: in the classification / cache
    /// materialisation code of the step function
    pub in_setup: bool,
    /// proof metadata + digest of the next verification circuit of the output
    pub out_shape: Option<String>,
    pub same_circuit_cache: Option<bool>,
    pub secs: f64,
}

pub struct VariantRun {
    pub variants: Vec<VariantSpec>,
    pub bases: Vec<String>,
    pub steps: Vec<StepRes>,
    pub skipped_for_budget: usize,
    /// steps not run because the step that produces their input did not produce it
    pub not_reached: usize,
    pub wall_s: f64,
}

fn p_label(p: usize) -> String {
    format!("P{p}")
}

fn describe(step: &str, base: &str, variant: &str, p: usize) -> String {
    let q = p_label(p);
    let body = match step {
        "L1a" => format!("L[{q}]({base}#0; cache=none)"),
        "L1b" => format!("L[{q}]({base}#1; cache=none)"),
        "L1b_cached" => format!("L[{q}]({base}#1; cache=prep[{q}] for L({base}#0))"),
        "L2" => format!("L[{q}](L({base}#1); cache=none)"),
        "L2_cached" => format!("L[{q}](L({base}#1); cache=prep[{q}] for L(L({base}#0)))"),
        "A" => format!("A[{q}](L({base}#0), L({base}#1); cache=none)"),
        "A_empty_slot" => format!("A[{q}](L({base}#0), L({base}#1); cache=empty slot)"),
        _ => format!("A[{q}](L({base}#0), L({base}#1); cache=slot after A[{q}](L({base}#0), L({base}#1)))"),
    };
    format!("{body} @backend={variant}")
}

type Shared = Arc<ProofObj>;

struct Done {
    res: StepRes,
    output: Option<Shared>,
    slot_key_after: Option<String>,
}

/// Runs one step function under a catch: `Err(String)` and panics of the step function itself
/// (outside its own `quiet_catch`) become a verdict with `in_setup`.
fn guarded(
    variant: &'static str,
    base: &str,
    step: &'static str,
    p: usize,
    f: impl FnOnce() -> Result<(Outcome, Option<String>), String>,
) -> Done {
    let t0 = Instant::now();
    let call = describe(step, base, variant, p);
    let mk = |verdict: Verdict, in_setup: bool, out_shape, same, secs| StepRes {
        variant,
        base: base.to_string(),
        step,
        call: call.clone(),
        verdict,
        in_setup,
        out_shape,
        same_circuit_cache: same,
        secs,
    };
    match quiet_catch(f) {
        Err(panic) => Done {
            res: mk(Verdict::Panic(format!("in the step function, outside the judged call: {panic}")), true, None, None, t0.elapsed().as_secs_f64()),
            output: None,
            slot_key_after: None,
        },
        Ok(Err(e)) => Done {
            res: mk(Verdict::Err(format!("in the step function, outside the judged call: {e}")), true, None, None, t0.elapsed().as_secs_f64()),
            output: None,
            slot_key_after: None,
        },
        Ok(Ok((o, key))) => {
            let same = if o.facts.given { Some(o.facts.same_circuit && o.facts.same_params) } else { None };
            let (shape, output) = match o.output {
                Some((obj, tag, _cnt, dig)) => (Some(format!("{tag}|L={dig:016x}")), Some(Arc::new(obj))),
                None => (None, None),
            };
            Done { res: mk(o.verdict, false, shape, same, o.secs), output, slot_key_after: key }
        }
    }
}

/// Runs the scenario for `variants` x `bases`. `mk_env(spec)` builds the environment of a variant
/// (same config, FRI parameters and params alphabet as the BFS; only the backend differs).
pub fn run(
    variants: &[VariantSpec],
    bases: &[String],
    mk_env: &(dyn Fn(&VariantSpec) -> Env + Sync),
    out_of_time: &(dyn Fn() -> bool + Sync),
) -> Result<VariantRun, String> {
    let t0 = Instant::now();
    let p = 0usize;
    let envs: Vec<Env> = variants.iter().map(|v| mk_env(v)).collect();
    // base proofs do not depend on the backend: made once, shared by all variants
    let plain_env = &envs[0];
    let mut base_objs: BTreeMap<String, [Shared; 2]> = BTreeMap::new();
    for b in bases {
        let mk = |inst: usize| -> Result<Shared, String> {
            quiet_catch(|| make_base(b, inst, &plain_env.cfg, &plain_env.fri))
                .map_err(|p| format!("base {b} panicked: {p}"))?
                .map(Arc::new)
        };
        base_objs.insert(b.clone(), [mk(0)?, mk(1)?]);
    }
    let mut skipped = 0usize;
    let mut not_reached = 0usize;
    let mut steps: Vec<StepRes> = vec![];

    // ---- stage 1: the depth-1 layers -------------------------------------------------------
    let jobs1: Vec<(usize, &String, &'static str)> = (0..variants.len())
        .flat_map(|vi| bases.iter().flat_map(move |b| ["L1a", "L1b", "L1b_cached"].into_iter().map(move |s| (vi, b, s))))
        .collect();
    let done1: Vec<Option<Done>> = jobs1
        .par_iter()
        .with_max_len(1)
        .map(|(vi, b, step)| {
            if out_of_time() {
                return None;
            }
            let (env, v) = (&envs[*vi], &variants[*vi]);
            let [b0, b1] = &base_objs[*b];
            Some(guarded(v.name, b.as_str(), *step, p, || {
                let o = match *step {
                    "L1a" => exec_l(env, b0, None, p)?,
                    "L1b" => exec_l(env, b1, None, p)?,
                    _ => exec_l(env, b1, Some((&**b0, p)), p)?,
                };
                Ok((o, None))
            }))
        })
        .collect();
    let mut children: BTreeMap<(usize, String), (Option<Shared>, Option<Shared>)> = BTreeMap::new();
    for ((vi, b, step), d) in jobs1.iter().zip(done1) {
        let Some(d) = d else {
            skipped += 1;
            continue;
        };
        let e = children.entry((*vi, (*b).clone())).or_insert((None, None));
        match *step {
            "L1a" => e.0 = d.output.clone(),
            "L1b" => e.1 = d.output.clone(),
            _ => {}
        }
        steps.push(d.res);
    }

    // ---- stage 2: the depth-2 layer and the aggregation of the two children --------------------
    let mut jobs2: Vec<(usize, &String, &'static str, Shared, Shared)> = vec![];
    for vi in 0..variants.len() {
        for b in bases {
            match children.get(&(vi, b.clone())) {
                Some((Some(c0), Some(c1))) => {
                    for s in ["L2", "L2_cached", "A", "A_slots"] {
                        jobs2.push((vi, b, s, c0.clone(), c1.clone()));
                    }
                }
                Some(_) => not_reached += 5,
                None => {}
            }
        }
    }
    let done2: Vec<Vec<Done>> = jobs2
        .par_iter()
        .with_max_len(1)
        .map(|(vi, b, step, c0, c1)| {
            if out_of_time() {
                return vec![];
            }
            let (env, v) = (&envs[*vi], &variants[*vi]);
            let b = b.as_str();
            match *step {
                "L2" => vec![guarded(v.name, b, "L2", p, || Ok((exec_l(env, c1, None, p)?, None)))],
                "L2_cached" => vec![guarded(v.name, b, "L2_cached", p, || Ok((exec_l(env, c1, Some((&**c0, p)), p)?, None)))],
                "A" => vec![guarded(v.name, b, "A", p, || Ok((exec_a(env, c0, c1, None, p, false)?.outcome, None)))],
                _ => {
                    let first = guarded(v.name, b, "A_empty_slot", p, || {
                        let empty: &[SlotStep<'_>] = &[];
                        let r = exec_a(env, c0, c1, Some((empty, None)), p, false)?;
                        Ok((r.outcome, r.slot_key_after))
                    });
                    let key = first.slot_key_after.clone();
                    let mut v2 = vec![first];
                    if key.is_some() && !out_of_time() {
                        v2.push(guarded(v.name, b, "A_filled_slot", p, || {
                            let hist = [SlotStep { left: c0, right: c1, p, cross: false }];
                            let r = exec_a(env, c0, c1, Some((&hist[..], key.as_deref())), p, false)?;
                            Ok((r.outcome, r.slot_key_after))
                        }));
                    }
                    v2
                }
            }
        })
        .collect();
    for ((_, _, step, _, _), ds) in jobs2.iter().zip(done2) {
        let expected = if *step == "A_slots" { 2 } else { 1 };
        if ds.is_empty() {
            skipped += expected;
            continue;
        }
        if ds.len() < expected {
            // the empty-slot call left nothing in the slot (it failed) or the budget ran out
            if ds[0].res.verdict == Verdict::Good { skipped += 1 } else { not_reached += 1 }
        }
        for d in ds {
            steps.push(d.res);
        }
    }
    let order = |s: &StepRes| {
        (
            bases.iter().position(|b| *b == s.base).unwrap_or(0),
            variants.iter().position(|v| v.name == s.variant).unwrap_or(0),
            STEPS.iter().position(|x| *x == s.step).unwrap_or(0),
        )
    };
    steps.sort_by_key(order);
    Ok(VariantRun {
        variants: variants.to_vec(),
        bases: bases.to_vec(),
        steps,
        skipped_for_budget: skipped,
        not_reached,
        wall_s: t0.elapsed().as_secs_f64(),
    })
}

fn sym(v: &Verdict) -> Option<&'static str> {
    match v {
        Verdict::Good => None,
        Verdict::Err(_) => Some("err"),
        Verdict::Panic(_) => Some("panic"),
        Verdict::NonVerifying(_) => Some("non_verifying"),
        Verdict::NotChainable(_) => Some("not_chainable"),
    }
}

fn replay_of(variant: &str, base: &str) -> Value {
    json!({"backend_variant": {"variant": variant, "base": base}})
}

/// A failure of the reference variant's call SET-UP (not of the judged call) is a harness problem.
pub fn machinery_problem(run: &VariantRun) -> Option<String> {
    run.steps
        .iter()
        .find(|s| s.variant == "plain" && s.in_setup)
        .map(|s| format!("{}: {} {}", s.call, s.verdict.tag(), s.verdict.detail()))
}

/// (size, key, description, replay) of every broken clause.
pub fn clauses(run: &VariantRun) -> Vec<(usize, String, String, Value)> {
    let mut out = vec![];
    let find = |variant: &str, base: &str, step: &str| run.steps.iter().find(|s| s.variant == variant && s.base == base && s.step == step);
    let cut = |s: &str| s.chars().take(200).collect::<String>();
    for s in &run.steps {
        let size = run.bases.iter().position(|b| *b == s.base).unwrap_or(0) * 100 + STEPS.iter().position(|x| *x == s.step).unwrap_or(0);
        let spec = run.variants.iter().find(|v| v.name == s.variant);
        // (1) the step itself
        if let Some(sy) = sym(&s.verdict) {
            out.push((
                size,
                format!("backend_variant:{}:{}:{}{sy}", s.variant, s.step, if s.in_setup { "setup_" } else { "" }),
                format!(
                    "{} -> {}: {} [backend: {}]",
                    s.call,
                    s.verdict.tag(),
                    cut(&s.verdict.detail()),
                    spec.map(|v| v.what).unwrap_or("")
                ),
                replay_of(s.variant, &s.base),
            ));
        }
        // (2) cached == uncached
        if let Some((_, twin)) = TWINS.iter().find(|(c, _)| *c == s.step) {
            if let Some(t) = find(s.variant, &s.base, twin) {
                if (s.verdict == Verdict::Good) != (t.verdict == Verdict::Good) {
                    out.push((
                        size,
                        format!("backend_variant:{}:cached_vs_uncached:{}:{}_vs_{}", s.variant, s.step, s.verdict.tag(), t.verdict.tag()),
                        format!("{} gives {} but {} gives {}", s.call, s.verdict.tag(), t.call, t.verdict.tag()),
                        replay_of(s.variant, &s.base),
                    ));
                }
            }
        }
        // (3) differential against the variant this one is documented to equal
        if let Some(r) = spec.and_then(|v| v.same_as) {
            if let Some(t) = find(r, &s.base, s.step) {
                if s.verdict.tag() != t.verdict.tag() {
                    out.push((
                        size,
                        format!("backend_variant:{}:{}:verdict_differs_from_{r}:{}_vs_{}", s.variant, s.step, s.verdict.tag(), t.verdict.tag()),
                        format!(
                            "{} gives {} ({}) but the same step under the backend '{r}' gives {}; the variant is documented to behave like '{r}' [{}]",
                            s.call,
                            s.verdict.tag(),
                            cut(&s.verdict.detail()),
                            t.verdict.tag(),
                            spec.map(|v| v.what).unwrap_or("")
                        ),
                        replay_of(s.variant, &s.base),
                    ));
                } else if s.out_shape != t.out_shape {
                    out.push((
                        size,
                        format!("backend_variant:{}:{}:output_shape_differs_from_{r}", s.variant, s.step),
                        format!(
                            "{}: the output's shape (proof metadata + next verification circuit) is not the one produced under the backend '{r}': …{} vs …{}",
                            s.call,
                            s.out_shape.as_deref().map(|x| &x[x.len().saturating_sub(90)..]).unwrap_or("-"),
                            t.out_shape.as_deref().map(|x| &x[x.len().saturating_sub(90)..]).unwrap_or("-"),
                        ),
                        replay_of(s.variant, &s.base),
                    ));
                }
            }
        }
    }
    out
}

pub struct VariantCounts {
    pub transitions: u64,
    pub states: u64,
    pub compared: u64,
}

pub fn evidence(run: &VariantRun) -> (Value, VariantCounts) {
    let find = |variant: &str, base: &str, step: &str| run.steps.iter().find(|s| s.variant == variant && s.base == base && s.step == step);
    let mut verdicts: BTreeMap<String, u64> = BTreeMap::new();
    let mut per_variant = vec![];
    let mut cached_pairs = 0u64;
    let mut diff_pairs = 0u64;
    let mut diff_equal = 0u64;
    for v in &run.variants {
        let mine: Vec<&StepRes> = run.steps.iter().filter(|s| s.variant == v.name).collect();
        let mut h: BTreeMap<String, u64> = BTreeMap::new();
        for s in &mine {
            *h.entry(s.verdict.tag().to_string()).or_default() += 1;
            *verdicts.entry(format!("{}:{} -> {}", v.name, s.step, s.verdict.tag())).or_default() += 1;
            if let Some((_, t)) = TWINS.iter().find(|(c, _)| *c == s.step) {
                if find(v.name, &s.base, t).is_some() {
                    cached_pairs += 1;
                }
            }
            if let Some(r) = v.same_as {
                if let Some(t) = find(r, &s.base, s.step) {
                    diff_pairs += 1;
                    if t.verdict.tag() == s.verdict.tag() && t.out_shape == s.out_shape {
                        diff_equal += 1;
                    }
                }
            }
        }
        per_variant.push(json!({
            "variant": v.name,
            "backend": v.what,
            "extra_poseidon2_tables_registered": v.extras.iter().map(|c| format!("{c:?}")).collect::<Vec<_>>(),
            "native_verifier_extra_tables": v.verifier_extra.iter().map(|c| format!("{c:?}")).collect::<Vec<_>>(),
            "documented_equal_to": v.same_as,
            "steps_executed": mine.len(),
            "verdicts": h,
            "cached_steps_on_the_same_circuit": mine.iter().filter(|s| s.same_circuit_cache == Some(true)).count(),
            "cpu_s": (mine.iter().map(|s| s.secs).sum::<f64>() * 10.0).round() / 10.0,
        }));
    }
    let samples: Vec<Value> = run
        .steps
        .iter()
        .filter(|s| s.base == run.bases[0] && (s.variant != "plain" || s.step == "L2" || s.step == "A_filled_slot"))
        .filter(|s| matches!(s.step, "L1b_cached" | "L2" | "A_filled_slot") || s.verdict != Verdict::Good)
        .take(16)
        .map(|s| json!({"call": s.call, "verdict": s.verdict.tag(), "detail": s.verdict.detail().chars().take(120).collect::<String>(),
                        "output_shape_digest": s.out_shape.as_ref().map(|x| format!("{:016x}", fnv64(x.as_bytes()))), "secs": (s.secs * 1000.0).round() / 1000.0}))
        .collect();
    let outputs = run.steps.iter().filter(|s| s.out_shape.is_some()).count() as u64;
    let ev = json!({
        "scenario": "per backend variant and base shape (two value instances #0/#1): L1a=L(base#0) L1b=L(base#1) L1b_cached L2=L(L(base#1)) L2_cached A=A(L(base#0),L(base#1)) A_empty_slot A_filled_slot; same step functions and oracle as the BFS",
        "variants": run.variants.len(),
        "variant_names": run.variants.iter().map(|v| v.name).collect::<Vec<_>>(),
        "bases": run.bases,
        "steps_per_variant_and_base": STEPS.len(),
        "steps_executed": run.steps.len(),
        "steps_not_reached_after_a_failed_step": run.not_reached,
        "steps_skipped_for_budget": run.skipped_for_budget,
        "cached_vs_uncached_pairs_compared": cached_pairs,
        "differential_pairs_compared": diff_pairs,
        "differential_pairs_equal_verdict_and_shape": diff_equal,
        "per_variant": per_variant,
        "verdicts_by_variant_and_step": verdicts,
        "wall_s": (run.wall_s * 10.0).round() / 10.0,
        "samples": samples,
    });
    (
        ev,
        VariantCounts {
            transitions: run.steps.len() as u64,
            // one history per (variant, base): the initial state plus one state per produced proof
            states: outputs + (run.variants.len() * run.bases.len()) as u64,
            compared: cached_pairs + diff_pairs,
        },
    )
}
