fn main() {
    eprintln!("MACHINERY-ERROR: check c18 not built yet");
    std::process::exit(2);
}
