//! Case model shared by the driver and the workers.
//!
//! A *job* is one circuit (`Spec`); its *scripts* are derived from the built circuit by the
//! deterministic function `scripts_for`, so driver and workers (two profiles) enumerate exactly
//! the same list without shipping it (a hash of the list is echoed back and compared).
//! A script is a sequence of setter calls on a fresh `CircuitRunner` followed by `run()`.

use p3_baby_bear::{BabyBear, default_babybear_poseidon2_16, default_babybear_poseidon2_32};
use p3_circuit::ops::{
    BabyBearD1Width16, NpoPrivateData, Poseidon2Config, Poseidon2PermCall,
    Poseidon2PermPrivateData, generate_poseidon2_trace, generate_recompose_trace,
};
use p3_circuit::ops::poseidon2_perm::Poseidon2PermCallBase;
use p3_circuit::{Circuit, CircuitBuilder, ExprId, NonPrimitiveOpId, Op, WitnessId};
use p3_field::extension::BinomialExtensionField;
use p3_field::{BasedVectorSpace, ExtensionField, Field, PrimeCharacteristicRing, PrimeField64};
use p3_poseidon2_circuit_air::{BabyBearD4Width16, BabyBearD4Width32};
use p3_symmetric::Permutation;
use serde::{Deserialize, Serialize};
use p3_circuit::expr::Expr;
use vpe1::prog::{Program, materialize};

pub type BF = BabyBear;
pub type E4 = BinomialExtensionField<BabyBear, 4>;
/// basis coefficients (canonical); shorter than D = padded with zeros
pub type Val = Vec<u64>;

pub const P: u64 = 2013265921; // BabyBear modulus

pub fn e1_consts() -> Vec<BF> {
    vec![BF::ZERO, BF::ONE, BF::from_u64(5), BF::from_u64(7)]
}

#[derive(Clone, Debug, Serialize, Deserialize, PartialEq)]
pub enum Spec {
    /// catalogue circuit by name
    Cat(String),
    /// E1 builder program with the satisfying baseline found by the driver
    E1 {
        prog: Program,
        pubs: Vec<u64>,
        privs: Vec<u64>,
    },
}

impl Spec {
    pub fn show(&self) -> String {
        match self {
            Spec::Cat(n) => n.clone(),
            Spec::E1 { prog, .. } => format!("e1[{}]", prog.show().trim_end()),
        }
    }
}

#[derive(Clone, Debug)]
pub enum Step {
    Pub(Vec<Val>),
    Priv(Vec<Val>),
    Data { op: u32, sibling: Vec<Val> },
}

/// What the property demands of a script.
#[derive(Clone, Copy, Debug, PartialEq, Eq)]
pub enum Expect {
    /// all inputs present and satisfying: `Ok` in both profiles
    MustOk,
    /// not a fault by the property's text (duplicate equal call, order, unconstrained value,
    /// ignored surplus): only profile agreement and no panic are demanded
    Benign,
    /// missing-by-length / extra / conflicting: `Err` in both profiles, same variant
    MustErr,
    /// a setter was not called: `Err` (same variant) in both profiles, or - when the circuit
    /// itself forces the withheld slots (connect to a constant, backwards-solved operand) -
    /// `Ok` with exactly the baseline's witness values
    Withheld,
}

#[derive(Clone, Debug)]
pub struct Script {
    /// fault pattern with its parameters, e.g. `pub_change(1,3)`
    pub name: String,
    /// fault class (name without parameters)
    pub fault: &'static str,
    pub expect: Expect,
    pub steps: Vec<Step>,
}

#[derive(Clone, Copy, PartialEq, Eq)]
pub enum Tri {
    Sat,
    Unsat,
    Unknown,
}

pub struct Built<F: Field> {
    pub circuit: Circuit<F>,
    pub pubs: Vec<Val>,
    pub privs: Vec<Val>,
    /// (NonPrimitiveOpId, sibling limbs) of every op that receives private data
    pub data: Vec<(u32, Vec<Val>)>,
    /// do the asserted relations hold for this (complete) input vector?
    pub classify: Box<dyn Fn(&[Val], &[Val]) -> Tri>,
    /// replacement values tried at a single position
    pub alts: Box<dyn Fn(&Val) -> Vec<Val>>,
    /// a changed / shortened sibling must be caught (root is checked)
    pub tight_data: bool,
    /// circuit specific scripts
    pub extra: Vec<Script>,
}

pub trait CField: Field + ExtensionField<BF> + Send + Sync + 'static {}
impl<T: Field + ExtensionField<BF> + Send + Sync + 'static> CField for T {}

pub fn to_f<F: CField>(v: &Val) -> F {
    <F as BasedVectorSpace<BF>>::from_basis_coefficients_fn(|i| BF::from_u64(v.get(i).copied().unwrap_or(0)))
}
pub fn of_f<F: CField>(x: &F) -> Val {
    <F as BasedVectorSpace<BF>>::as_basis_coefficients_slice(x).iter().map(|c| c.as_canonical_u64()).collect()
}
fn conv<F: CField>(v: &[Val]) -> Vec<F> {
    v.iter().map(to_f::<F>).collect()
}

pub trait Visitor<R> {
    fn go<F: CField>(self, b: Built<F>) -> R;
}

/// Build the circuit of a spec in this process (this profile) and hand it to the visitor.
pub fn with_built<R>(spec: &Spec, v: impl Visitor<R>) -> Result<R, String> {
    match spec {
        Spec::E1 { prog, pubs, privs } => Ok(v.go(build_e1(prog, pubs, privs)?)),
        Spec::Cat(name) => {
            if let Some(b) = cat_bb(name) {
                return Ok(v.go(b?));
            }
            if let Some(b) = cat_e4(name) {
                return Ok(v.go(b?));
            }
            Err(format!("unknown catalogue circuit {name}"))
        }
    }
}

// ---------------------------------------------------------------------------------------
// E1 programs

pub fn e1_alphabet() -> Vec<u64> {
    vec![0, 1, 2, 3, P - 1]
}

/// Node-level reference semantics of the compiler input (DAG nodes + connects), extended by the
/// one hint E1 programs use (bit decomposition: output k of a call on x is bit k of x).
/// It is a function of the DAG alone, so every program with the same canonical key is
/// classified alike (the call-level `ref_eval` is not: the builder folds `x/x` to 1, and the
/// explorer keeps whichever of several equivalent call sequences it meets first).
pub fn dag_classify(nodes: &[Expr<BF>], connects: &[(ExprId, ExprId)], pubs: &[u64], privs: &[u64]) -> Tri {
    let mut v: Vec<Option<BF>> = Vec::with_capacity(nodes.len());
    let mut undefined = false;
    for n in nodes {
        let g = |e: &ExprId| v[e.0 as usize];
        let x = match n {
            Expr::Const(c) => Some(*c),
            Expr::Public(p) => pubs.get(*p).map(|x| BF::from_u64(*x)),
            Expr::PrivateInput(p) => privs.get(*p).map(|x| BF::from_u64(*x)),
            Expr::Add { lhs, rhs } => g(lhs).zip(g(rhs)).map(|(a, b)| a + b),
            Expr::Sub { lhs, rhs } => g(lhs).zip(g(rhs)).map(|(a, b)| a - b),
            Expr::Mul { lhs, rhs } => g(lhs).zip(g(rhs)).map(|(a, b)| a * b),
            Expr::Div { lhs, rhs } => match g(lhs).zip(g(rhs)) {
                Some((a, b)) if b != BF::ZERO => Some(a * b.inverse()),
                Some(_) => {
                    undefined = true;
                    None
                }
                None => None,
            },
            Expr::HornerAcc { acc, alpha, p_at_z, p_at_x } => match (g(acc), g(alpha), g(p_at_z), g(p_at_x)) {
                (Some(a), Some(al), Some(z), Some(x)) => Some(a * al + z - x),
                _ => None,
            },
            Expr::BoolCheck { val } => g(val),
            Expr::MulAdd { a, b, c } => match (g(a), g(b), g(c)) {
                (Some(a), Some(b), Some(c)) => Some(a * b + c),
                _ => None,
            },
            Expr::NonPrimitiveCall { .. } => None,
            Expr::NonPrimitiveOutput { call, output_idx } => match &nodes[call.0 as usize] {
                Expr::NonPrimitiveCall { inputs, .. } if inputs.len() == 1 => g(&inputs[0])
                    .map(|x| BF::from_bool((x.as_canonical_u64() >> *output_idx) & 1 == 1)),
                _ => None,
            },
        };
        v.push(x);
    }
    if undefined || v.iter().zip(nodes).any(|(x, n)| x.is_none() && !matches!(n, Expr::NonPrimitiveCall { .. })) {
        return Tri::Unknown;
    }
    if vpe1::prog::node_rels_hold(nodes, connects, &v) { Tri::Sat } else { Tri::Unsat }
}

fn build_e1(prog: &Program, pubs: &[u64], privs: &[u64]) -> Result<Built<BF>, String> {
    let m = materialize::<BF, BF>(prog, &e1_consts())?;
    if m.n_pub != pubs.len() || m.n_priv != privs.len() {
        return Err("baseline arity mismatch".into());
    }
    let (nodes, connects) = (m.nodes.clone(), m.connects.clone());
    let circuit = m.builder.build().map_err(|e| format!("build: {e:?}"))?;
    Ok(Built {
        circuit,
        pubs: pubs.iter().map(|x| vec![*x]).collect(),
        privs: privs.iter().map(|x| vec![*x]).collect(),
        data: vec![],
        classify: Box::new(move |p, v| {
            let p: Vec<u64> = p.iter().map(|x| x[0]).collect();
            let v: Vec<u64> = v.iter().map(|x| x[0]).collect();
            dag_classify(&nodes, &connects, &p, &v)
        }),
        alts: Box::new(|cur| {
            e1_alphabet().into_iter().filter(|a| *a != cur[0]).map(|a| vec![a]).collect()
        }),
        tight_data: false,
        extra: vec![],
    })
}

// ---------------------------------------------------------------------------------------
// script derivation

fn steps(pubs: Option<&[Val]>, privs: Option<&[Val]>, data: &[(u32, Vec<Val>)]) -> Vec<Step> {
    let mut s = vec![];
    if let Some(p) = pubs {
        s.push(Step::Pub(p.to_vec()));
    }
    if let Some(v) = privs {
        s.push(Step::Priv(v.to_vec()));
    }
    for (op, sib) in data {
        s.push(Step::Data { op: *op, sibling: sib.clone() });
    }
    s
}

pub fn scripts_for<F: Field>(b: &Built<F>) -> Vec<Script> {
    let (pb, pv, dt) = (&b.pubs, &b.privs, &b.data);
    let mut out: Vec<Script> = vec![];
    let mut add = |name: String, fault: &'static str, expect: Expect, steps: Vec<Step>| {
        out.push(Script { name, fault, expect, steps })
    };
    add("baseline".into(), "baseline", Expect::MustOk, steps(Some(pb), Some(pv), dt));
    // call order is irrelevant
    {
        let mut s = steps(None, None, dt);
        s.push(Step::Priv(pv.clone()));
        s.push(Step::Pub(pb.clone()));
        add("order_reversed".into(), "order_reversed", Expect::Benign, s);
    }
    // not calling a setter whose vector is empty is not a fault
    if pb.is_empty() {
        add("no_pub_call_empty".into(), "no_call_empty", Expect::Benign, steps(None, Some(pv), dt));
    }
    if pv.is_empty() {
        add("no_priv_call_empty".into(), "no_call_empty", Expect::Benign, steps(Some(pb), None, dt));
    }
    // withheld: the setter is never called
    if !pb.is_empty() {
        add("no_pub".into(), "no_pub", Expect::Withheld, steps(None, Some(pv), dt));
    }
    if !pv.is_empty() {
        add("no_priv".into(), "no_priv", Expect::Withheld, steps(Some(pb), None, dt));
    }
    if !pb.is_empty() && !pv.is_empty() {
        add("no_inputs".into(), "no_inputs", Expect::Withheld, steps(None, None, dt));
    }
    for i in 0..dt.len() {
        let mut d = dt.clone();
        d.remove(i);
        add(format!("no_data({i})"), "no_data", Expect::Withheld, steps(Some(pb), Some(pv), &d));
    }
    if dt.len() > 1 {
        add("no_data(all)".into(), "no_data", Expect::Withheld, steps(Some(pb), Some(pv), &[]));
    }
    // wrong length
    let one: Val = vec![1];
    if !pb.is_empty() {
        add("pub_short".into(), "pub_short", Expect::MustErr, steps(Some(&pb[..pb.len() - 1]), Some(pv), dt));
    }
    {
        let mut l = pb.clone();
        l.push(one.clone());
        add("pub_long".into(), "pub_long", Expect::MustErr, steps(Some(&l), Some(pv), dt));
    }
    if !pv.is_empty() {
        add("priv_short".into(), "priv_short", Expect::MustErr, steps(Some(pb), Some(&pv[..pv.len() - 1]), dt));
    }
    {
        let mut l = pv.clone();
        l.push(one.clone());
        add("priv_long".into(), "priv_long", Expect::MustErr, steps(Some(pb), Some(&l), dt));
    }
    // set twice, equal values
    if !pb.is_empty() {
        let mut s = vec![Step::Pub(pb.clone())];
        s.extend(steps(Some(pb), Some(pv), dt));
        add("pub_twice_equal".into(), "twice_equal", Expect::Benign, s);
    }
    if !pv.is_empty() {
        let mut s = vec![Step::Priv(pv.clone())];
        s.extend(steps(Some(pb), Some(pv), dt));
        add("priv_twice_equal".into(), "twice_equal", Expect::Benign, s);
    }
    // set twice, second call differs at one position: conflicts with the stored value
    for i in 0..pb.len() {
        let Some(a) = (b.alts)(&pb[i]).into_iter().next() else { continue };
        let mut q = pb.clone();
        q[i] = a;
        let mut s = vec![Step::Pub(pb.clone())];
        s.extend(steps(Some(&q), Some(pv), dt));
        add(format!("pub_twice_diff({i})"), "pub_twice_diff", Expect::MustErr, s);
    }
    for i in 0..pv.len() {
        let Some(a) = (b.alts)(&pv[i]).into_iter().next() else { continue };
        let mut q = pv.clone();
        q[i] = a;
        let mut s = vec![Step::Priv(pv.clone())];
        s.extend(steps(Some(pb), Some(&q), dt));
        add(format!("priv_twice_diff({i})"), "priv_twice_diff", Expect::MustErr, s);
    }
    // one position holds another value
    let expect_of = |t: Tri| match t {
        Tri::Sat => Expect::MustOk,
        Tri::Unsat => Expect::MustErr,
        Tri::Unknown => Expect::Benign,
    };
    for i in 0..pb.len() {
        for a in (b.alts)(&pb[i]) {
            let mut q = pb.clone();
            q[i] = a.clone();
            let e = expect_of((b.classify)(&q, pv));
            let fault = match e {
                Expect::MustErr => "pub_conflict",
                Expect::MustOk => "pub_other_valid",
                _ => "pub_other_value",
            };
            add(format!("pub_change({i},{a:?})"), fault, e, steps(Some(&q), Some(pv), dt));
        }
    }
    for i in 0..pv.len() {
        for a in (b.alts)(&pv[i]) {
            let mut q = pv.clone();
            q[i] = a.clone();
            let e = expect_of((b.classify)(pb, &q));
            let fault = match e {
                Expect::MustErr => "priv_conflict",
                Expect::MustOk => "priv_other_valid",
                _ => "priv_other_value",
            };
            add(format!("priv_change({i},{a:?})"), fault, e, steps(Some(pb), Some(&q), dt));
        }
    }
    // private data
    for i in 0..dt.len() {
        let mut s = steps(Some(pb), Some(pv), dt);
        s.push(Step::Data { op: dt[i].0, sibling: dt[i].1.clone() });
        add(format!("data_twice({i})"), "data_twice", Expect::MustErr, s);

        let tight = if b.tight_data { Expect::MustErr } else { Expect::Benign };
        let mut d = dt.clone();
        d[i].1.pop();
        add(format!("data_short({i})"), "data_short", tight, steps(Some(pb), Some(pv), &d));
        let mut d = dt.clone();
        d[i].1.push(vec![9, 9, 9, 9]);
        // surplus sibling limbs are ignored by the executor: not a claim of the property
        add(format!("data_long({i})"), "data_long", Expect::Benign, steps(Some(pb), Some(pv), &d));
        let mut d = dt.clone();
        if let Some(a) = d[i].1.first().and_then(|x| (b.alts)(x).into_iter().next()) {
            d[i].1[0] = a;
            add(format!("data_change({i})"), "data_conflict", tight, steps(Some(pb), Some(pv), &d));
        }
    }
    drop(add);
    out.extend(b.extra.iter().cloned());
    out
}

pub fn fnv64(bytes: &[u8]) -> u64 {
    let mut h: u64 = 0xcbf29ce484222325;
    for b in bytes {
        h ^= *b as u64;
        h = h.wrapping_mul(0x100000001b3);
    }
    h
}

pub fn scripts_hash(s: &[Script]) -> u64 {
    let mut h = 0u64;
    for x in s {
        h = h.rotate_left(7) ^ fnv64(format!("{}|{:?}", x.name, x.steps).as_bytes());
    }
    h
}

// ---------------------------------------------------------------------------------------
// execution of one script (this is what runs in both profiles)

fn variant_of(dbg: &str) -> &str {
    let end = dbg.find(|c: char| !(c.is_alphanumeric() || c == '_')).unwrap_or(dbg.len());
    &dbg[..end]
}

fn err_string(e: &p3_circuit::CircuitError, at: &str) -> String {
    let dbg = format!("{e:?}");
    let v = variant_of(&dbg).to_string();
    // the witness id of "not set" errors identifies which reader stopped (used for attribution)
    let wid = match e {
        p3_circuit::CircuitError::WitnessNotSet { witness_id } => witness_id.0.to_string(),
        p3_circuit::CircuitError::PublicInputNotSet { witness_id } => witness_id.0.to_string(),
        p3_circuit::CircuitError::WitnessNotSetForIndex { index } => index.to_string(),
        _ => String::new(),
    };
    format!("err:{v}:{at}:{wid}")
}

/// Outcome string: `ok:<digest>` | `err:<Variant>:<where>:<witness id>`; a panic is turned into
/// `panic:<msg>` by the caller, a dead process into `crash:<status>` by the driver.
pub fn exec_script<F: CField>(circuit: &Circuit<F>, s: &Script) -> String {
    let mut r = circuit.runner();
    for (i, st) in s.steps.iter().enumerate() {
        let res = match st {
            Step::Pub(v) => r.set_public_inputs(&conv::<F>(v)),
            Step::Priv(v) => r.set_private_inputs(&conv::<F>(v)),
            Step::Data { op, sibling } => r.set_private_data(
                NonPrimitiveOpId(*op),
                NpoPrivateData::new(Poseidon2PermPrivateData::<F> { sibling: conv::<F>(sibling) }),
            ),
        };
        if let Err(e) = res {
            let kind = match st {
                Step::Pub(_) => "set_public_inputs",
                Step::Priv(_) => "set_private_inputs",
                Step::Data { .. } => "set_private_data",
            };
            return err_string(&e, &format!("{kind}#{i}"));
        }
    }
    match r.run() {
        Ok(t) => {
            // digest of the *set* of witness values (insensitive to slot numbering)
            let n = t.witness_trace.num_rows();
            let mut vals: Vec<Val> = (0..n)
                .map(|i| of_f(t.witness_trace.get_value(WitnessId(i as u32)).unwrap()))
                .collect();
            vals.sort();
            vals.dedup();
            format!("ok:{:016x}", fnv64(format!("{vals:?}").as_bytes()))
        }
        Err(e) => err_string(&e, "run"),
    }
}

/// Who reads witness slot `w`, in execution order: "alu", "hint", or the family of a
/// non-primitive op (`poseidon2_perm`, `recompose`, ...). Used only to attribute a profile
/// difference: non-primitive executors never solve an operand backwards, so when the first
/// reader of a slot that the dev profile reports as `WitnessNotSet` is a non-primitive op, that
/// op's (profile dependent) witness read is where the two profiles part.
pub fn readers_of<F: Field>(circuit: &Circuit<F>, w: u32) -> Vec<String> {
    let mut out = vec![];
    for op in &circuit.ops {
        match op {
            Op::Alu { a, b, c, intermediate_out, kind, .. } => {
                let mut r = vec![a.0, b.0];
                if let Some(c) = c {
                    r.push(c.0);
                }
                if matches!(kind, p3_circuit::AluOpKind::HornerAcc)
                    && let Some(i) = intermediate_out
                {
                    r.push(i.0);
                }
                if r.contains(&w) {
                    out.push("alu".to_string());
                }
            }
            Op::Hint { inputs, .. } => {
                if inputs.iter().any(|x| x.0 == w) {
                    out.push("hint".to_string());
                }
            }
            Op::NonPrimitiveOpWithExecutor { inputs, executor, .. } => {
                if inputs.iter().flatten().any(|x| x.0 == w) {
                    let t = executor.op_type().as_str().to_string();
                    out.push(t.split('/').next().unwrap_or("npo").to_string());
                }
            }
            _ => {}
        }
    }
    out
}

// ---------------------------------------------------------------------------------------
// catalogue

pub fn catalogue(thorough: bool) -> Vec<&'static str> {
    let mut v = vec![
        // ALU only
        "alu_pub_chain",
        "alu_priv_sq",
        "alu_derive_priv",
        "alu_muladd_addend_derived_later",
        "alu_pub_is_const",
        "alu_two_pub_connected",
        "alu_div",
        "alu_free",
        // hints
        "bits_pub",
        "bits_priv",
        // Poseidon2 D=1
        "p2base_min",
        "p2base_priv",
        "p2base_pub",
        "p2base_chain",
        "p2base_unset_then_derived",
        // Poseidon2 D=4
        "p2d4_min",
        "p2d4_priv",
        "p2d4_pub",
        // the same sponge rows on the arity-4 permutation shape
        "p2d4_min@w32",
        "p2d4_priv@w32",
        // Merkle mode with private data
        "merkle_checked",
        "merkle_row_unchecked",
        "merkle_priv_leaf_bit",
        "mmcs_verify",
        // recompose
        "recompose_priv",
        "recompose_pub",
        "recompose_alu_priv",
    ];
    if thorough {
        v.extend([
            "alu_horner_priv",
            "alu_select_bits",
            "bits_priv_wide",
            "p2base_mixed",
            "p2d4_chain3",
            "p2d4_priv_expected",
            "p2d4_pub@w32",
            "p2d4_chain3@w32",
            "p2d4_priv_expected@w32",
            "mmcs_verify_tail",
            "recompose_coeff_priv",
            "recompose_then_perm",
        ]);
    }
    v
}

struct CatAcc<F: Field> {
    b: CircuitBuilder<F>,
    pubs: Vec<Val>,
    privs: Vec<Val>,
    data: Vec<(u32, Vec<Val>)>,
}
impl<F: CField> CatAcc<F> {
    fn new() -> Self {
        Self { b: CircuitBuilder::new(), pubs: vec![], privs: vec![], data: vec![] }
    }
    fn public(&mut self, v: F) -> ExprId {
        self.pubs.push(of_f(&v));
        self.b.public_input()
    }
    fn private(&mut self, v: F) -> ExprId {
        self.privs.push(of_f(&v));
        self.b.alloc_private_input("x")
    }
    fn c(&mut self, v: F) -> ExprId {
        self.b.define_const(v)
    }
    /// `pub_mode` / `priv_mode`: is every single-position change of that vector a violation
    /// of an asserted relation (Unsat), admissible (Sat) or not decided here (Unknown)?
    fn finish(self, pub_mode: Tri, priv_mode: Tri, tight_data: bool) -> Result<Built<F>, String> {
        let circuit = self.b.build().map_err(|e| format!("build: {e:?}"))?;
        let (p0, v0) = (self.pubs.clone(), self.privs.clone());
        Ok(Built {
            circuit,
            pubs: self.pubs,
            privs: self.privs,
            data: self.data,
            classify: Box::new(move |p, v| {
                if p != p0.as_slice() {
                    pub_mode
                } else if v != v0.as_slice() {
                    priv_mode
                } else {
                    Tri::Sat
                }
            }),
            // +1 on the first coefficient, and zero
            alts: Box::new(|cur| {
                let mut a = cur.clone();
                a[0] = (a[0] + 1) % P;
                let z = vec![0; cur.len()];
                if *cur == z { vec![a] } else { vec![a, z] }
            }),
            tight_data,
            extra: vec![],
        })
    }
}

fn f(x: u64) -> BF {
    BF::from_u64(x)
}

fn extra_unknown_op<F: Field>(b: &mut Built<F>) {
    let mut s = steps(Some(&b.pubs), Some(&b.privs), &b.data);
    s.push(Step::Data { op: 9999, sibling: vec![vec![1], vec![2]] });
    b.extra.push(Script {
        name: "data_unknown_op".into(),
        fault: "data_unknown_op",
        expect: Expect::MustErr,
        steps: s,
    });
}

/// circuits over the base field (D = 1)
fn cat_bb(name: &str) -> Option<Result<Built<BF>, String>> {
    let mut a = CatAcc::<BF>::new();
    let perm = default_babybear_poseidon2_16();
    let enable = |a: &mut CatAcc<BF>| {
        a.b.enable_poseidon2_perm_base::<BabyBearD1Width16, _>(
            generate_poseidon2_trace::<BF, BabyBearD1Width16>,
            default_babybear_poseidon2_16(),
        );
    };
    let r = match name {
        "alu_pub_chain" => {
            let p0 = a.public(f(2));
            let p1 = a.public(f(3));
            let p2 = a.public(f(10));
            let s = a.b.add(p0, p1);
            let m = a.b.mul(s, p0);
            a.b.connect(m, p2);
            a.finish(Tri::Unsat, Tri::Unknown, false)
        }
        "alu_priv_sq" => {
            let x = a.private(f(3));
            let p = a.public(f(1));
            let y = a.b.mul(x, x);
            let z = a.b.add(y, p);
            let c = a.c(f(10));
            a.b.connect(z, c);
            a.finish(Tri::Unsat, Tri::Unsat, false)
        }
        "alu_derive_priv" => {
            // the private operand is forced by pub0 + priv0 = 7: withholding it is harmless
            let p = a.public(f(3));
            let x = a.private(f(4));
            let h = a.b.add(p, x);
            let c = a.c(f(7));
            a.b.connect(h, c);
            a.finish(Tri::Unsat, Tri::Unsat, false)
        }
        "alu_muladd_addend_derived_later" => {
            // the private addend of a MulAdd is read BEFORE the op that could derive it
            // (q = u - v, connect(p, q)): withholding it must be an error at the MulAdd
            let x = a.public(f(3));
            let y = a.public(f(5));
            let p = a.private(f(7));
            let m = a.b.mul_add(x, y, p);
            let u = a.public(f(20));
            let v = a.public(f(13));
            let q = a.b.sub(u, v);
            a.b.connect(p, q);
            // m is left unconstrained on purpose: a run that reads the unset addend as some
            // default value would otherwise be stopped by a later conflict
            let _ = a.b.mul(m, x);
            a.finish(Tri::Unknown, Tri::Unsat, false)
        }
        "alu_pub_is_const" => {
            let p = a.public(f(5));
            let c = a.c(f(5));
            a.b.connect(p, c);
            let _ = a.b.mul(p, p);
            a.finish(Tri::Unsat, Tri::Unknown, false)
        }
        "alu_two_pub_connected" => {
            let p = a.public(f(3));
            let q = a.public(f(3));
            a.b.connect(p, q);
            let _ = a.b.add(p, q);
            a.finish(Tri::Unsat, Tri::Unknown, false)
        }
        "alu_div" => {
            let p = a.public(f(6));
            let x = a.private(f(2));
            let q = a.b.div(p, x);
            let e = a.public(f(3));
            a.b.connect(q, e);
            a.finish(Tri::Unsat, Tri::Unsat, false)
        }
        "alu_free" => {
            let p = a.public(f(2));
            let x = a.private(f(3));
            let q = a.public(f(4));
            let s = a.b.add(p, x);
            let _ = a.b.mul(s, q);
            a.finish(Tri::Sat, Tri::Sat, false)
        }
        "alu_horner_priv" => {
            let acc = a.private(f(2));
            let al = a.public(f(3));
            let z = a.private(f(5));
            let x = a.public(f(4));
            let h = a.b.horner_acc_step(acc, al, z, x);
            let e = a.public(f(7)); // 2*3 + 5 - 4
            a.b.connect(h, e);
            a.finish(Tri::Unsat, Tri::Unsat, false)
        }
        "alu_select_bits" => {
            let x = a.private(f(6));
            let bits = match a.b.decompose_to_bits::<BF>(x, 3) {
                Ok(b) => b,
                Err(e) => return Some(Err(format!("{e:?}"))),
            };
            let t = a.public(f(11));
            let s = a.public(f(13));
            let sel = a.b.select(bits[1], t, s); // bit1 of 6 = 1 -> t
            let e = a.c(f(11));
            a.b.connect(sel, e);
            // pub1 (s) is not selected: free; keep Unknown for publics
            a.finish(Tri::Unknown, Tri::Unknown, false)
        }
        "bits_pub" => {
            let p = a.public(f(11));
            if let Err(e) = a.b.decompose_to_bits::<BF>(p, 4) {
                return Some(Err(format!("{e:?}")));
            }
            let mut b = match a.finish(Tri::Sat, Tri::Unknown, false) {
                Ok(b) => b,
                Err(e) => return Some(Err(e)),
            };
            // a value that does not fit into 4 bits conflicts with the reconstruction
            b.extra.push(Script {
                name: "pub_out_of_range".into(),
                fault: "pub_conflict",
                expect: Expect::MustErr,
                steps: steps(Some(&[vec![16u64]][..]), Some(&[][..]), &[]),
            });
            Ok(b)
        }
        "bits_priv" | "bits_priv_wide" => {
            let wide = name == "bits_priv_wide";
            let x = a.private(f(if wide { 0x2d5 } else { 5 }));
            let bits = match a.b.decompose_to_bits::<BF>(x, if wide { 10 } else { 3 }) {
                Ok(b) => b,
                Err(e) => return Some(Err(format!("{e:?}"))),
            };
            let p = a.public(f(1));
            a.b.connect(bits[0], p);
            a.finish(Tri::Unsat, Tri::Unsat, false)
        }
        "p2base_min" => {
            // MINIMAL reproduction of the profile difference: one private input feeds one
            // Poseidon2 row, nothing is exposed
            enable(&mut a);
            let x = a.private(f(7));
            let mut inputs = [None; 16];
            inputs[0] = Some(x);
            if let Err(e) = a.b.add_poseidon2_perm_base(&Poseidon2PermCallBase {
                config: Poseidon2Config::BABY_BEAR_D1_W16,
                new_start: true,
                inputs,
                out_ctl: [false; 8],
                return_all_outputs: false,
                absorb_len: 0,
            }) {
                return Some(Err(format!("{e:?}")));
            }
            a.finish(Tri::Unknown, Tri::Sat, false)
        }
        "p2base_unset_then_derived" => {
            // the private input is read by the Poseidon2 row FIRST and only afterwards forced
            // by x + pub0 = 12: a runner that does not notice the unset read hashes garbage and
            // then completes
            enable(&mut a);
            let x = a.private(f(7));
            let mut inputs = [None; 16];
            inputs[0] = Some(x);
            if let Err(e) = a.b.add_poseidon2_perm_base(&Poseidon2PermCallBase {
                config: Poseidon2Config::BABY_BEAR_D1_W16,
                new_start: true,
                inputs,
                out_ctl: [true, false, false, false, false, false, false, false],
                return_all_outputs: false,
                absorb_len: 0,
            }) {
                return Some(Err(format!("{e:?}")));
            }
            let p = a.public(f(5));
            let s = a.b.add(p, x);
            let c = a.c(f(12));
            a.b.connect(s, c);
            a.finish(Tri::Unsat, Tri::Unsat, false)
        }
        "p2base_priv" | "p2base_pub" | "p2base_mixed" => {
            enable(&mut a);
            let mut state = [BF::ZERO; 16];
            let mut inputs = [None; 16];
            let n_in = if name == "p2base_priv" { 16 } else { 4 };
            for i in 0..n_in {
                state[i] = f(3 + 2 * i as u64);
                let private = match name {
                    "p2base_priv" => true,
                    "p2base_pub" => false,
                    _ => i % 2 == 0,
                };
                inputs[i] = Some(if private { a.private(state[i]) } else { a.public(state[i]) });
            }
            let out = perm.permute(state);
            let (_, outs) = match a.b.add_poseidon2_perm_base(&Poseidon2PermCallBase {
                config: Poseidon2Config::BABY_BEAR_D1_W16,
                new_start: true,
                inputs,
                out_ctl: [true, true, false, false, false, false, false, false],
                return_all_outputs: false,
                absorb_len: 0,
            }) {
                Ok(x) => x,
                Err(e) => return Some(Err(format!("{e:?}"))),
            };
            for i in 0..2 {
                let e = a.public(out[i]);
                a.b.connect(outs[i].unwrap(), e);
            }
            a.finish(Tri::Unsat, Tri::Unsat, false)
        }
        "p2base_chain" => {
            enable(&mut a);
            let mut s0 = [BF::ZERO; 16];
            s0[0] = f(11);
            s0[1] = f(13);
            let mut in0 = [None; 16];
            in0[0] = Some(a.private(s0[0]));
            in0[1] = Some(a.private(s0[1]));
            let o0 = perm.permute(s0);
            if let Err(e) = a.b.add_poseidon2_perm_base(&Poseidon2PermCallBase {
                config: Poseidon2Config::BABY_BEAR_D1_W16,
                new_start: true,
                inputs: in0,
                out_ctl: [false; 8],
                return_all_outputs: false,
                absorb_len: 0,
            }) {
                return Some(Err(format!("{e:?}")));
            }
            let mut s1 = o0;
            s1[0] = f(17);
            let mut in1 = [None; 16];
            in1[0] = Some(a.private(s1[0]));
            let o1 = perm.permute(s1);
            let (_, outs) = match a.b.add_poseidon2_perm_base(&Poseidon2PermCallBase {
                config: Poseidon2Config::BABY_BEAR_D1_W16,
                new_start: false,
                inputs: in1,
                out_ctl: [true, false, false, false, false, false, false, false],
                return_all_outputs: false,
                absorb_len: 0,
            }) {
                Ok(x) => x,
                Err(e) => return Some(Err(format!("{e:?}"))),
            };
            let e = a.public(o1[0]);
            a.b.connect(outs[0].unwrap(), e);
            a.finish(Tri::Unsat, Tri::Unsat, false)
        }
        _ => return None,
    };
    Some(r.map(|mut b| {
        extra_unknown_op(&mut b);
        b
    }))
}

fn e4(c: [u64; 4]) -> E4 {
    <E4 as BasedVectorSpace<BF>>::from_basis_coefficients_fn(|i| f(c[i]))
}
fn limb(k: u64) -> E4 {
    e4([4 * k + 1, 4 * k + 2, 4 * k + 3, 4 * k + 4])
}
fn perm_e4(state: [E4; 4]) -> [E4; 4] {
    let perm = default_babybear_poseidon2_16();
    let mut flat = [BF::ZERO; 16];
    for (i, l) in state.iter().enumerate() {
        flat[4 * i..4 * i + 4].copy_from_slice(<E4 as BasedVectorSpace<BF>>::as_basis_coefficients_slice(l));
    }
    let out = perm.permute(flat);
    core::array::from_fn(|i| <E4 as BasedVectorSpace<BF>>::from_basis_coefficients_slice(&out[4 * i..4 * i + 4]).unwrap())
}
fn perm_e4_w32(state: &[E4]) -> Vec<E4> {
    let perm = default_babybear_poseidon2_32();
    let mut flat = [BF::ZERO; 32];
    for (i, l) in state.iter().enumerate() {
        flat[4 * i..4 * i + 4].copy_from_slice(<E4 as BasedVectorSpace<BF>>::as_basis_coefficients_slice(l));
    }
    let out = perm.permute(flat);
    (0..8).map(|i| <E4 as BasedVectorSpace<BF>>::from_basis_coefficients_slice(&out[4 * i..4 * i + 4]).unwrap()).collect()
}
/// one arity-2 Merkle compression step: the running digest goes left (bit 0) or right (bit 1)
fn merkle_step(cur: [E4; 2], sib: [E4; 2], bit: bool) -> [E4; 2] {
    let st = if bit { [sib[0], sib[1], cur[0], cur[1]] } else { [cur[0], cur[1], sib[0], sib[1]] };
    let o = perm_e4(st);
    [o[0], o[1]]
}

/// circuits over the quartic extension (D = 4)
///
/// A name with the suffix `@w32` builds the same sponge circuit on the arity-4 permutation shape
/// (`BABY_BEAR_D4_W32`: eight limbs, six of them rate); the Merkle circuits exist for the
/// arity-2 shape only.
fn cat_e4(name: &str) -> Option<Result<Built<E4>, String>> {
    let (name, w32) = match name.strip_suffix("@w32") {
        Some(b) => (b, true),
        None => (name, false),
    };
    if w32 && !matches!(name, "p2d4_min" | "p2d4_priv" | "p2d4_pub" | "p2d4_priv_expected" | "p2d4_chain3") {
        return None;
    }
    let mut a = CatAcc::<E4>::new();
    let cfg = if w32 {
        a.b.enable_poseidon2_perm_width_32::<BabyBearD4Width32, _>(
            generate_poseidon2_trace::<E4, BabyBearD4Width32>,
            default_babybear_poseidon2_32(),
        );
        Poseidon2Config::BABY_BEAR_D4_W32
    } else {
        a.b.enable_poseidon2_perm::<BabyBearD4Width16, _>(
            generate_poseidon2_trace::<E4, BabyBearD4Width16>,
            default_babybear_poseidon2_16(),
        );
        Poseidon2Config::BABY_BEAR_D4_W16
    };
    let we = cfg.width_ext();
    // non-Merkle rows of an extension-field permutation: private data handed to one of them
    // can never reach the trace and is refused by the executor
    let mut non_merkle: Vec<u32> = vec![];
    macro_rules! tr {
        ($e:expr) => {
            match $e {
                Ok(x) => x,
                Err(e) => return Some(Err(format!("{e:?}"))),
            }
        };
    }
    macro_rules! padd {
        ($c:expr) => {{
            let c = $c;
            let r = tr!(a.b.add_poseidon2_perm(&c));
            if !c.merkle_path {
                non_merkle.push(r.0.0);
            }
            r
        }};
    }
    let call = |new_start: bool, merkle: bool, bit: Option<ExprId>, inputs: Vec<Option<ExprId>>, out: bool| {
        let mut out_ctl = vec![false; cfg.rate_ext()];
        out_ctl[0] = out;
        out_ctl[1] = out;
        Poseidon2PermCall {
            config: cfg,
            new_start,
            merkle_path: merkle,
            mmcs_bit: bit,
            mmcs_bit2: None,
            inputs,
            out_ctl,
            return_all_outputs: false,
            mmcs_index_sum: None,
        }
    };
    let perm_cfg = |st: &[E4]| -> Vec<E4> {
        if w32 { perm_e4_w32(st) } else { perm_e4(core::array::from_fn(|i| st[i])).to_vec() }
    };
    let r = match name {
        "p2d4_min" => {
            // MINIMAL reproduction (D = 4): one private limb feeds one row, nothing exposed
            let x = a.private(limb(0));
            let mut ins = vec![None; we];
            ins[0] = Some(x);
            padd!(call(true, false, None, ins, false));
            a.finish(Tri::Unknown, Tri::Sat, false)
        }
        "p2d4_priv" | "p2d4_pub" | "p2d4_priv_expected" => {
            let st: Vec<E4> = (0..we).map(|i| limb(i as u64)).collect();
            let ins: Vec<Option<ExprId>> = st
                .iter()
                .map(|v| Some(if name == "p2d4_pub" { a.public(*v) } else { a.private(*v) }))
                .collect();
            let o = perm_cfg(&st);
            let (_, outs) = padd!(call(true, false, None, ins, true));
            for i in 0..2 {
                let e = if name == "p2d4_priv_expected" { a.private(o[i]) } else { a.public(o[i]) };
                a.b.connect(outs[i].unwrap(), e);
            }
            a.finish(Tri::Unsat, Tri::Unsat, false)
        }
        "p2d4_chain3" => {
            let st: Vec<E4> = (0..we).map(|i| limb(i as u64)).collect();
            let ins: Vec<Option<ExprId>> = st.iter().map(|v| Some(a.private(*v))).collect();
            padd!(call(true, false, None, ins, false));
            padd!(call(false, false, None, vec![None; we], false));
            let (_, outs) = padd!(call(false, false, None, vec![None; we], true));
            let o = perm_cfg(&perm_cfg(&perm_cfg(&st)));
            for i in 0..2 {
                let e = a.public(o[i]);
                a.b.connect(outs[i].unwrap(), e);
            }
            a.finish(Tri::Unsat, Tri::Unsat, false)
        }
        "merkle_checked" => {
            // row0: leaf || sibling0 all exposed (constants); row1: bit 1, sibling by private
            // data; row2: bit 0, sibling by private data; root = public inputs
            let zero = a.c(E4::ZERO);
            let one = a.c(E4::ONE);
            let st0: [E4; 4] = core::array::from_fn(|i| limb(i as u64));
            let in0: Vec<Option<ExprId>> = st0.iter().map(|v| Some(a.c(*v))).collect();
            padd!(call(true, true, Some(zero), in0, false));
            let o0 = perm_e4(st0);
            let sib1 = [limb(4), limb(5)];
            let sib2 = [limb(6), limb(7)];
            let d1 = merkle_step([o0[0], o0[1]], sib1, true);
            let root = merkle_step(d1, sib2, false);
            let (op1, _) = padd!(call(false, true, Some(one), vec![None; 4], false));
            let (op2, outs) = padd!(call(false, true, Some(zero), vec![None; 4], true));
            for i in 0..2 {
                let e = a.public(root[i]);
                a.b.connect(outs[i].unwrap(), e);
            }
            a.data.push((op1.0, sib1.iter().map(of_f).collect()));
            a.data.push((op2.0, sib2.iter().map(of_f).collect()));
            a.finish(Tri::Unsat, Tri::Unknown, true)
        }
        "merkle_row_unchecked" => {
            // MINIMAL: one Merkle row, leaf = constants, sibling only through private data,
            // digest exposed but compared with nothing
            let zero = a.c(E4::ZERO);
            let l0 = a.c(limb(0));
            let l1 = a.c(limb(1));
            let (op, _outs) = padd!(call(
                true,
                true,
                Some(zero),
                vec![Some(l0), Some(l1), None, None],
                true
            ));
            a.data.push((op.0, vec![of_f(&limb(2)), of_f(&limb(3))]));
            a.finish(Tri::Unknown, Tri::Unknown, false)
        }
        "merkle_priv_leaf_bit" => {
            // leaf limbs and the direction bit are private inputs read by the Merkle row
            let leaf = [limb(0), limb(1)];
            let sib = [limb(2), limb(3)];
            let l: Vec<ExprId> = leaf.iter().map(|v| a.private(*v)).collect();
            let bit = a.private(E4::ONE);
            let (op, outs) = padd!(call(
                true,
                true,
                Some(bit),
                vec![Some(l[0]), Some(l[1]), None, None],
                true
            ));
            let root = merkle_step(leaf, sib, true);
            for i in 0..2 {
                let e = a.public(root[i]);
                a.b.connect(outs[i].unwrap(), e);
            }
            a.data.push((op.0, sib.iter().map(of_f).collect()));
            a.finish(Tri::Unsat, Tri::Unsat, true)
        }
        "mmcs_verify" | "mmcs_verify_tail" => {
            let tail = name == "mmcs_verify_tail";
            let leaf = [limb(0), limb(1)];
            let sibs = [[limb(2), limb(3)], [limb(4), limb(5)]];
            let bits = [true, false];
            let l: Vec<ExprId> = leaf.iter().map(|v| a.private(*v)).collect();
            let dirs: Vec<ExprId> =
                bits.iter().map(|b| a.public(if *b { E4::ONE } else { E4::ZERO })).collect();
            let mut cur = leaf;
            for k in 0..2 {
                cur = merkle_step(cur, sibs[k], bits[k]);
            }
            let mut openings = vec![l, vec![]];
            if tail {
                // a tail digest compressed after the last sibling step (direction 0)
                let t = [limb(6), limb(7)];
                let te: Vec<ExprId> = t.iter().map(|v| a.private(*v)).collect();
                openings.push(te);
                cur = merkle_step(cur, t, false);
            }
            let root: Vec<ExprId> = cur.iter().map(|v| a.public(*v)).collect();
            let ops = tr!(a.b.add_mmcs_verify(cfg, &openings, &dirs, &root));
            for (k, op) in ops.iter().enumerate() {
                a.data.push((op.0, sibs[k].iter().map(of_f).collect()));
            }
            a.finish(Tri::Unsat, Tri::Unsat, true)
        }
        "recompose_priv" | "recompose_pub" | "recompose_alu_priv" | "recompose_coeff_priv"
        | "recompose_then_perm" => {
            if name != "recompose_alu_priv" {
                a.b.enable_recompose::<BF>(generate_recompose_trace::<BF, E4>);
            }
            let cs = [3u64, 5, 7, 11];
            let coeffs: Vec<ExprId> = cs
                .iter()
                .map(|c| {
                    let v = E4::from(f(*c));
                    if name == "recompose_pub" { a.public(v) } else { a.private(v) }
                })
                .collect();
            let packed = match name {
                "recompose_coeff_priv" => tr!(a.b.recompose_base_coeffs_to_ext_with_coeff_lookups::<BF>(&coeffs)),
                _ => tr!(a.b.recompose_base_coeffs_to_ext::<BF>(&coeffs)),
            };
            let val = e4(cs);
            if name == "recompose_then_perm" {
                let (_, outs) = padd!(call(
                    true,
                    false,
                    None,
                    vec![Some(packed), None, None, None],
                    true
                ));
                let o = perm_e4([val, E4::ZERO, E4::ZERO, E4::ZERO]);
                for i in 0..2 {
                    let e = a.public(o[i]);
                    a.b.connect(outs[i].unwrap(), e);
                }
            } else {
                let e = a.public(val);
                a.b.connect(packed, e);
            }
            a.finish(Tri::Unsat, Tri::Unsat, false)
        }
        _ => return None,
    };
    Some(r.map(|mut b| {
        extra_unknown_op(&mut b);
        // sibling payloads of the shapes a compression row takes (none, one digest, three)
        for op in &non_merkle {
            for n in [0usize, 2, 6] {
                let mut s = steps(Some(&b.pubs), Some(&b.privs), &b.data);
                s.push(Step::Data { op: *op, sibling: (0..n).map(|k| of_f(&limb(5 + k as u64))).collect() });
                b.extra.push(Script {
                    name: format!("data_on_non_merkle(op{op},len{n})"),
                    fault: "data_on_non_merkle",
                    expect: Expect::MustErr,
                    steps: s,
                });
            }
        }
        b
    }))
}
