//! C19 - the runner fails safely on missing, extra or conflicting inputs, identically in the
//! debug and the optimised profile (engine E7: profile differential).
//!
//! One source, three roles:
//!   * driver  `target/release/c19 <tier> ...`  enumerates circuits (catalogue + every program of
//!     small E1 families) and, per circuit, the fault scripts (`cases::scripts_for`);
//!   * worker  `target/release/c19 --worker ...` and `target/debug/c19 --worker ...` execute every
//!     script against the real `/repo` crates compiled in their profile and print one outcome
//!     per script (`ok:<digest>` / `err:<Variant>` / `panic:<msg>`); a worker that dies is
//!     restarted after the job it died in, whose scripts are then run one per process so that
//!     the crash becomes the outcome of exactly one case;
//!   * the driver compares both profiles against the oracle of the property.
//!
//! Every case that looks violating in the bulk run is re-executed alone in a fresh process of
//! each profile before it is reported, so undefined behaviour in one case cannot taint the
//! verdict of another.

mod cases;

use std::collections::BTreeMap;
use std::io::{BufRead, BufReader, Write};
use std::path::{Path, PathBuf};
use std::process::{Command, Stdio};
use std::sync::Mutex;
use std::sync::atomic::{AtomicU64, Ordering};
use std::sync::mpsc;
use std::time::{Duration, Instant};

use cases::*;
use vpcore::rayon::prelude::*;
use vpcore::serde_json::{self, Value, json};
use vpcore::{Ctx, Histo, Report, finish, machinery_error};
use vpe1::enumerate::{AK, Family, VK};
use vpe1::explore::{SeenSet, Stats, explore, input_vectors};
use vpe1::prog::Program;

// =======================================================================================
// worker

struct RunAll;
impl Visitor<(u64, Vec<String>)> for RunAll {
    fn go<F: CField>(self, b: Built<F>) -> (u64, Vec<String>) {
        let scripts = scripts_for(&b);
        let outs = scripts
            .iter()
            .enumerate()
            .map(|(i, s)| {
                selftest_abort(i);
                run_caught(&b, s)
            })
            .collect();
        (scripts_hash(&scripts), outs)
    }
}
struct RunOne(usize);
impl Visitor<String> for RunOne {
    fn go<F: CField>(self, b: Built<F>) -> String {
        let scripts = scripts_for(&b);
        selftest_abort(self.0);
        match scripts.get(self.0) {
            Some(s) => run_caught(&b, s),
            None => "nosuchscript".into(),
        }
    }
}
/// Machinery self-test (`--opt selftest_abort=J:S`, release workers only): the process aborts
/// in case (job J, script S) so that restart + per-script isolation can be demonstrated.
static CUR_JOB: std::sync::atomic::AtomicI64 = std::sync::atomic::AtomicI64::new(-1);
fn selftest_abort(script: usize) {
    if !cfg!(debug_assertions)
        && let Ok(v) = std::env::var("C19_SELFTEST_ABORT")
        && let Some((j, s)) = v.split_once(':')
        && j.parse::<i64>().ok() == Some(CUR_JOB.load(Ordering::Relaxed))
        && s.parse::<usize>().ok() == Some(script)
    {
        std::process::abort();
    }
}

fn run_caught<F: CField>(b: &Built<F>, s: &Script) -> String {
    match vpcore::quiet_catch(|| exec_script(&b.circuit, s)) {
        Ok(o) => o,
        Err(msg) => format!("panic:{}", msg.replace('\n', " ")),
    }
}

fn load_specs(path: &Path) -> Vec<Spec> {
    let s = std::fs::read_to_string(path).unwrap_or_else(|e| {
        println!("X 0 cannot read jobs file: {e}");
        std::process::exit(3)
    });
    s.lines().filter(|l| !l.is_empty()).map(|l| serde_json::from_str(l).expect("job line")).collect()
}

/// `--worker <jobs> --stride K R [--after J]` | `--worker <jobs> --one J S`
fn worker_main(args: &[String]) -> ! {
    vpcore::install_quiet_panic_hook();
    let out = std::io::stdout();
    let mut out = out.lock();
    let _ = writeln!(out, "H {}", cfg!(debug_assertions));
    let specs = load_specs(Path::new(&args[0]));
    let num = |i: usize| -> i64 { args.get(i).and_then(|s| s.parse().ok()).unwrap_or(-1) };
    match args.get(1).map(|s| s.as_str()) {
        Some("--one") => {
            let (j, s) = (num(2) as usize, num(3) as usize);
            let _ = writeln!(out, "B {j}");
            let _ = out.flush();
            CUR_JOB.store(j as i64, Ordering::Relaxed);
            match with_built(&specs[j], RunOne(s)) {
                Ok(o) => {
                    let _ = writeln!(out, "O {o}");
                }
                Err(e) => {
                    let _ = writeln!(out, "X {j} {e}");
                }
            }
        }
        Some("--stride") => {
            let (k, r) = (num(2).max(1) as usize, num(3).max(0) as usize);
            let after = if args.get(4).map(|s| s.as_str()) == Some("--after") { num(5) } else { -1 };
            for j in (r..specs.len()).step_by(k) {
                if (j as i64) <= after {
                    continue;
                }
                let _ = writeln!(out, "B {j}");
                let _ = out.flush();
                CUR_JOB.store(j as i64, Ordering::Relaxed);
                match with_built(&specs[j], RunAll) {
                    Ok((h, outs)) => {
                        let _ = writeln!(out, "R {j} {h:016x} {}", serde_json::to_string(&outs).unwrap());
                    }
                    Err(e) => {
                        let _ = writeln!(out, "X {j} {e}");
                    }
                }
            }
            let _ = writeln!(out, "E");
        }
        _ => {
            let _ = writeln!(out, "X 0 bad worker arguments");
        }
    }
    let _ = out.flush();
    std::process::exit(0)
}

// =======================================================================================
// driver: job list

struct JobMeta {
    spec: Spec,
    names: Vec<String>,
    faults: Vec<&'static str>,
    expects: Vec<Expect>,
    hash: u64,
}
struct MetaOf;
impl Visitor<(Vec<String>, Vec<&'static str>, Vec<Expect>, u64)> for MetaOf {
    fn go<F: CField>(self, b: Built<F>) -> (Vec<String>, Vec<&'static str>, Vec<Expect>, u64) {
        let s = scripts_for(&b);
        (
            s.iter().map(|x| x.name.clone()).collect(),
            s.iter().map(|x| x.fault).collect(),
            s.iter().map(|x| x.expect).collect(),
            scripts_hash(&s),
        )
    }
}
fn meta_of(spec: Spec) -> Result<JobMeta, String> {
    let (names, faults, expects, hash) = with_built(&spec, MetaOf)?;
    Ok(JobMeta { spec, names, faults, expects, hash })
}

/// Readers of a witness slot in the circuit of `spec` (attribution of a profile difference).
struct ReadersOf(u32);
impl Visitor<Vec<String>> for ReadersOf {
    fn go<F: CField>(self, b: Built<F>) -> Vec<String> {
        readers_of(&b.circuit, self.0)
    }
}

fn fam(name: &str, vk: &[VK], k: usize, c: usize, max_pub: usize, max_priv: usize, consts: &[u8], max_wide: usize) -> Family {
    Family {
        name: name.into(),
        value_kinds: vk.to_vec(),
        // AssertBool is left out on purpose: the runner does not evaluate boolean checks
        // (they are an AIR constraint), so a non-boolean value is not a *runner* conflict
        assert_kinds: vec![AK::Connect, AK::AssertZero],
        max_value_ops: k,
        max_asserts: c,
        max_pub,
        max_priv,
        consts: consts.to_vec(),
        max_wide,
        wide_no_atoms: true,
        sym_reduce: true,
    }
}

fn families(thorough: bool) -> Vec<Family> {
    let bin = [VK::Add, VK::Sub, VK::Mul, VK::Div];
    let wide = [VK::Add, VK::Mul, VK::MulAdd, VK::Select, VK::Horner];
    let bits = [VK::Add, VK::Mul, VK::Bits(2), VK::Bits(3)];
    if !thorough {
        vec![
            fam("bin-k2-c1", &bin, 2, 1, 2, 2, &[1, 2], 0),
            fam("wide-k2-c1", &wide, 2, 1, 4, 0, &[2], 1),
            fam("bits-k2-c1", &bits, 2, 1, 2, 1, &[1], 0),
        ]
    } else {
        vec![
            fam("bin-k2-c2", &bin, 2, 2, 3, 2, &[0, 1, 2], 0),
            fam("wide-k2-c1", &wide, 2, 1, 5, 1, &[1, 2], 1),
            fam("bits-k2-c2", &bits, 2, 2, 2, 2, &[1, 2], 0),
            fam("bin-k3-c1", &bin, 3, 1, 2, 2, &[2], 0),
            fam("wide-k2-wide2", &[VK::MulAdd, VK::Select, VK::Horner], 2, 1, 5, 0, &[2], 2),
        ]
    }
}

/// First satisfying, fully defined input vector; vectors whose entries are pairwise distinct
/// and non-zero are preferred (they make swapped / shifted positions visible).
fn find_baseline(m: &vpe1::prog::Materialized<BF>) -> Option<(Vec<u64>, Vec<u64>)> {
    let (n_pub, n_priv) = (m.n_pub, m.n_priv);
    let n = n_pub + n_priv;
    let alpha: Vec<u64> = match n {
        0..=2 => vec![2, 3, 1, 5, 7, 6, 4, 10, 25, 15, 0, P - 1],
        3 => vec![2, 3, 1, 5, 7, 10, 6, 0],
        _ => vec![2, 3, 1, 5, 7, 0],
    };
    let all = input_vectors(&alpha, n);
    let nice = |v: &Vec<u64>| {
        v.iter().all(|x| *x != 0) && (0..v.len()).all(|i| (0..i).all(|j| v[i] != v[j]))
    };
    for pass in 0..2 {
        for v in &all {
            if (pass == 0) != nice(v) {
                continue;
            }
            if dag_classify(&m.nodes, &m.connects, &v[..n_pub], &v[n_pub..]) == Tri::Sat {
                return Some((v[..n_pub].to_vec(), v[n_pub..].to_vec()));
            }
        }
    }
    None
}

// =======================================================================================
// driver: worker pool

#[derive(Clone, Copy, PartialEq, Eq, Debug)]
enum Profile {
    Dev,
    Release,
}
impl Profile {
    fn tag(&self) -> &'static str {
        match self {
            Profile::Dev => "dev",
            Profile::Release => "release",
        }
    }
}

struct Workers {
    dev: PathBuf,
    release: PathBuf,
    tmp: PathBuf,
}
impl Workers {
    fn exe(&self, p: Profile) -> &Path {
        match p {
            Profile::Dev => &self.dev,
            Profile::Release => &self.release,
        }
    }
}

fn locate_workers() -> Workers {
    let me = std::env::current_exe().unwrap_or_else(|e| machinery_error(&format!("current_exe: {e}")));
    let mut roots: Vec<PathBuf> = vec![];
    if let Some(t) = me.parent().and_then(|p| p.parent()) {
        roots.push(t.to_path_buf());
    }
    for k in ["CARGO_TARGET_DIR", "VERIF_TARGET_DIR"] {
        if let Ok(v) = std::env::var(k) {
            roots.push(PathBuf::from(v));
        }
    }
    for r in &roots {
        let (d, rel) = (r.join("debug").join("c19"), r.join("release").join("c19"));
        if d.is_file() && rel.is_file() {
            let tmp = r.join("c19-tmp");
            let _ = std::fs::create_dir_all(&tmp);
            return Workers { dev: d, release: rel, tmp };
        }
    }
    machinery_error(&format!(
        "cannot find both worker binaries (debug/c19 and release/c19) under {roots:?}; run through ./check c19"
    ))
}

fn status_string(st: &std::process::ExitStatus) -> String {
    use std::os::unix::process::ExitStatusExt;
    match (st.code(), st.signal()) {
        (_, Some(s)) => format!("signal{s}"),
        (Some(c), _) => format!("exit{c}"),
        _ => "unknown".into(),
    }
}

/// One script alone in a fresh process. A dead or silent process is the outcome.
fn run_one(w: &Workers, p: Profile, jobs: &Path, j: usize, s: usize) -> String {
    let mut child = Command::new(w.exe(p))
        .arg("--worker")
        .arg(jobs)
        .args(["--one", &j.to_string(), &s.to_string()])
        .stdin(Stdio::null())
        .stdout(Stdio::piped())
        .stderr(Stdio::null())
        .spawn()
        .unwrap_or_else(|e| machinery_error(&format!("spawn worker: {e}")));
    let t0 = Instant::now();
    let status = loop {
        match child.try_wait() {
            Ok(Some(st)) => break Some(st),
            Ok(None) => {
                if t0.elapsed() > Duration::from_secs(30) {
                    let _ = child.kill();
                    let _ = child.wait();
                    break None;
                }
                std::thread::sleep(Duration::from_millis(2));
            }
            Err(e) => machinery_error(&format!("wait worker: {e}")),
        }
    };
    let mut text = String::new();
    if let Some(mut o) = child.stdout.take() {
        use std::io::Read;
        let _ = o.read_to_string(&mut text);
    }
    for l in text.lines() {
        if let Some(o) = l.strip_prefix("O ") {
            return o.to_string();
        }
        if let Some(x) = l.strip_prefix("X ") {
            machinery_error(&format!("worker ({}) cannot build job {j}: {x}", p.tag()));
        }
    }
    match status {
        None => "hang:30s".into(),
        Some(st) => format!("crash:{}", status_string(&st)),
    }
}

#[derive(Default)]
struct PoolStats {
    restarts: AtomicU64,
    crashed_jobs: AtomicU64,
    hangs: AtomicU64,
    incomplete: AtomicU64,
}

/// Runs every job in `p`'s worker, `k` processes side by side (job j goes to process j mod k).
fn run_profile(
    w: &Workers,
    p: Profile,
    jobs: &Path,
    metas: &[JobMeta],
    k: usize,
    deadline: Instant,
    stats: &PoolStats,
) -> Vec<Option<Vec<String>>> {
    let results: Vec<Mutex<Option<Vec<String>>>> = metas.iter().map(|_| Mutex::new(None)).collect();
    std::thread::scope(|sc| {
        for r in 0..k {
            let results = &results;
            sc.spawn(move || {
                let mut after: i64 = -1;
                let mut restarts = 0;
                'respawn: loop {
                    let mut child = Command::new(w.exe(p))
                        .arg("--worker")
                        .arg(jobs)
                        .args(["--stride", &k.to_string(), &r.to_string(), "--after", &after.to_string()])
                        .stdin(Stdio::null())
                        .stdout(Stdio::piped())
                        .stderr(Stdio::null())
                        .spawn()
                        .unwrap_or_else(|e| machinery_error(&format!("spawn worker: {e}")));
                    let stdout = child.stdout.take().unwrap();
                    let (tx, rx) = mpsc::channel::<String>();
                    let reader = std::thread::spawn(move || {
                        for l in BufReader::new(stdout).lines() {
                            let Ok(l) = l else { break };
                            if tx.send(l).is_err() {
                                break;
                            }
                        }
                    });
                    let mut cur: Option<usize> = None;
                    let mut ended = false;
                    let mut silent_ticks = 0u32;
                    loop {
                        if Instant::now() >= deadline {
                            let _ = child.kill();
                            let _ = child.wait();
                            let _ = reader.join();
                            stats.incomplete.fetch_add(1, Ordering::Relaxed);
                            return;
                        }
                        match rx.recv_timeout(Duration::from_secs(2)) {
                            Ok(l) => {
                                silent_ticks = 0;
                                let mut it = l.splitn(4, ' ');
                                match it.next() {
                                    Some("H") => {
                                        let dbg = it.next() == Some("true");
                                        if dbg != (p == Profile::Dev) {
                                            machinery_error(&format!(
                                                "{} worker reports debug_assertions={dbg}",
                                                p.tag()
                                            ));
                                        }
                                    }
                                    Some("B") => {
                                        cur = it.next().and_then(|x| x.parse().ok());
                                    }
                                    Some("R") => {
                                        let j: usize = it.next().and_then(|x| x.parse().ok()).unwrap_or(usize::MAX);
                                        let h = it.next().unwrap_or("");
                                        let arr: Vec<String> =
                                            serde_json::from_str(it.next().unwrap_or("[]")).unwrap_or_default();
                                        if j >= metas.len()
                                            || h != format!("{:016x}", metas[j].hash)
                                            || arr.len() != metas[j].names.len()
                                        {
                                            machinery_error(&format!(
                                                "{} worker enumerated a different script list for job {j}",
                                                p.tag()
                                            ));
                                        }
                                        *results[j].lock().unwrap() = Some(arr);
                                        after = j as i64;
                                        cur = None;
                                    }
                                    Some("X") => machinery_error(&format!("{} worker: {l}", p.tag())),
                                    Some("E") => ended = true,
                                    _ => {}
                                }
                            }
                            Err(mpsc::RecvTimeoutError::Timeout) => {
                                // a job takes milliseconds: 60 s of silence is a hang; kill the
                                // process (the reader then sees EOF and the job in progress is
                                // isolated script by script)
                                silent_ticks += 1;
                                if silent_ticks >= 30 {
                                    let _ = child.kill();
                                }
                            }
                            Err(mpsc::RecvTimeoutError::Disconnected) => break,
                        }
                    }
                    let st = child.wait();
                    let _ = reader.join();
                    if ended {
                        return;
                    }
                    // the process died (or was killed for silence) before finishing
                    restarts += 1;
                    stats.restarts.fetch_add(1, Ordering::Relaxed);
                    if restarts > 200 {
                        machinery_error(&format!("{} worker keeps dying", p.tag()));
                    }
                    if let Some(j) = cur {
                        stats.crashed_jobs.fetch_add(1, Ordering::Relaxed);
                        let _ = st;
                        // isolate: every script of that job in its own process
                        let outs: Vec<String> =
                            (0..metas[j].names.len()).map(|s| run_one(w, p, jobs, j, s)).collect();
                        stats.hangs.fetch_add(outs.iter().filter(|o| o.starts_with("hang")).count() as u64, Ordering::Relaxed);
                        *results[j].lock().unwrap() = Some(outs);
                        after = j as i64;
                    }
                    continue 'respawn;
                }
            });
        }
    });
    results.into_iter().map(|m| m.into_inner().unwrap()).collect()
}

// =======================================================================================
// oracle

#[derive(Clone, Debug, PartialEq)]
struct Out {
    kind: String,    // ok | err | panic | crash | hang
    variant: String, // error variant, or "" for ok
    rest: String,    // digest (ok) / where:wid (err) / message
}
fn parse_out(s: &str) -> Out {
    let mut it = s.splitn(3, ':');
    let kind = it.next().unwrap_or("").to_string();
    let second = it.next().unwrap_or("").to_string();
    let third = it.next().unwrap_or("").to_string();
    match kind.as_str() {
        "ok" => Out { kind, variant: String::new(), rest: second },
        "err" => Out { kind, variant: second, rest: third },
        _ => Out { kind, variant: String::new(), rest: format!("{second}:{third}") },
    }
}
impl Out {
    fn short(&self) -> String {
        match self.kind.as_str() {
            "ok" => "Ok".into(),
            "err" => format!("Err({})", self.variant),
            k => format!("{k}({})", self.rest.chars().take(60).collect::<String>()),
        }
    }
    fn abnormal(&self) -> bool {
        !matches!(self.kind.as_str(), "ok" | "err")
    }
}

/// The property's clauses. Returns the first clause violated.
fn judge(expect: Expect, dev: &Out, rel: &Out, base_dev: &Out, base_rel: &Out) -> Option<&'static str> {
    if dev.abnormal() || rel.abnormal() {
        return Some("abort"); // panic / crash / hang instead of a Result
    }
    if dev.kind != rel.kind || dev.variant != rel.variant {
        return Some("profile_diff");
    }
    if dev.kind == "ok" && dev.rest != rel.rest {
        return Some("profile_diff_values");
    }
    match expect {
        Expect::MustOk => (dev.kind != "ok").then_some("valid_inputs_rejected"),
        Expect::Benign => None,
        Expect::MustErr => (dev.kind == "ok").then_some("ok_on_fault"),
        Expect::Withheld => {
            // Ok is admissible only when the circuit forces the withheld slots to exactly the
            // values the caller would have supplied (same witness value set as the baseline)
            let bad = |o: &Out, b: &Out| o.kind == "ok" && b.kind == "ok" && o.rest != b.rest;
            (bad(dev, base_dev) || bad(rel, base_rel)).then_some("ok_from_unset")
        }
    }
}

struct Candidate {
    job: usize,
    script: usize,
    clause: &'static str,
    dev: Out,
    rel: Out,
}

/// Canonical key. A profile difference on a withheld input is attributed to the unchecked
/// witness read of non-primitive executors when the dev profile names a slot (`WitnessNotSet`)
/// whose first reader in execution order is a non-primitive op (see `readers_of`); the key is
/// then `profile_diff:npo_input_unset:<op family>` and ignores the release outcome, which is
/// undefined behaviour and may be anything (other error, Ok, crash).
fn key_of(meta: &JobMeta, c: &Candidate) -> (String, String) {
    let fault = meta.faults[c.script];
    let withheld = matches!(fault, "no_pub" | "no_priv" | "no_inputs");
    if withheld
        && c.dev.kind == "err"
        && c.dev.variant == "WitnessNotSet"
        && (c.rel.kind != c.dev.kind || c.rel.variant != c.dev.variant)
        && let Some(w) = c.dev.rest.rsplit(':').next().and_then(|x| x.parse::<u32>().ok())
        && let Ok(readers) = with_built(&meta.spec, ReadersOf(w))
        && !readers.is_empty()
        && readers[0] != "alu"
        && readers[0] != "hint"
    {
        return (format!("profile_diff:npo_input_unset:{}", readers[0]), "npo".into());
    }
    let group = format!("{}:{}:dev={}", c.clause, fault, c.dev.short());
    (format!("{}:{}:{}:dev={}", c.clause, fault, meta.spec.show(), c.dev.short()), group)
}

// =======================================================================================
// driver main

fn write_jobs(path: &Path, specs: &[&Spec]) {
    let mut s = String::new();
    for x in specs {
        s.push_str(&serde_json::to_string(x).unwrap());
        s.push('\n');
    }
    std::fs::write(path, s).unwrap_or_else(|e| machinery_error(&format!("cannot write {}: {e}", path.display())));
}

fn spec_size(s: &Spec) -> (usize, usize, String) {
    match s {
        Spec::Cat(n) => (0, 0, n.clone()),
        Spec::E1 { prog, pubs, privs } => (1 + prog.calls.len(), pubs.len() + privs.len(), prog.show()),
    }
}

fn main() {
    let args: Vec<String> = std::env::args().skip(1).collect();
    if args.first().map(|s| s.as_str()) == Some("--worker") {
        worker_main(&args[1..]);
    }
    vpcore::install_quiet_panic_hook();
    let ctx = Ctx::from_args("C19", "fault_enumeration");
    let report = Report::new();
    let workers = locate_workers();
    if let Some(v) = ctx.opt("selftest_abort") {
        // inherited by every worker; only release-profile workers act on it
        unsafe { std::env::set_var("C19_SELFTEST_ABORT", v) };
    }
    let jobs_path = workers.tmp.join(format!("jobs-{}.jsonl", std::process::id()));
    let assumptions = vec![
        "the dev-profile worker (debug_assertions on, opt-level 1) stands for 'debug builds', the release-profile worker (opt-level 3) for 'optimized builds'; both report their cfg and are built from the same sources by ./check".to_string(),
        "two outcomes are 'identical' when both are Ok with the same set of witness values, or both Err with the same CircuitError variant (messages and payloads are not compared)".to_string(),
        "a withheld input that the circuit itself forces (connected to a constant / solved backwards by the runner) may yield Ok, but only with exactly the baseline's witness values".to_string(),
        "E1 programs: an input vector is 'conflicting' when the node-level reference semantics of the builder's DAG (cases::dag_classify) says a connect / assert_zero / bit-reconstruction relation is violated; assert_bool is excluded (not evaluated by the runner); vectors hitting a zero divisor carry no claim".to_string(),
    ];

    // ---------------------------------------------------------------- replay
    if let Some(path) = &ctx.replay {
        let r = vpcore::load_replay(path);
        let spec: Spec = serde_json::from_value(r["spec"].clone())
            .unwrap_or_else(|e| machinery_error(&format!("bad replay: {e}")));
        let meta = meta_of(spec).unwrap_or_else(|e| machinery_error(&format!("replay build: {e}")));
        let s = r["script"].as_u64().unwrap_or(0) as usize;
        if s >= meta.names.len() {
            machinery_error("replay: no such script");
        }
        write_jobs(&jobs_path, &[&meta.spec]);
        println!("replaying {} / {}", meta.spec.show(), meta.names[s]);
        let o = |p, s| parse_out(&run_one(&workers, p, &jobs_path, 0, s));
        let (bd, br) = (o(Profile::Dev, 0), o(Profile::Release, 0));
        let (d, rl) = (o(Profile::Dev, s), o(Profile::Release, s));
        println!("  baseline: dev={bd:?} release={br:?}\n  case:     dev={d:?} release={rl:?}");
        if let Some(clause) = judge(meta.expects[s], &d, &rl, &bd, &br) {
            let c = Candidate { job: 0, script: s, clause, dev: d.clone(), rel: rl.clone() };
            let (key, _) = key_of(&meta, &c);
            report.violation(
                key,
                format!("[{clause}] {} / {}: dev={} release={}", meta.spec.show(), meta.names[s], d.short(), rl.short()),
                json!({"spec": meta.spec, "script": s, "script_name": meta.names[s]}),
            );
        }
        let _ = std::fs::remove_file(&jobs_path);
        let cov = json!({"evaluations": 4, "distinct_nontrivial": 2, "rule": "replay of one stored case in both profiles (baseline + case)",
            "samples": [format!("{} / {}", meta.spec.show(), meta.names[s])], "replay": true});
        finish(&ctx, cov, assumptions, &report);
    }

    // ---------------------------------------------------------------- enumerate jobs
    let thorough = !ctx.quick();
    let mut metas: Vec<JobMeta> = vec![];
    let mut cat_names = catalogue(thorough);
    if let Some(only) = ctx.opt("cat") {
        cat_names.retain(|n| *n == only);
    }
    for name in &cat_names {
        match meta_of(Spec::Cat(name.to_string())) {
            Ok(m) => metas.push(m),
            Err(e) => machinery_error(&format!("catalogue circuit {name}: {e}")),
        }
    }
    let n_cat = metas.len();

    let mut fam_reports = vec![];
    let mut enum_exhaustive = true;
    let e1_jobs: Mutex<Vec<JobMeta>> = Mutex::new(vec![]);
    let no_baseline = AtomicU64::new(0);
    let build_rejected = AtomicU64::new(0);
    let fams = if ctx.opt("e1") == Some("off") { vec![] } else { families(thorough) };
    let seen_keys = SeenSet::default();
    let cs = e1_consts();
    // enumeration may use the first 45 % of the budget (families in order, simplest first)
    for (fi, fam) in fams.iter().enumerate() {
        let stats = Stats::default();
        let seen_prune = SeenSet::default();
        let _ = fi;
        let stop_at = 0.45;
        let t0 = ctx.elapsed_s();
        explore::<BF, BF>(fam, &cs, &ctx, stop_at, &seen_keys, &seen_prune, &stats, &|_, _| {}, &|p, m| {
            let Some((pubs, privs)) = find_baseline(&m) else {
                no_baseline.fetch_add(1, Ordering::Relaxed);
                return;
            };
            match meta_of(Spec::E1 { prog: p.clone(), pubs, privs }) {
                Ok(meta) => e1_jobs.lock().unwrap().push(meta),
                Err(_) => {
                    build_rejected.fetch_add(1, Ordering::Relaxed);
                }
            }
        });
        let to = stats.timed_out.load(Ordering::Relaxed);
        enum_exhaustive &= !to;
        fam_reports.push(json!({
            "family": fam.name, "bounds": fam,
            "histories": stats.histories.load(Ordering::Relaxed),
            "new_canonical_programs": stats.canonical.load(Ordering::Relaxed),
            "exhaustive": !to, "wall_s": ctx.elapsed_s() - t0,
        }));
        eprintln!(
            "family {} histories={} canonical={} exhaustive={} t={:.1}s",
            fam.name,
            stats.histories.load(Ordering::Relaxed),
            stats.canonical.load(Ordering::Relaxed),
            !to,
            ctx.elapsed_s() - t0
        );
    }
    let mut e1_jobs = e1_jobs.into_inner().unwrap();
    // simplest first, deterministic order
    e1_jobs.sort_by_cached_key(|m| spec_size(&m.spec));
    metas.extend(e1_jobs);
    let n_jobs = metas.len();
    let n_scripts: usize = metas.iter().map(|m| m.names.len()).sum();
    write_jobs(&jobs_path, &metas.iter().map(|m| &m.spec).collect::<Vec<_>>());
    eprintln!("jobs={n_jobs} (catalogue {n_cat}) scripts={n_scripts} enumerated in {:.1}s", ctx.elapsed_s());

    // ---------------------------------------------------------------- run both profiles
    let deadline = ctx.start + ctx.budget.mul_f64(0.80);
    let k: usize = ctx.opt("procs").and_then(|s| s.parse().ok()).unwrap_or(if n_jobs > 64 { 6 } else { 1 });
    let (st_dev, st_rel) = (PoolStats::default(), PoolStats::default());
    let (res_dev, res_rel) = std::thread::scope(|sc| {
        let hd = sc.spawn(|| run_profile(&workers, Profile::Dev, &jobs_path, &metas, k, deadline, &st_dev));
        let hr = sc.spawn(|| run_profile(&workers, Profile::Release, &jobs_path, &metas, k, deadline, &st_rel));
        (hd.join().unwrap(), hr.join().unwrap())
    });
    eprintln!("bulk run done at {:.1}s", ctx.elapsed_s());

    // ---------------------------------------------------------------- judge
    let histo = Histo::new();
    let mut distinct: BTreeMap<String, u64> = BTreeMap::new();
    let mut candidates: Vec<Candidate> = vec![];
    let mut judged_jobs = 0u64;
    let mut judged_scripts = 0u64;
    let mut forced_ok = 0u64;
    let mut samples: Vec<Value> = vec![];
    for (j, meta) in metas.iter().enumerate() {
        let (Some(d), Some(r)) = (&res_dev[j], &res_rel[j]) else { continue };
        judged_jobs += 1;
        let (bd, br) = (parse_out(&d[0]), parse_out(&r[0]));
        for s in 0..meta.names.len() {
            judged_scripts += 1;
            let (od, or) = (parse_out(&d[s]), parse_out(&r[s]));
            histo.add(&format!("{} dev={} release={}", meta.faults[s], od.short(), or.short()));
            if meta.faults[s] != "baseline" {
                *distinct.entry(format!("{}|{}|{}", meta.faults[s], od.short(), or.short())).or_insert(0) += 1;
            }
            if meta.expects[s] == Expect::Withheld && od.kind == "ok" && or.kind == "ok" && od.rest == bd.rest {
                forced_ok += 1;
            }
            if let Some(clause) = judge(meta.expects[s], &od, &or, &bd, &br) {
                candidates.push(Candidate { job: j, script: s, clause, dev: od, rel: or });
            } else if samples.len() < 8 && (j < n_cat && s % 7 == 3 || j == n_cat + 50 + samples.len()) {
                samples.push(json!({"circuit": meta.spec.show(), "script": meta.names[s],
                    "expect": format!("{:?}", meta.expects[s]), "dev": d[s], "release": r[s]}));
            }
        }
    }
    let raw_candidates = candidates.len();

    // group candidates; confirm the smallest members of each group alone in fresh processes
    let mut groups: BTreeMap<String, Vec<usize>> = BTreeMap::new();
    for (i, c) in candidates.iter().enumerate() {
        let (key, group) = key_of(&metas[c.job], c);
        // catalogue circuits and attributed findings keep their full key; E1 programs are
        // grouped by (clause, fault class, dev outcome) and represented by the smallest program
        let g = if c.job < n_cat || group == "npo" { key } else { format!("e1|{group}") };
        groups.entry(g).or_default().push(i);
    }
    let confirm_total = AtomicU64::new(0);
    let unconfirmed = AtomicU64::new(0);
    let group_list: Vec<(&String, &Vec<usize>)> = groups.iter().collect();
    group_list.par_iter().for_each(|(_g, members)| {
        // members are in job order = simplest first
        let mut confirmed: Option<(Candidate, String)> = None;
        for &i in members.iter().take(6) {
            let c = &candidates[i];
            let meta = &metas[c.job];
            let o = |p, s| parse_out(&run_one(&workers, p, &jobs_path, c.job, s));
            let (bd, br) = (o(Profile::Dev, 0), o(Profile::Release, 0));
            let (d, r) = (o(Profile::Dev, c.script), o(Profile::Release, c.script));
            confirm_total.fetch_add(1, Ordering::Relaxed);
            if let Some(clause) = judge(meta.expects[c.script], &d, &r, &bd, &br) {
                let cc = Candidate { job: c.job, script: c.script, clause, dev: d, rel: r };
                let (key, _) = key_of(meta, &cc);
                confirmed = Some((cc, key));
                break;
            }
            unconfirmed.fetch_add(1, Ordering::Relaxed);
        }
        if let Some((c, key)) = confirmed {
            let meta = &metas[c.job];
            let what = format!(
                "[{}] {} / {} (expect {:?}): dev={} release={} - {} bulk cases in this group",
                c.clause,
                meta.spec.show(),
                meta.names[c.script],
                meta.expects[c.script],
                c.dev.short(),
                c.rel.short(),
                members.len()
            );
            let replay = json!({"spec": meta.spec, "script": c.script, "script_name": meta.names[c.script],
                "dev": format!("{:?}", c.dev), "release": format!("{:?}", c.rel), "clause": c.clause});
            for _ in 0..members.len().max(1) {
                report.violation(key.clone(), what.clone(), replay.clone());
            }
        }
    });
    let _ = std::fs::remove_file(&jobs_path);

    let complete = judged_jobs as usize == n_jobs;
    let distinct_nontrivial = distinct.len();
    if samples.is_empty() {
        samples.push(json!("no case judged"));
    }
    let restarts = |s: &PoolStats| json!({"restarts": s.restarts.load(Ordering::Relaxed), "jobs_isolated_after_crash": s.crashed_jobs.load(Ordering::Relaxed),
        "hangs": s.hangs.load(Ordering::Relaxed), "pools_cut_by_deadline": s.incomplete.load(Ordering::Relaxed)});
    if judged_jobs == 0 {
        machinery_error("no job was executed in both profiles within the budget");
    }
    let cov = json!({
        "evaluations": 2 * judged_scripts + 4 * confirm_total.load(Ordering::Relaxed),
        "distinct_nontrivial": distinct_nontrivial,
        "rule": "an evaluation is one script (setter calls + run) executed on the real runner in one profile; distinct_nontrivial counts distinct (fault class, dev outcome, release outcome) triples over non-baseline scripts",
        "samples": samples,
        "exhaustive": enum_exhaustive && complete,
        "circuits": n_jobs,
        "circuits_judged_in_both_profiles": judged_jobs,
        "catalogue": cat_names,
        "e1_families": fam_reports,
        "e1_programs": n_jobs - n_cat,
        "e1_programs_without_satisfying_baseline_skipped": no_baseline.load(Ordering::Relaxed),
        "e1_programs_rejected_by_build": build_rejected.load(Ordering::Relaxed),
        "scripts": n_scripts,
        "scripts_judged": judged_scripts,
        "withheld_but_forced_by_circuit_ok": forced_ok,
        "worker_processes_per_profile": k,
        "dev_pool": restarts(&st_dev),
        "release_pool": restarts(&st_rel),
        "raw_violating_cases_bulk": raw_candidates,
        "violation_groups": groups.len(),
        "isolated_confirmation_runs": confirm_total.load(Ordering::Relaxed),
        "bulk_candidates_not_reproduced_in_isolation": unconfirmed.load(Ordering::Relaxed),
        "outcome_histogram": histo.to_json(),
    });
    finish(&ctx, cov, assumptions, &report);
}
