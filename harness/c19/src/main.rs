//! C19 - the runner fails safely on missing, extra or conflicting inputs, identically in the
//! debug and the optimised profile (engine E7: profile differential).
//!
//! One source, three roles:
//!   * driver  `target/release/c19 <tier> ...`  enumerates circuits (catalogue + every program of
//!     small E1 families) and, per circuit, the fault scripts (`cases::scripts_for`);
//!   * worker  `target/release/c19 --worker ...` and `target/debug/c19 --worker ...` execute every
//!     script against the real `/repo` crates compiled in their profile and print one outcome
//!     per script (`ok:<digest>` / `err:<Variant>` / `panic:<msg>`); a worker that dies is
//!     restarted after the job it died in, whose scripts are then run one per process so that
//!     the crash becomes the outcome of exactly one case;
//!   * the driver compares both profiles against the oracle of the property, job by job as soon
//!     as both profiles have answered (nothing but counters and the smallest violating cases
//!     is kept in memory).
//!
//! Every case that looks violating in the bulk run is re-executed alone in a fresh process of
//! each profile before it is reported, so undefined behaviour in one case cannot taint the
//! verdict of another.

mod cases;

use std::collections::BTreeMap;
use std::io::{BufRead, BufReader, Seek, SeekFrom, Write};
use std::path::{Path, PathBuf};
use std::process::{Command, Stdio};
use std::sync::Mutex;
use std::sync::atomic::{AtomicI64, AtomicU64, Ordering};
use std::sync::mpsc;
use std::time::{Duration, Instant};

use cases::*;
use vpcore::rayon::prelude::*;
use vpcore::serde_json::{self, Value, json};
use vpcore::{Ctx, Report, finish, machinery_error};
use vpe1::enumerate::{AK, Family, VK};
use vpe1::enumerate::{EnumState, next_calls, prefixes, walk};
use vpe1::explore::{SeenSet, Stats, h128, input_vectors};
use vpe1::prog::{Materialized, Program, materialize};

// =======================================================================================
// worker

struct RunAll;
impl Visitor<(u64, Vec<String>)> for RunAll {
    fn go<F: CField>(self, b: Built<F>) -> (u64, Vec<String>) {
        let scripts = scripts_for(&b);
        let outs = scripts
            .iter()
            .enumerate()
            .map(|(i, s)| {
                selftest_abort(i);
                run_caught(&b, s)
            })
            .collect();
        (scripts_hash(&scripts), outs)
    }
}
struct RunOne(usize);
impl Visitor<String> for RunOne {
    fn go<F: CField>(self, b: Built<F>) -> String {
        let scripts = scripts_for(&b);
        selftest_abort(self.0);
        match scripts.get(self.0) {
            Some(s) => run_caught(&b, s),
            None => "nosuchscript".into(),
        }
    }
}
/// Machinery self-test (`--opt selftest_abort=J:S`, release workers only): the process aborts
/// in case (job J, script S) so that restart + per-script isolation can be demonstrated.
static CUR_JOB: AtomicI64 = AtomicI64::new(-1);
fn selftest_abort(script: usize) {
    if !cfg!(debug_assertions)
        && let Ok(v) = std::env::var("C19_SELFTEST_ABORT")
        && let Some((j, s)) = v.split_once(':')
        && j.parse::<i64>().ok() == Some(CUR_JOB.load(Ordering::Relaxed))
        && s.parse::<usize>().ok() == Some(script)
    {
        std::process::abort();
    }
}

fn run_caught<F: CField>(b: &Built<F>, s: &Script) -> String {
    match vpcore::quiet_catch(|| exec_script(&b.circuit, s)) {
        Ok(o) => o,
        Err(msg) => format!("panic:{}", msg.replace('\n', " ")),
    }
}

/// The spec stored at byte `offset` of the jobs file (one JSON line per job).
fn load_spec_at(path: &Path, offset: u64) -> Result<Spec, String> {
    let mut f = std::fs::File::open(path).map_err(|e| format!("{e}"))?;
    f.seek(SeekFrom::Start(offset)).map_err(|e| format!("{e}"))?;
    let mut line = String::new();
    BufReader::new(f).read_line(&mut line).map_err(|e| format!("{e}"))?;
    serde_json::from_str(line.trim_end()).map_err(|e| format!("job line: {e}"))
}

/// `--worker <jobs> --stride K R --after J` | `--worker <jobs> --one J S OFFSET`
fn worker_main(args: &[String]) -> ! {
    vpcore::install_quiet_panic_hook();
    let out = std::io::stdout();
    let mut out = out.lock();
    let _ = writeln!(out, "H {}", cfg!(debug_assertions));
    let path = Path::new(&args[0]);
    let num = |i: usize| -> i64 { args.get(i).and_then(|s| s.parse().ok()).unwrap_or(-1) };
    match args.get(1).map(|s| s.as_str()) {
        Some("--one") => {
            let (j, s, off) = (num(2) as usize, num(3) as usize, num(4).max(0) as u64);
            let _ = writeln!(out, "B {j}");
            let _ = out.flush();
            CUR_JOB.store(j as i64, Ordering::Relaxed);
            let res = vpcore::quiet_catch(|| load_spec_at(path, off).and_then(|spec| with_built(&spec, RunOne(s))));
            match res {
                Ok(Ok(o)) => {
                    let _ = writeln!(out, "O {o}");
                }
                Ok(Err(e)) => {
                    let _ = writeln!(out, "X {j} {e}");
                }
                // the circuit cannot even be constructed in this profile (a panic inside the
                // builder, e.g. a debug_assert): not the runner's doing, reported apart
                Err(msg) => {
                    let _ = writeln!(out, "O buildpanic:{}", msg.replace('\n', " "));
                }
            }
        }
        Some("--stride") => {
            let (k, r) = (num(2).max(1) as usize, num(3).max(0) as usize);
            let after = if args.get(4).map(|s| s.as_str()) == Some("--after") { num(5) } else { -1 };
            let f = std::fs::File::open(path).unwrap_or_else(|e| {
                let _ = writeln!(out, "X 0 cannot read jobs file: {e}");
                std::process::exit(3)
            });
            // streamed: only this process' share of the lines is parsed
            for (j, line) in BufReader::new(f).lines().enumerate() {
                if j % k != r || (j as i64) <= after {
                    continue;
                }
                let Ok(line) = line else { break };
                let _ = writeln!(out, "B {j}");
                let _ = out.flush();
                CUR_JOB.store(j as i64, Ordering::Relaxed);
                let res = vpcore::quiet_catch(|| {
                    serde_json::from_str::<Spec>(&line)
                        .map_err(|e| format!("job line: {e}"))
                        .and_then(|spec| with_built(&spec, RunAll))
                });
                match res {
                    Ok(Ok((h, outs))) => {
                        let _ = writeln!(out, "R {j} {h:016x} {}", serde_json::to_string(&outs).unwrap());
                    }
                    Ok(Err(e)) => {
                        let _ = writeln!(out, "X {j} {e}");
                    }
                    Err(msg) => {
                        let _ = writeln!(out, "P {j} {}", msg.replace('\n', " "));
                    }
                }
            }
            let _ = writeln!(out, "E");
        }
        _ => {
            let _ = writeln!(out, "X 0 bad worker arguments");
        }
    }
    let _ = out.flush();
    std::process::exit(0)
}

// =======================================================================================
// driver: job list

/// fault classes (index = code stored per script)
const FAULTS: &[&str] = &[
    "baseline", "order_reversed", "no_call_empty", "no_pub", "no_priv", "no_inputs", "no_data",
    "pub_short", "pub_long", "priv_short", "priv_long", "twice_equal", "pub_twice_diff",
    "priv_twice_diff", "pub_conflict", "pub_other_valid", "pub_other_value", "priv_conflict",
    "priv_other_valid", "priv_other_value", "data_twice", "data_short", "data_long",
    "data_conflict", "data_unknown_op", "data_on_non_merkle",
];
const EXPECTS: [Expect; 4] = [Expect::MustOk, Expect::Benign, Expect::MustErr, Expect::Withheld];

/// What the driver keeps per job: one byte per script (fault class | expectation << 6), the
/// hash of the script list, where the spec sits in the jobs file, and a size used to pick the
/// smallest representative of a group of violations.
struct JobMeta {
    codes: Box<[u8]>,
    hash: u64,
    offset: u64,
    size: u16,
}
impl JobMeta {
    fn fault(&self, s: usize) -> &'static str {
        FAULTS[(self.codes[s] & 63) as usize]
    }
    fn expect(&self, s: usize) -> Expect {
        EXPECTS[(self.codes[s] >> 6) as usize]
    }
}

struct FullMeta {
    names: Vec<String>,
    codes: Box<[u8]>,
    hash: u64,
}
struct MetaOf;
impl Visitor<FullMeta> for MetaOf {
    fn go<F: CField>(self, b: Built<F>) -> FullMeta {
        let s = scripts_for(&b);
        let codes = s
            .iter()
            .map(|x| {
                let f = FAULTS.iter().position(|f| *f == x.fault).unwrap_or_else(|| {
                    machinery_error(&format!("fault class {} missing from FAULTS", x.fault))
                }) as u8;
                let e = EXPECTS.iter().position(|e| *e == x.expect).unwrap() as u8;
                f | (e << 6)
            })
            .collect();
        FullMeta { names: s.iter().map(|x| x.name.clone()).collect(), codes, hash: scripts_hash(&s) }
    }
}

fn spec_size(s: &Spec) -> u16 {
    match s {
        Spec::Cat(_) => 0,
        Spec::E1 { prog, pubs, privs } => (prog.calls.len() * 16 + pubs.len() + privs.len()).min(65535) as u16,
    }
}

/// Jobs are appended to the jobs file while they are enumerated.
struct JobSink {
    file: std::io::BufWriter<std::fs::File>,
    offset: u64,
    metas: Vec<JobMeta>,
}
impl JobSink {
    fn push(&mut self, spec: &Spec, fm: FullMeta) {
        let mut line = serde_json::to_string(spec).unwrap();
        line.push('\n');
        if let Err(e) = self.file.write_all(line.as_bytes()) {
            machinery_error(&format!("cannot write jobs file: {e}"));
        }
        self.metas.push(JobMeta { codes: fm.codes, hash: fm.hash, offset: self.offset, size: spec_size(spec) });
        self.offset += line.len() as u64;
    }
}

/// Readers of a witness slot in the circuit of a spec (attribution of a profile difference).
struct ReadersOf(u32);
impl Visitor<Vec<String>> for ReadersOf {
    fn go<F: CField>(self, b: Built<F>) -> Vec<String> {
        readers_of(&b.circuit, self.0)
    }
}

fn fam(name: &str, vk: &[VK], k: usize, c: usize, max_pub: usize, max_priv: usize, consts: &[u8], max_wide: usize) -> Family {
    Family {
        name: name.into(),
        value_kinds: vk.to_vec(),
        // AssertBool is left out on purpose: the runner does not evaluate boolean checks
        // (they are an AIR constraint), so a non-boolean value is not a *runner* conflict
        assert_kinds: vec![AK::Connect, AK::AssertZero],
        max_value_ops: k,
        max_asserts: c,
        max_pub,
        max_priv,
        consts: consts.to_vec(),
        max_wide,
        wide_no_atoms: true,
        sym_reduce: true,
        stages: vec![],
        assert_split: None,
    }
}

fn families(thorough: bool) -> Vec<Family> {
    let bin = [VK::Add, VK::Sub, VK::Mul, VK::Div];
    let wide = [VK::Add, VK::Mul, VK::MulAdd, VK::Select, VK::Horner];
    let bits = [VK::Add, VK::Mul, VK::Bits(2), VK::Bits(3)];
    if !thorough {
        vec![
            fam("bin-k2-c1", &bin, 2, 1, 3, 2, &[0, 1, 2], 0),
            fam("bin-k2-conn2", &bin, 2, 2, 2, 1, &[2], 0),
            fam("wide-k2-c1", &wide, 2, 1, 4, 0, &[1, 2], 1),
            fam("bits-k2-c1", &bits, 2, 1, 2, 2, &[1, 2], 0),
        ]
    } else {
        vec![
            fam("bin-k2-c2", &bin, 2, 2, 3, 2, &[0, 1, 2], 0),
            fam("wide-k2-c1", &wide, 2, 1, 5, 1, &[1, 2], 1),
            fam("bits-k2-c2", &bits, 2, 2, 2, 2, &[1, 2], 0),
            fam("bin-k3-c1", &bin, 3, 1, 2, 2, &[2], 0),
            fam("wide-k2-wide2", &[VK::MulAdd, VK::Select, VK::Horner], 2, 1, 5, 0, &[2], 2),
        ]
    }
}

/// Every program of the family, in parallel, WITHOUT subtree pruning: `vpe1::explore::explore`
/// prunes below a state whose (DAG, handle set) was met before, but the remaining budget of
/// the family (value calls / wide calls left) is not part of that state, so which subtrees it
/// drops depends on thread timing and the set of canonical programs varied from run to run.
/// Here every history is visited; `on_canonical` sees each distinct compiler input (DAG nodes
/// + connect set, exact key) once - which of several equivalent histories represents it is the
/// only thing left to timing, and nothing downstream depends on it (classification and
/// scripts are functions of the DAG).
fn explore_all(
    fam: &Family,
    consts: &[BF],
    ctx: &Ctx,
    stop_at: f64,
    seen_keys: &SeenSet,
    stats: &Stats,
    on_canonical: &(dyn Fn(&Program, Materialized<BF>) + Sync),
) {
    let visit = |p: &Program| -> bool {
        if ctx.used() >= stop_at {
            stats.timed_out.store(true, Ordering::Relaxed);
            return false;
        }
        stats.histories.fetch_add(1, Ordering::Relaxed);
        let Ok(m) = materialize::<BF, BF>(p, consts) else {
            stats.build_errors.fetch_add(1, Ordering::Relaxed);
            return false;
        };
        if seen_keys.insert(h128(&m.key())) {
            stats.canonical.fetch_add(1, Ordering::Relaxed);
            on_canonical(p, m);
        }
        true
    };
    let mut units: Vec<(Program, EnumState)> = vec![];
    for (p, st) in prefixes(fam, 1) {
        if visit(&p) {
            for c in next_calls(fam, &st) {
                let mut q = p.clone();
                q.calls.push(c.clone());
                units.push((q, st.after(&c)));
            }
        }
    }
    units.par_iter().for_each(|(p, st)| {
        if visit(p) {
            walk(fam, p, st, &mut |q: &Program, _: &EnumState| visit(q));
        }
    });
}

/// First satisfying, fully defined input vector; vectors whose entries are pairwise distinct
/// and non-zero are preferred (they make swapped / shifted positions visible).
fn find_baseline(m: &vpe1::prog::Materialized<BF>) -> Option<(Vec<u64>, Vec<u64>)> {
    let (n_pub, n_priv) = (m.n_pub, m.n_priv);
    let n = n_pub + n_priv;
    let alpha: Vec<u64> = match n {
        0..=2 => vec![2, 3, 1, 5, 7, 6, 4, 10, 25, 15, 0, P - 1],
        3 => vec![2, 3, 1, 5, 7, 10, 6, 0],
        _ => vec![2, 3, 1, 5, 7, 0],
    };
    let all = input_vectors(&alpha, n);
    let nice = |v: &Vec<u64>| {
        v.iter().all(|x| *x != 0) && (0..v.len()).all(|i| (0..i).all(|j| v[i] != v[j]))
    };
    for pass in 0..2 {
        for v in &all {
            if (pass == 0) != nice(v) {
                continue;
            }
            if dag_classify(&m.nodes, &m.connects, &v[..n_pub], &v[n_pub..]) == Tri::Sat {
                return Some((v[..n_pub].to_vec(), v[n_pub..].to_vec()));
            }
        }
    }
    None
}

// =======================================================================================
// driver: worker pool

#[derive(Clone, Copy, PartialEq, Eq, Debug)]
enum Profile {
    Dev = 0,
    Release = 1,
}
impl Profile {
    fn tag(&self) -> &'static str {
        match self {
            Profile::Dev => "dev",
            Profile::Release => "release",
        }
    }
}

struct Workers {
    dev: PathBuf,
    release: PathBuf,
    tmp: PathBuf,
}
impl Workers {
    fn exe(&self, p: Profile) -> &Path {
        match p {
            Profile::Dev => &self.dev,
            Profile::Release => &self.release,
        }
    }
}

fn locate_workers() -> Workers {
    let me = std::env::current_exe().unwrap_or_else(|e| machinery_error(&format!("current_exe: {e}")));
    let mut roots: Vec<PathBuf> = vec![];
    if let Some(t) = me.parent().and_then(|p| p.parent()) {
        roots.push(t.to_path_buf());
    }
    for k in ["CARGO_TARGET_DIR", "VERIF_TARGET_DIR"] {
        if let Ok(v) = std::env::var(k) {
            roots.push(PathBuf::from(v));
        }
    }
    for r in &roots {
        let (d, rel) = (r.join("debug").join("c19"), r.join("release").join("c19"));
        if d.is_file() && rel.is_file() {
            let tmp = r.join("c19-tmp");
            let _ = std::fs::create_dir_all(&tmp);
            // job files of runs that were killed: drop anything older than an hour
            if let Ok(rd) = std::fs::read_dir(&tmp) {
                for e in rd.flatten() {
                    let old = e
                        .metadata()
                        .and_then(|m| m.modified())
                        .ok()
                        .and_then(|t| t.elapsed().ok())
                        .is_some_and(|d| d > Duration::from_secs(3600));
                    if old {
                        let _ = std::fs::remove_file(e.path());
                    }
                }
            }
            return Workers { dev: d, release: rel, tmp };
        }
    }
    machinery_error(&format!(
        "cannot find both worker binaries (debug/c19 and release/c19) under {roots:?}; run through ./check c19"
    ))
}

fn status_string(st: &std::process::ExitStatus) -> String {
    use std::os::unix::process::ExitStatusExt;
    match (st.code(), st.signal()) {
        (_, Some(s)) => format!("signal{s}"),
        (Some(c), _) => format!("exit{c}"),
        _ => "unknown".into(),
    }
}

/// One script alone in a fresh process. A dead or silent process is the outcome.
fn run_one(w: &Workers, p: Profile, jobs: &Path, j: usize, offset: u64, s: usize) -> String {
    let mut child = Command::new(w.exe(p))
        .arg("--worker")
        .arg(jobs)
        .args(["--one", &j.to_string(), &s.to_string(), &offset.to_string()])
        .stdin(Stdio::null())
        .stdout(Stdio::piped())
        .stderr(Stdio::null())
        .spawn()
        .unwrap_or_else(|e| machinery_error(&format!("spawn worker: {e}")));
    let t0 = Instant::now();
    let status = loop {
        match child.try_wait() {
            Ok(Some(st)) => break Some(st),
            Ok(None) => {
                if t0.elapsed() > Duration::from_secs(30) {
                    let _ = child.kill();
                    let _ = child.wait();
                    break None;
                }
                std::thread::sleep(Duration::from_millis(2));
            }
            Err(e) => machinery_error(&format!("wait worker: {e}")),
        }
    };
    let mut text = String::new();
    if let Some(mut o) = child.stdout.take() {
        use std::io::Read;
        let _ = o.read_to_string(&mut text);
    }
    for l in text.lines() {
        if let Some(o) = l.strip_prefix("O ") {
            return o.to_string();
        }
        if let Some(x) = l.strip_prefix("X ") {
            machinery_error(&format!("worker ({}) cannot build job {j}: {x}", p.tag()));
        }
    }
    match status {
        None => "hang:30s".into(),
        Some(st) => format!("crash:{}", status_string(&st)),
    }
}

#[derive(Default)]
struct PoolStats {
    restarts: AtomicU64,
    crashed_jobs: AtomicU64,
    hangs: AtomicU64,
    incomplete: AtomicU64,
}

/// Runs every job in `p`'s worker, `k` processes side by side (job j goes to process j mod k,
/// in increasing j in both profiles). Each finished job is handed to `submit`.
fn run_profile(
    w: &Workers,
    p: Profile,
    jobs: &Path,
    metas: &[JobMeta],
    k: usize,
    deadline: Instant,
    stats: &PoolStats,
    submit: &(dyn Fn(Profile, usize, Vec<String>) + Sync),
) {
    std::thread::scope(|sc| {
        for r in 0..k {
            sc.spawn(move || {
                let mut after: i64 = -1;
                let mut restarts = 0;
                'respawn: loop {
                    let mut child = Command::new(w.exe(p))
                        .arg("--worker")
                        .arg(jobs)
                        .args(["--stride", &k.to_string(), &r.to_string(), "--after", &after.to_string()])
                        .stdin(Stdio::null())
                        .stdout(Stdio::piped())
                        .stderr(Stdio::null())
                        .spawn()
                        .unwrap_or_else(|e| machinery_error(&format!("spawn worker: {e}")));
                    let stdout = child.stdout.take().unwrap();
                    // bounded: when the driver is slow (back-pressure in `submit`) the worker
                    // blocks on its pipe instead of the lines piling up here
                    let (tx, rx) = mpsc::sync_channel::<String>(64);
                    let reader = std::thread::spawn(move || {
                        for l in BufReader::new(stdout).lines() {
                            let Ok(l) = l else { break };
                            if tx.send(l).is_err() {
                                break;
                            }
                        }
                    });
                    let mut cur: Option<usize> = None;
                    let mut ended = false;
                    let mut silent_ticks = 0u32;
                    loop {
                        if Instant::now() >= deadline {
                            let _ = child.kill();
                            drop(rx);
                            let _ = child.wait();
                            let _ = reader.join();
                            stats.incomplete.fetch_add(1, Ordering::Relaxed);
                            return;
                        }
                        match rx.recv_timeout(Duration::from_secs(2)) {
                            Ok(l) => {
                                silent_ticks = 0;
                                let mut it = l.splitn(4, ' ');
                                match it.next() {
                                    Some("H") => {
                                        let dbg = it.next() == Some("true");
                                        if dbg != (p == Profile::Dev) {
                                            machinery_error(&format!(
                                                "{} worker reports debug_assertions={dbg}",
                                                p.tag()
                                            ));
                                        }
                                    }
                                    Some("B") => {
                                        cur = it.next().and_then(|x| x.parse().ok());
                                    }
                                    Some("R") => {
                                        let j: usize = it.next().and_then(|x| x.parse().ok()).unwrap_or(usize::MAX);
                                        let h = it.next().unwrap_or("");
                                        let arr: Vec<String> =
                                            serde_json::from_str(it.next().unwrap_or("[]")).unwrap_or_default();
                                        if j >= metas.len()
                                            || h != format!("{:016x}", metas[j].hash)
                                            || arr.len() != metas[j].codes.len()
                                        {
                                            machinery_error(&format!(
                                                "{} worker enumerated a different script list for job {j}",
                                                p.tag()
                                            ));
                                        }
                                        submit(p, j, arr);
                                        after = j as i64;
                                        cur = None;
                                    }
                                    Some("P") => {
                                        // builder panicked in this profile: job not judged
                                        let j: usize = it.next().and_then(|x| x.parse().ok()).unwrap_or(usize::MAX);
                                        let msg: Vec<&str> = it.collect();
                                        if j < metas.len() {
                                            submit(p, j, vec![format!("buildpanic:{}", msg.join(" "))]);
                                            after = j as i64;
                                        }
                                        cur = None;
                                    }
                                    Some("X") => machinery_error(&format!("{} worker: {l}", p.tag())),
                                    Some("E") => ended = true,
                                    _ => {}
                                }
                            }
                            Err(mpsc::RecvTimeoutError::Timeout) => {
                                // a job takes milliseconds: 60 s of silence is a hang; kill the
                                // process (the reader then sees EOF and the job in progress is
                                // isolated script by script)
                                silent_ticks += 1;
                                if silent_ticks >= 30 {
                                    let _ = child.kill();
                                }
                            }
                            Err(mpsc::RecvTimeoutError::Disconnected) => break,
                        }
                    }
                    let _ = child.wait();
                    let _ = reader.join();
                    if ended {
                        return;
                    }
                    // the process died (or was killed for silence) before finishing
                    restarts += 1;
                    stats.restarts.fetch_add(1, Ordering::Relaxed);
                    if restarts > 200 {
                        machinery_error(&format!("{} worker keeps dying", p.tag()));
                    }
                    if let Some(j) = cur {
                        stats.crashed_jobs.fetch_add(1, Ordering::Relaxed);
                        // isolate: every script of that job in its own process
                        let outs: Vec<String> = (0..metas[j].codes.len())
                            .map(|s| run_one(w, p, jobs, j, metas[j].offset, s))
                            .collect();
                        stats
                            .hangs
                            .fetch_add(outs.iter().filter(|o| o.starts_with("hang")).count() as u64, Ordering::Relaxed);
                        submit(p, j, outs);
                        after = j as i64;
                    }
                    continue 'respawn;
                }
            });
        }
    });
}

// =======================================================================================
// oracle

#[derive(Clone, Debug, PartialEq)]
struct Out {
    kind: String,    // ok | err | panic | crash | hang
    variant: String, // error variant, or "" for ok
    rest: String,    // digest (ok) / where:wid (err) / message
}
fn parse_out(s: &str) -> Out {
    let mut it = s.splitn(3, ':');
    let kind = it.next().unwrap_or("").to_string();
    let second = it.next().unwrap_or("").to_string();
    let third = it.next().unwrap_or("").to_string();
    match kind.as_str() {
        "ok" => Out { kind, variant: String::new(), rest: second },
        "err" => Out { kind, variant: second, rest: third },
        _ => Out { kind, variant: String::new(), rest: format!("{second}:{third}") },
    }
}
impl Out {
    fn short(&self) -> String {
        match self.kind.as_str() {
            "ok" => "Ok".into(),
            "err" => format!("Err({})", self.variant),
            k => format!("{k}({})", self.rest.chars().take(60).collect::<String>()),
        }
    }
    fn abnormal(&self) -> bool {
        !matches!(self.kind.as_str(), "ok" | "err")
    }
}

/// The property's clauses. Returns the first clause violated.
fn judge(expect: Expect, dev: &Out, rel: &Out, base_dev: &Out, base_rel: &Out) -> Option<&'static str> {
    if dev.abnormal() || rel.abnormal() {
        return Some("abort"); // panic / crash / hang instead of a Result
    }
    if dev.kind != rel.kind || dev.variant != rel.variant {
        return Some("profile_diff");
    }
    if dev.kind == "ok" && dev.rest != rel.rest {
        return Some("profile_diff_values");
    }
    match expect {
        Expect::MustOk => (dev.kind != "ok").then_some("valid_inputs_rejected"),
        Expect::Benign => None,
        Expect::MustErr => (dev.kind == "ok").then_some("ok_on_fault"),
        Expect::Withheld => {
            // Ok is admissible only when the circuit forces the withheld slots to exactly the
            // values the caller would have supplied (same witness value set as the baseline)
            let bad = |o: &Out, b: &Out| o.kind == "ok" && b.kind == "ok" && o.rest != b.rest;
            (bad(dev, base_dev) || bad(rel, base_rel)).then_some("ok_from_unset")
        }
    }
}

#[derive(Clone)]
struct Candidate {
    job: usize,
    script: usize,
    clause: &'static str,
    dev: Out,
    rel: Out,
}

/// Canonical key. A profile difference on a withheld input is attributed to the unchecked
/// witness read of non-primitive executors when the dev profile names a slot (`WitnessNotSet`)
/// whose first reader in execution order is a non-primitive op (see `readers_of`); the key is
/// then `profile_diff:npo_input_unset:<op family>` and ignores the release outcome, which is
/// undefined behaviour and may be anything (other error, Ok, crash).
fn key_of(spec: &Spec, fault: &str, c: &Candidate) -> String {
    let withheld = matches!(fault, "no_pub" | "no_priv" | "no_inputs");
    if withheld
        && matches!(spec, Spec::Cat(_)) // E1 programs contain no non-primitive op
        && c.dev.kind == "err"
        && c.dev.variant == "WitnessNotSet"
        && (c.rel.kind != c.dev.kind || c.rel.variant != c.dev.variant)
        && let Some(w) = c.dev.rest.rsplit(':').next().and_then(|x| x.parse::<u32>().ok())
        && let Ok(readers) = with_built(spec, ReadersOf(w))
        && !readers.is_empty()
        && readers[0] != "alu"
        && readers[0] != "hint"
    {
        return format!("profile_diff:npo_input_unset:{}", readers[0]);
    }
    format!("{}:{}:{}:dev={}", c.clause, fault, spec.show(), c.dev.short())
}

/// Violations with one cause: how many cases, and the few smallest (size, show, case).
#[derive(Default)]
struct Group {
    count: u64,
    best: Vec<(u16, String, Candidate)>,
}
const KEEP: usize = 6;

#[derive(Default)]
struct Agg {
    histo: BTreeMap<String, u64>,
    distinct: BTreeMap<String, u64>,
    judged_jobs: u64,
    not_constructible: u64,
    not_constructible_samples: Vec<Value>,
    judged_scripts: u64,
    forced_ok: u64,
    raw_candidates: u64,
    samples: Vec<Value>,
    groups: BTreeMap<String, Group>,
}

struct Judge<'a> {
    metas: &'a [JobMeta],
    n_cat: usize,
    jobs_path: &'a Path,
    deadline: Instant,
    /// result of the profile that answered first, per job
    pending: Vec<Mutex<Option<(Profile, Vec<String>)>>>,
    /// jobs answered by this profile only (back-pressure: the profile that is ahead waits)
    ahead: [AtomicI64; 2],
    agg: Mutex<Agg>,
}
const MAX_AHEAD: i64 = 40_000;

impl Judge<'_> {
    /// Called by the pools. Deadlock-free: a pool thread only ever waits before storing a
    /// *first* answer; within one stride both profiles walk the same jobs in the same order, so
    /// the profile that is behind only produces second answers and never waits.
    fn submit(&self, p: Profile, j: usize, outs: Vec<String>) {
        loop {
            {
                let mut slot = self.pending[j].lock().unwrap();
                if let Some((q, other)) = slot.take() {
                    drop(slot);
                    self.ahead[q as usize].fetch_sub(1, Ordering::Relaxed);
                    let (d, r) = if p == Profile::Dev { (outs, other) } else { (other, outs) };
                    self.judge_job(j, &d, &r);
                    return;
                }
                if self.ahead[p as usize].load(Ordering::Relaxed) < MAX_AHEAD || Instant::now() >= self.deadline {
                    *slot = Some((p, outs));
                    self.ahead[p as usize].fetch_add(1, Ordering::Relaxed);
                    return;
                }
            }
            std::thread::sleep(Duration::from_millis(3));
        }
    }

    fn judge_job(&self, j: usize, d: &[String], r: &[String]) {
        let meta = &self.metas[j];
        // The builder itself panicked in one profile (observed: a debug_assert in
        // CircuitBuilder::connect): there is no circuit to execute, hence no claim of C19.
        // Counted and shown in the evidence, never judged.
        for (p, o) in [("dev", d), ("release", r)] {
            if o.len() != meta.codes.len() || o.first().is_some_and(|x| x.starts_with("buildpanic:")) {
                let mut a = self.agg.lock().unwrap();
                a.not_constructible += 1;
                if a.not_constructible_samples.len() < 3 {
                    let show = load_spec_at(self.jobs_path, meta.offset).map(|s| s.show()).unwrap_or_default();
                    a.not_constructible_samples.push(json!({"circuit": show, "profile": p,
                        "message": o.first().cloned().unwrap_or_default()}));
                }
                return;
            }
        }
        let (bd, br) = (parse_out(&d[0]), parse_out(&r[0]));
        let mut histo: BTreeMap<String, u64> = BTreeMap::new();
        let mut forced = 0;
        let mut cands: Vec<Candidate> = vec![];
        let mut sample: Option<(usize, &'static str)> = None;
        for s in 0..meta.codes.len() {
            let (od, or) = (parse_out(&d[s]), parse_out(&r[s]));
            *histo.entry(format!("{}|{}|{}", meta.fault(s), od.short(), or.short())).or_insert(0) += 1;
            let e = meta.expect(s);
            if e == Expect::Withheld && od.kind == "ok" && or.kind == "ok" && od.rest == bd.rest {
                forced += 1;
            }
            if let Some(clause) = judge(e, &od, &or, &bd, &br) {
                cands.push(Candidate { job: j, script: s, clause, dev: od, rel: or });
            } else if j < self.n_cat && s % 9 == 3 || j % 20011 == 77 && s == 5 {
                sample = Some((s, meta.fault(s)));
            }
        }
        // the spec is needed only for violating jobs and samples
        let spec = if !cands.is_empty() || sample.is_some() {
            load_spec_at(self.jobs_path, meta.offset).ok()
        } else {
            None
        };
        let mut keyed: Vec<(String, String, Candidate)> = vec![];
        if let Some(spec) = &spec {
            for c in cands {
                let key = key_of(spec, meta.fault(c.script), &c);
                // catalogue circuits and attributed findings keep their full key; E1 programs
                // are grouped by (clause, fault class, dev outcome) and later represented by
                // the smallest program of the group
                let g = if j < self.n_cat || key.starts_with("profile_diff:npo_input_unset:") {
                    key
                } else {
                    format!("e1|{}:{}:dev={}", c.clause, meta.fault(c.script), c.dev.short())
                };
                keyed.push((g, spec.show(), c));
            }
        }
        let mut a = self.agg.lock().unwrap();
        a.judged_jobs += 1;
        a.judged_scripts += meta.codes.len() as u64;
        a.forced_ok += forced;
        for (k, v) in histo {
            if !k.starts_with("baseline|") {
                *a.distinct.entry(k.clone()).or_insert(0) += v;
            }
            *a.histo.entry(k).or_insert(0) += v;
        }
        if let (Some((s, f)), Some(spec)) = (sample, &spec)
            && a.samples.len() < 10
        {
            a.samples.push(json!({"circuit": spec.show(), "script_index": s, "fault": f,
                "expect": format!("{:?}", meta.expect(s)), "dev": d[s], "release": r[s]}));
        }
        for (g, show, c) in keyed {
            a.raw_candidates += 1;
            let grp = a.groups.entry(g).or_default();
            grp.count += 1;
            grp.best.push((meta.size, show, c));
            grp.best.sort_by(|x, y| (x.0, &x.1, x.2.script).cmp(&(y.0, &y.1, y.2.script)));
            grp.best.truncate(KEEP);
        }
    }
}

// =======================================================================================
// driver main

fn main() {
    let args: Vec<String> = std::env::args().skip(1).collect();
    if args.first().map(|s| s.as_str()) == Some("--worker") {
        worker_main(&args[1..]);
    }
    vpcore::install_quiet_panic_hook();
    let ctx = Ctx::from_args("C19", "fault_enumeration");
    let report = Report::new();
    let workers = locate_workers();
    if let Some(v) = ctx.opt("selftest_abort") {
        // inherited by every worker; only release-profile workers act on it
        unsafe { std::env::set_var("C19_SELFTEST_ABORT", v) };
    }
    let jobs_path = workers.tmp.join(format!("jobs-{}.jsonl", std::process::id()));
    let assumptions = vec![
        "the dev-profile worker (debug_assertions on, opt-level 1) stands for 'debug builds', the release-profile worker (opt-level 3) for 'optimized builds'; both report their cfg and are built from the same sources by ./check".to_string(),
        "two outcomes are 'identical' when both are Ok with the same set of witness values, or both Err with the same CircuitError variant (messages and payloads are not compared)".to_string(),
        "a withheld input that the circuit itself forces (connected to a constant / solved backwards by the runner) may yield Ok, but only with exactly the baseline's witness values".to_string(),
        "E1 programs: an input vector is 'conflicting' when the node-level reference semantics of the builder's DAG (cases::dag_classify) says a connect / assert_zero / bit-reconstruction relation is violated; assert_bool is excluded (not evaluated by the runner); vectors hitting a zero divisor carry no claim".to_string(),
    ];
    let open_sink = || JobSink {
        file: std::io::BufWriter::new(
            std::fs::File::create(&jobs_path)
                .unwrap_or_else(|e| machinery_error(&format!("cannot create {}: {e}", jobs_path.display()))),
        ),
        offset: 0,
        metas: vec![],
    };

    // ---------------------------------------------------------------- replay
    if let Some(path) = &ctx.replay {
        let r = vpcore::load_replay(path);
        let spec: Spec = serde_json::from_value(r["spec"].clone())
            .unwrap_or_else(|e| machinery_error(&format!("bad replay: {e}")));
        let fm = with_built(&spec, MetaOf).unwrap_or_else(|e| machinery_error(&format!("replay build: {e}")));
        let names = fm.names.clone();
        let s = r["script"].as_u64().unwrap_or(0) as usize;
        if s >= names.len() {
            machinery_error("replay: no such script");
        }
        let mut sink = open_sink();
        sink.push(&spec, fm);
        let _ = sink.file.flush();
        let meta = &sink.metas[0];
        println!("replaying {} / {}", spec.show(), names[s]);
        let o = |p, s| parse_out(&run_one(&workers, p, &jobs_path, 0, 0, s));
        let (bd, br) = (o(Profile::Dev, 0), o(Profile::Release, 0));
        let (d, rl) = (o(Profile::Dev, s), o(Profile::Release, s));
        println!("  baseline: dev={bd:?} release={br:?}\n  case:     dev={d:?} release={rl:?}");
        if let Some(clause) = judge(meta.expect(s), &d, &rl, &bd, &br) {
            let c = Candidate { job: 0, script: s, clause, dev: d.clone(), rel: rl.clone() };
            let key = key_of(&spec, meta.fault(s), &c);
            report.violation(
                key,
                format!("[{clause}] {} / {}: dev={} release={}", spec.show(), names[s], d.short(), rl.short()),
                json!({"spec": spec, "script": s, "script_name": names[s]}),
            );
        }
        let _ = std::fs::remove_file(&jobs_path);
        let cov = json!({"evaluations": 4, "distinct_nontrivial": 2, "rule": "replay of one stored case in both profiles (baseline + case)",
            "samples": [format!("{} / {}", spec.show(), names[s])], "replay": true});
        finish(&ctx, cov, assumptions, &report);
    }

    // ---------------------------------------------------------------- enumerate jobs
    let thorough = !ctx.quick();
    let mut sink = open_sink();
    let mut cat_names = catalogue(thorough);
    if let Some(only) = ctx.opt("cat") {
        cat_names.retain(|n| *n == only);
    }
    for name in &cat_names {
        let spec = Spec::Cat(name.to_string());
        match with_built(&spec, MetaOf) {
            Ok(fm) => sink.push(&spec, fm),
            Err(e) => machinery_error(&format!("catalogue circuit {name}: {e}")),
        }
    }
    let n_cat = sink.metas.len();

    let mut fam_reports = vec![];
    let mut enum_exhaustive = true;
    let sink = Mutex::new(sink);
    let no_baseline = AtomicU64::new(0);
    let build_rejected = AtomicU64::new(0);
    let mut fams = if ctx.opt("e1") == Some("off") { vec![] } else { families(thorough) };
    if let Some(only) = ctx.opt("fam") {
        fams.retain(|f| f.name == only);
    }
    let seen_keys = SeenSet::default();
    let cs = e1_consts();
    // enumeration may use the first 45 % of the budget (families in order, simplest first)
    for fam in fams.iter() {
        let stats = Stats::default();
        let t0 = ctx.elapsed_s();
        explore_all(fam, &cs, &ctx, 0.45, &seen_keys, &stats, &|p, m| {
            let Some((pubs, privs)) = find_baseline(&m) else {
                no_baseline.fetch_add(1, Ordering::Relaxed);
                return;
            };
            let spec = Spec::E1 { prog: p.clone(), pubs, privs };
            match with_built(&spec, MetaOf) {
                Ok(fm) => sink.lock().unwrap().push(&spec, fm),
                Err(_) => {
                    build_rejected.fetch_add(1, Ordering::Relaxed);
                }
            }
        });
        let to = stats.timed_out.load(Ordering::Relaxed);
        enum_exhaustive &= !to;
        fam_reports.push(json!({
            "family": fam.name, "bounds": fam,
            "histories": stats.histories.load(Ordering::Relaxed),
            "new_canonical_programs": stats.canonical.load(Ordering::Relaxed),
            "exhaustive": !to, "wall_s": ctx.elapsed_s() - t0,
        }));
        eprintln!(
            "family {} histories={} canonical={} exhaustive={} t={:.1}s",
            fam.name,
            stats.histories.load(Ordering::Relaxed),
            stats.canonical.load(Ordering::Relaxed),
            !to,
            ctx.elapsed_s() - t0
        );
    }
    let mut sink = sink.into_inner().unwrap();
    if let Err(e) = sink.file.flush() {
        machinery_error(&format!("cannot write jobs file: {e}"));
    }
    let metas = std::mem::take(&mut sink.metas);
    drop(sink);
    let n_jobs = metas.len();
    let n_scripts: usize = metas.iter().map(|m| m.codes.len()).sum();
    eprintln!("jobs={n_jobs} (catalogue {n_cat}) scripts={n_scripts} enumerated in {:.1}s", ctx.elapsed_s());

    // ---------------------------------------------------------------- run both profiles, judge as results arrive
    let deadline = ctx.start + ctx.budget.mul_f64(0.85);
    let k: usize = ctx.opt("procs").and_then(|s| s.parse().ok()).unwrap_or(if n_jobs > 64 { 6 } else { 1 });
    let (st_dev, st_rel) = (PoolStats::default(), PoolStats::default());
    let judge_state = Judge {
        metas: &metas,
        n_cat,
        jobs_path: &jobs_path,
        deadline,
        pending: metas.iter().map(|_| Mutex::new(None)).collect(),
        ahead: [AtomicI64::new(0), AtomicI64::new(0)],
        agg: Mutex::new(Agg::default()),
    };
    let submit = |p: Profile, j: usize, outs: Vec<String>| judge_state.submit(p, j, outs);
    std::thread::scope(|sc| {
        sc.spawn(|| run_profile(&workers, Profile::Dev, &jobs_path, &metas, k, deadline, &st_dev, &submit));
        sc.spawn(|| run_profile(&workers, Profile::Release, &jobs_path, &metas, k, deadline, &st_rel, &submit));
    });
    eprintln!("bulk run done at {:.1}s", ctx.elapsed_s());
    let agg = judge_state.agg.into_inner().unwrap();

    // ---------------------------------------------------------------- confirm each group alone in fresh processes
    let confirm_total = AtomicU64::new(0);
    let unconfirmed = AtomicU64::new(0);
    let group_list: Vec<(&String, &Group)> = agg.groups.iter().collect();
    group_list.par_iter().for_each(|(_g, grp)| {
        for (_, _, c) in grp.best.iter() {
            let meta = &metas[c.job];
            let o = |p, s| parse_out(&run_one(&workers, p, &jobs_path, c.job, meta.offset, s));
            let (bd, br) = (o(Profile::Dev, 0), o(Profile::Release, 0));
            let (d, r) = (o(Profile::Dev, c.script), o(Profile::Release, c.script));
            confirm_total.fetch_add(1, Ordering::Relaxed);
            let Some(clause) = judge(meta.expect(c.script), &d, &r, &bd, &br) else {
                unconfirmed.fetch_add(1, Ordering::Relaxed);
                continue;
            };
            let cc = Candidate { job: c.job, script: c.script, clause, dev: d, rel: r };
            let Ok(spec) = load_spec_at(&jobs_path, meta.offset) else { continue };
            let name = with_built(&spec, MetaOf).map(|f| f.names[c.script].clone()).unwrap_or_default();
            let key = key_of(&spec, meta.fault(c.script), &cc);
            let what = format!(
                "[{}] {} / {} (expect {:?}): dev={} release={} - {} bulk cases in this group",
                cc.clause,
                spec.show(),
                name,
                meta.expect(c.script),
                cc.dev.short(),
                cc.rel.short(),
                grp.count
            );
            let replay = json!({"spec": spec, "script": c.script, "script_name": name,
                "dev": format!("{:?}", cc.dev), "release": format!("{:?}", cc.rel), "clause": cc.clause});
            for _ in 0..grp.count.clamp(1, 100_000) {
                report.violation(key.clone(), what.clone(), replay.clone());
            }
            break;
        }
    });
    let _ = std::fs::remove_file(&jobs_path);

    let complete = (agg.judged_jobs + agg.not_constructible) as usize == n_jobs;
    if agg.judged_jobs == 0 {
        machinery_error("no job was executed in both profiles within the budget");
    }
    let mut samples = agg.samples.clone();
    if samples.is_empty() {
        samples.push(json!("no sample collected"));
    }
    let pool = |s: &PoolStats| json!({"restarts": s.restarts.load(Ordering::Relaxed), "jobs_isolated_after_crash": s.crashed_jobs.load(Ordering::Relaxed),
        "hangs": s.hangs.load(Ordering::Relaxed), "pools_cut_by_deadline": s.incomplete.load(Ordering::Relaxed)});
    let histo: BTreeMap<String, u64> = agg
        .histo
        .iter()
        .map(|(k, v)| {
            let mut it = k.split('|');
            (format!("{} dev={} release={}", it.next().unwrap_or(""), it.next().unwrap_or(""), it.next().unwrap_or("")), *v)
        })
        .collect();
    let cov = json!({
        "evaluations": 2 * agg.judged_scripts + 4 * confirm_total.load(Ordering::Relaxed),
        "distinct_nontrivial": agg.distinct.len(),
        "rule": "an evaluation is one script (setter calls + run) executed on the real runner in one profile; distinct_nontrivial counts distinct (fault class, dev outcome, release outcome) triples over non-baseline scripts",
        "samples": samples,
        "exhaustive": enum_exhaustive && complete,
        "circuits": n_jobs,
        "circuits_judged_in_both_profiles": agg.judged_jobs,
        "circuits_whose_construction_panics_in_one_profile_not_judged": agg.not_constructible,
        "construction_panic_samples": agg.not_constructible_samples,
        "catalogue": cat_names,
        "e1_families": fam_reports,
        "e1_programs": n_jobs - n_cat,
        "e1_programs_without_satisfying_baseline_skipped": no_baseline.load(Ordering::Relaxed),
        "e1_programs_rejected_by_build": build_rejected.load(Ordering::Relaxed),
        "scripts": n_scripts,
        "scripts_judged": agg.judged_scripts,
        "withheld_but_forced_by_circuit_ok": agg.forced_ok,
        "worker_processes_per_profile": k,
        "dev_pool": pool(&st_dev),
        "release_pool": pool(&st_rel),
        "raw_violating_cases_bulk": agg.raw_candidates,
        "violation_groups": agg.groups.len(),
        "isolated_confirmation_runs": confirm_total.load(Ordering::Relaxed),
        "bulk_candidates_not_reproduced_in_isolation": unconfirmed.load(Ordering::Relaxed),
        "outcome_histogram": histo,
    });
    finish(&ctx, cov, assumptions, &report);
}
