fn main() {
    eprintln!("MACHINERY-ERROR: check c19 not built yet");
    std::process::exit(2);
}
