fn main() {
    eprintln!("MACHINERY-ERROR: check c20 not built yet");
    std::process::exit(2);
}
