//! C20 — "Verifier arithmetic gadgets equal their native counterparts".
//!
//! Technique: exhaustive enumeration of each gadget's (small, explicitly bounded) parameter
//! domain. For every case a tiny circuit is built around the REAL gadget of `/repo`, executed
//! by the real runner, and the value of the gadget's output target (read from the witness
//! table through `circuit.expr_to_widx`) is compared with the value the native Plonky3 crates
//! compute for the same quantity.
//!
//! * alphabet  : gadget × structural parameters (domain size, shift, #chunks, ZK, period,
//!               length, exponent, height set, consumed bits) × point / index alphabet ×
//!               input mode (inputs allocated as public inputs | as circuit constants — the
//!               latter drives the builder's constant short-cuts) × field
//! * bound     : see `Bounds::for_tier`
//! * oracle    : value equality with the native p3 function (`PolynomialSpace::*`,
//!               `p3_uni_stark::recompose_quotient_from_chunks`, `exp_u64`, `horner`, the
//!               index→point formulas of `p3_fri::verifier`). A build/run error on an input
//!               for which the native function is defined is a violation as well. Inputs on
//!               which the native function itself panics (division by zero on a domain
//!               point, `0⁻¹` inside barycentric interpolation) are outside the contract and
//!               skipped (counted).
//!
//! No sampling: every loop below walks a finite list completely; `VERIF_SEED` only rotates the
//! concrete "generic" field elements used as points / coefficients.
//!
//! Verdict keys: violating cases are grouped by `gadget:clause[:output]`; the key is the group
//! plus its lowest-rank (smallest field / shape / input) case. One class is a known finding of
//! the unchanged tree and keyed by the class alone: `quotient_zeta_on_chunk_domain.*` (zeta on
//! a quotient chunk domain makes the gadget divide by zero while the native function is
//! defined). A gadget whose build blows up memory on a valid input is reported by the
//! watchdog in `main` as `resource_blowup`.

mod pcs;

use std::collections::{BTreeMap, HashSet};
use std::hash::{Hash, Hasher};
use std::sync::Mutex;
use std::sync::atomic::{AtomicBool, AtomicU64, Ordering};

use p3_circuit::{Circuit, CircuitBuilder, ExprId};
use p3_commit::PolynomialSpace;
use p3_field::{
    BasedVectorSpace, ExtensionField, Field, HornerIter, PrimeCharacteristicRing, PrimeField64,
    TwoAdicField,
};
use p3_recursion::pcs::fri::verifier_verif_hooks as hooks;
use p3_recursion::verifier::verif_evaluate_periodic_columns_circuit;
use p3_util::reverse_bits_len;
use pcs::{Coset, PcsGadgets};
use vpcore::rayon::prelude::*;
use vpcore::serde_json::{Value, json};
use vpcore::{Ctx, Histo, Report, finish, quiet_catch};

// ---------------------------------------------------------------------------------------
// bounds

#[derive(Clone, Debug, serde::Serialize)]
struct Bounds {
    /// number of generic extension elements in the point alphabet
    n_ext: usize,
    /// selectors / vanishing: domain log sizes 0..=max
    sel_max_log: usize,
    /// quotient: (min,max) degree bits, max log #chunks (before ZK doubling)
    quo_deg_bits: (usize, usize),
    quo_max_log_chunks: usize,
    /// periodic: trace domain log sizes 0..=max
    per_max_log: usize,
    /// evaluate_polynomial lengths 1..=max
    poly_max_len: usize,
    /// circuit_exp_by_constant: dense exponents 1..=max, then 2^k, 2^k±1 for k<=max_k
    exp_dense: usize,
    exp_max_k: usize,
    /// final query point: log heights 1..=max (bits public), 1..=max_const (bits constants)
    fqp_max_log: usize,
    fqp_max_log_const: usize,
    /// evaluation points: log global max heights 1..=max, all non-empty height subsets
    evp_max_log: usize,
    evp_max_log_const: usize,
    /// builder primitives
    pow2_max: usize,
    bits_exhaustive: usize,
}

impl Bounds {
    fn for_tier(quick: bool) -> Bounds {
        if quick {
            Bounds {
                n_ext: 4,
                sel_max_log: 24,
                quo_deg_bits: (0, 12),
                quo_max_log_chunks: 4,
                per_max_log: 8,
                poly_max_len: 32,
                exp_dense: 2000,
                exp_max_k: 62,
                fqp_max_log: 11,
                fqp_max_log_const: 8,
                evp_max_log: 8,
                evp_max_log_const: 6,
                pow2_max: 32,
                bits_exhaustive: 11,
            }
        } else {
            Bounds {
                n_ext: 6,
                sel_max_log: 32,
                quo_deg_bits: (0, 16),
                quo_max_log_chunks: 5,
                per_max_log: 10,
                poly_max_len: 128,
                exp_dense: 20000,
                exp_max_k: 62,
                fqp_max_log: 14,
                fqp_max_log_const: 10,
                evp_max_log: 10,
                evp_max_log_const: 7,
                pow2_max: 64,
                bits_exhaustive: 14,
            }
        }
    }
}

// ---------------------------------------------------------------------------------------
// engine

#[derive(Clone, Copy, PartialEq, Eq, Debug)]
enum Mode {
    /// gadget inputs are public inputs of the circuit (one build, one run per input vector)
    Pub,
    /// gadget inputs are circuit constants (one build per input vector)
    Const,
}
impl Mode {
    fn tag(&self) -> &'static str {
        match self {
            Mode::Pub => "pub",
            Mode::Const => "const",
        }
    }
}

#[derive(Clone, Debug, PartialEq, Eq, serde::Serialize, serde::Deserialize)]
struct CaseId {
    field: String,
    gadget: String,
    /// structural parameters
    shape: String,
    /// name of the input vector (point / index)
    input: String,
    mode: String,
}
impl CaseId {
    fn show(&self) -> String {
        format!(
            "{}:{}[{}]@{}/{}",
            self.field, self.gadget, self.shape, self.input, self.mode
        )
    }
}

struct Pending {
    rank: u64,
    case: CaseId,
    what: String,
    detail: Value,
    count: u64,
}

#[derive(Default, Clone, Copy)]
struct GStat {
    cases: u64,
    builds: u64,
    runs: u64,
    outputs_compared: u64,
    native_undefined: u64,
    nontrivial_outputs: u64,
}

struct Eng<'a> {
    ctx: &'a Ctx,
    bounds: Bounds,
    filter: Option<CaseId>,
    /// violating cases grouped by `gadget:clause:output`; the lowest-rank case is kept as the
    /// canonical minimal form (ranks grow with field, structural size, input index)
    viol: Mutex<BTreeMap<String, Pending>>,
    /// hashes of (gadget, output value) for compared outputs whose value is not 0/1
    distinct: Mutex<HashSet<u64>>,
    gstats: Mutex<BTreeMap<String, GStat>>,
    histo: Histo,
    samples: Mutex<BTreeMap<String, Value>>,
    timed_out: AtomicBool,
    skipped_sweeps: AtomicU64,
    /// sweeps currently executing (named by the watchdog when a gadget runs away)
    in_flight: Mutex<std::collections::BTreeSet<String>>,
}

fn coeffs<F: PrimeField64, EF: BasedVectorSpace<F>>(v: &EF) -> Vec<u64> {
    v.as_basis_coefficients_slice()
        .iter()
        .map(|c| c.as_canonical_u64())
        .collect()
}

struct Built<EF> {
    circuit: Circuit<EF>,
    outs: Vec<ExprId>,
}

type BuildFn<'f, EF> =
    dyn Fn(&mut CircuitBuilder<EF>, &[ExprId]) -> Result<Vec<ExprId>, String> + 'f;

fn build_circuit<EF: Field + Hash + Eq>(
    mode: Mode,
    n_in: usize,
    vals: &[EF],
    f: &BuildFn<'_, EF>,
) -> Result<Built<EF>, String> {
    quiet_catch(|| {
        let mut cb = CircuitBuilder::<EF>::new();
        let ins: Vec<ExprId> = match mode {
            Mode::Pub => (0..n_in).map(|_| cb.public_input()).collect(),
            Mode::Const => vals.iter().map(|v| cb.define_const(*v)).collect(),
        };
        let outs = f(&mut cb, &ins)?;
        let circuit = cb.build().map_err(|e| format!("build error: {e:?}"))?;
        Ok(Built { circuit, outs })
    })
    .unwrap_or_else(|p| Err(format!("panic while building: {p}")))
}

fn run_circuit<EF: Field>(b: &Built<EF>, pubs: &[EF]) -> Result<Vec<Option<EF>>, String> {
    quiet_catch(|| {
        let mut r = b.circuit.runner();
        r.set_public_inputs(pubs)
            .map_err(|e| format!("set_public_inputs: {e:?}"))?;
        let tr = r.run().map_err(|e| format!("run error: {e:?}"))?;
        Ok(b.outs
            .iter()
            .map(|e| {
                b.circuit
                    .expr_to_widx
                    .get(e)
                    .and_then(|w| tr.witness_trace.get_value(*w).copied())
            })
            .collect())
    })
    .unwrap_or_else(|p| Err(format!("panic while running: {p}")))
}

/// Second observation channel for an output target that has no witness slot of its own:
/// rebuild the circuit with `connect(out, const expected)`; the run succeeds iff equal.
fn assert_mode_matches<EF: Field + Hash + Eq>(
    mode: Mode,
    n_in: usize,
    vals: &[EF],
    f: &BuildFn<'_, EF>,
    out_idx: usize,
    expected: EF,
) -> Result<(), String> {
    let g = |cb: &mut CircuitBuilder<EF>, ins: &[ExprId]| -> Result<Vec<ExprId>, String> {
        let outs = f(cb, ins)?;
        let c = cb.define_const(expected);
        cb.connect(outs[out_idx], c);
        Ok(outs)
    };
    let b = build_circuit(mode, n_in, vals, &g)?;
    let pubs: &[EF] = if mode == Mode::Pub { vals } else { &[] };
    run_circuit(&b, pubs).map(|_| ())
}

impl<'a> Eng<'a> {
    fn new(ctx: &'a Ctx, bounds: Bounds, filter: Option<CaseId>) -> Self {
        Eng {
            ctx,
            bounds,
            filter,
            viol: Mutex::new(BTreeMap::new()),
            distinct: Mutex::new(HashSet::new()),
            gstats: Mutex::new(BTreeMap::new()),
            histo: Histo::new(),
            samples: Mutex::new(BTreeMap::new()),
            timed_out: AtomicBool::new(false),
            skipped_sweeps: AtomicU64::new(0),
            in_flight: Mutex::new(Default::default()),
        }
    }

    fn violation(&self, group: String, rank: u64, case: CaseId, what: String, detail: Value) {
        let mut g = self.viol.lock().unwrap();
        match g.get_mut(&group) {
            Some(p) => {
                p.count += 1;
                if rank < p.rank {
                    p.rank = rank;
                    p.case = case;
                    p.what = what;
                    p.detail = detail;
                }
            }
            None => {
                g.insert(
                    group,
                    Pending {
                        rank,
                        case,
                        what,
                        detail,
                        count: 1,
                    },
                );
            }
        }
    }

    /// Judge all input vectors of one structural shape of one gadget, in both input modes.
    ///
    /// * `inputs`: named input vectors, all of length `n_in`
    /// * `build`: places the gadget on the given input targets, returns its output targets
    /// * `native`: the native values of those outputs (may panic = undefined on that input)
    #[allow(clippy::too_many_arguments)]
    fn sweep<F, EF>(
        &self,
        field: &str,
        field_rank: u64,
        gadget: &str,
        shape: &str,
        shape_rank: u64,
        n_in: usize,
        inputs: &[(String, Vec<EF>)],
        out_names: &[String],
        modes: &[Mode],
        build: &BuildFn<'_, EF>,
        native: &dyn Fn(&[EF]) -> Vec<EF>,
    ) where
        F: PrimeField64,
        EF: ExtensionField<F> + Hash + Eq,
    {
        if let Some(f) = &self.filter
            && (f.field != field || f.gadget != gadget || f.shape != shape)
        {
            return;
        }
        if self.ctx.used() > 0.93 {
            self.timed_out.store(true, Ordering::Relaxed);
            self.skipped_sweeps.fetch_add(1, Ordering::Relaxed);
            return;
        }
        let flight = format!("{field}:{gadget}[{shape}]");
        self.in_flight.lock().unwrap().insert(flight.clone());
        let mut st = GStat::default();
        let mut new_distinct: Vec<u64> = vec![];
        for &mode in modes {
            let shared = if mode == Mode::Pub {
                st.builds += 1;
                Some(build_circuit(mode, n_in, &[], build))
            } else {
                None
            };
            for (ii, (iname, vals)) in inputs.iter().enumerate() {
                assert_eq!(vals.len(), n_in);
                let case = CaseId {
                    field: field.into(),
                    gadget: gadget.into(),
                    shape: shape.into(),
                    input: iname.clone(),
                    mode: mode.tag().into(),
                };
                if let Some(f) = &self.filter
                    && *f != case
                {
                    continue;
                }
                st.cases += 1;
                let rank = (field_rank << 48)
                    + (shape_rank << 24)
                    + ((ii as u64) << 1)
                    + (mode == Mode::Const) as u64;
                let nat = quiet_catch(|| native(vals));
                // circuit side
                let own;
                let built: &Result<Built<EF>, String> = match &shared {
                    Some(b) => b,
                    None => {
                        st.builds += 1;
                        own = build_circuit(mode, n_in, vals, build);
                        &own
                    }
                };
                let pubs: &[EF] = if mode == Mode::Pub { vals } else { &[] };
                let got = match built {
                    Ok(b) => {
                        st.runs += 1;
                        run_circuit(b, pubs)
                    }
                    Err(e) => Err(e.clone()),
                };
                let inputs_json = || -> Value {
                    json!(vals.iter().map(|v| coeffs::<F, EF>(v)).collect::<Vec<_>>())
                };
                let nat = match nat {
                    Ok(n) => n,
                    Err(p) => {
                        st.native_undefined += 1;
                        self.histo.add(&format!(
                            "{gadget}: native undefined (panics) / circuit {}",
                            if got.is_ok() { "runs" } else { "fails" }
                        ));
                        if self.filter.is_some() {
                            println!("  native undefined: {p}; circuit: {got:?}");
                        }
                        continue;
                    }
                };
                assert_eq!(nat.len(), out_names.len(), "native arity of {gadget}");
                match got {
                    Err(e) => {
                        if self.filter.is_some() {
                            println!("  {}: circuit fails: {e}", case.show());
                        }
                        self.histo.add(&format!("{gadget}: circuit fails on a native-defined input"));
                        let clause = if e.starts_with("run error") || e.starts_with("panic while running") {
                            "run_error"
                        } else {
                            "build_error"
                        };
                        self.violation(
                            format!("{gadget}:{clause}"),
                            rank,
                            case.clone(),
                            format!(
                                "{}: native value defined ({:?}…) but the circuit fails: {e}",
                                case.show(),
                                coeffs::<F, EF>(&nat[0])
                            ),
                            json!({"case": case, "inputs": inputs_json(), "error": e,
                                   "native": nat.iter().map(|v| coeffs::<F,EF>(v)).collect::<Vec<_>>()}),
                        );
                    }
                    Ok(vals_got) => {
                        if vals_got.len() != nat.len() {
                            self.violation(
                                format!("{gadget}:arity"),
                                rank,
                                case.clone(),
                                format!("{}: gadget returned {} outputs, expected {}", case.show(), vals_got.len(), nat.len()),
                                json!({"case": case}),
                            );
                            continue;
                        }
                        let mut all_ok = true;
                        for (oi, (g, want)) in vals_got.iter().zip(nat.iter()).enumerate() {
                            st.outputs_compared += 1;
                            let ok = match g {
                                Some(v) => v == want,
                                None => {
                                    // output target without a witness slot: observe through connect
                                    self.histo.add(&format!("{gadget}: output observed through connect"));
                                    st.builds += 1;
                                    st.runs += 1;
                                    assert_mode_matches(mode, n_in, vals, build, oi, *want).is_ok()
                                }
                            };
                            if ok {
                                if !want.is_zero() && !want.is_one() {
                                    st.nontrivial_outputs += 1;
                                    let mut h = std::collections::hash_map::DefaultHasher::new();
                                    gadget.hash(&mut h);
                                    coeffs::<F, EF>(want).hash(&mut h);
                                    new_distinct.push(h.finish());
                                }
                            } else {
                                all_ok = false;
                                self.violation(
                                    format!("{gadget}:value:{}", out_names[oi]),
                                    rank,
                                    case.clone(),
                                    format!(
                                        "{}: output `{}` is {:?} in the circuit, native value {:?}",
                                        case.show(),
                                        out_names[oi],
                                        g.as_ref().map(|v| coeffs::<F, EF>(v)),
                                        coeffs::<F, EF>(want)
                                    ),
                                    json!({"case": case, "inputs": inputs_json(), "output": out_names[oi],
                                           "circuit": g.as_ref().map(|v| coeffs::<F,EF>(v)), "native": coeffs::<F,EF>(want)}),
                                );
                            }
                        }
                        self.histo.add(&format!(
                            "{gadget}: {}",
                            if all_ok { "equal" } else { "MISMATCH" }
                        ));
                        if self.filter.is_some() {
                            println!(
                                "  {}: circuit {:?}\n    native {:?}  -> {}",
                                case.show(),
                                vals_got.iter().map(|g| g.as_ref().map(|v| coeffs::<F, EF>(v))).collect::<Vec<_>>(),
                                nat.iter().map(|v| coeffs::<F, EF>(v)).collect::<Vec<_>>(),
                                if all_ok { "equal" } else { "MISMATCH" }
                            );
                        }
                        // one written-out sample per gadget: the first non-trivial case judged equal
                        if all_ok && nat.iter().any(|v| !v.is_zero() && !v.is_one()) {
                            let mut s = self.samples.lock().unwrap();
                            if !s.contains_key(gadget) {
                                s.insert(
                                    gadget.to_string(),
                                    json!({"case": case.show(), "inputs": inputs_json(), "outputs": out_names,
                                           "value": nat.iter().map(|v| coeffs::<F,EF>(v)).collect::<Vec<_>>()}),
                                );
                            }
                        }
                    }
                }
            }
        }
        {
            let mut d = self.distinct.lock().unwrap();
            d.extend(new_distinct);
        }
        self.in_flight.lock().unwrap().remove(&flight);
        let mut gs = self.gstats.lock().unwrap();
        let e = gs.entry(format!("{field}/{gadget}")).or_default();
        e.cases += st.cases;
        e.builds += st.builds;
        e.runs += st.runs;
        e.outputs_compared += st.outputs_compared;
        e.native_undefined += st.native_undefined;
        e.nontrivial_outputs += st.nontrivial_outputs;
    }
}

const BOTH: [Mode; 2] = [Mode::Pub, Mode::Const];

// ---------------------------------------------------------------------------------------
// value alphabet

/// three fixed "generic" extension elements (all basis coordinates non-zero); the seed only
/// rotates which concrete elements are used
fn ext_elems<F: PrimeField64, EF: ExtensionField<F>>(seed: u64, n: usize, salt: u64) -> Vec<EF> {
    (0..n as u64)
        .map(|i| {
            EF::from_basis_coefficients_fn(|j| {
                F::from_u64(
                    1_000_003 * (i + 1) + 7_919 * (j as u64 + 1) + 104_729 * (seed % 1000) + 31 * salt,
                )
            })
        })
        .collect()
}

fn base_points<F: PrimeField64, EF: ExtensionField<F>>(seed: u64, n_ext: usize) -> Vec<(String, EF)> {
    let mut v: Vec<(String, EF)> = ext_elems::<F, EF>(seed, n_ext, 0)
        .into_iter()
        .enumerate()
        .map(|(i, e)| (format!("e{i}"), e))
        .collect();
    v.push(("zero".into(), EF::ZERO));
    v.push(("one".into(), EF::ONE));
    // 11 is no field generator of the three fields (31, 3, 7), hence on none of the cosets used
    v.push(("b11".into(), EF::from(F::from_u64(11))));
    v
}

fn domain_points<F: TwoAdicField + PrimeField64, EF: ExtensionField<F>>(
    seed: u64,
    n_ext: usize,
    dom: &Coset<F>,
) -> Vec<(String, Vec<EF>)> {
    let mut v = base_points::<F, EF>(seed, n_ext);
    let h = dom.subgroup_generator();
    v.push(("dom_first".into(), EF::from(dom.shift())));
    v.push(("dom_next".into(), EF::from(dom.shift() * h)));
    v.push(("dom_last".into(), EF::from(dom.shift() * h.inverse())));
    v.into_iter().map(|(n, p)| (n, vec![p])).collect()
}

fn shifts<F: TwoAdicField>(log: usize) -> Vec<(&'static str, F)> {
    vec![
        ("1", F::ONE),
        ("g", F::GENERATOR),
        // shift of the second chunk of a split quotient domain: g·ω with ω of order 2^(log+1)
        ("g*w", F::GENERATOR * F::two_adic_generator((log + 1).min(F::TWO_ADICITY))),
    ]
}

// ---------------------------------------------------------------------------------------
// gadget sweeps

struct FieldCtx<'a, 'b> {
    eng: &'a Eng<'b>,
    name: &'static str,
    rank: u64,
    n_ext: usize,
}

/// Lagrange selectors + vanishing polynomial at a point, for one `RecursivePcs` implementation.
fn g_selectors<G: PcsGadgets>(fc: &FieldCtx, g: &G) {
    let eng = fc.eng;
    let seed = eng.ctx.seed;
    for log in 0..=eng.bounds.sel_max_log.min(G::F::TWO_ADICITY) {
        for (sname, shift) in shifts::<G::F>(log) {
            let dom = Coset::<G::F>::new(shift, log).expect("log size below two-adicity");
            let pts = domain_points::<G::F, G::EF>(seed, fc.n_ext, &dom);
            let shape = format!("log_size={log},shift={sname}");
            let srank = (log as u64) * 4 + ["1", "g", "g*w"].iter().position(|s| *s == sname).unwrap() as u64;
            // RecursivePcs metadata used by the gadgets
            if g.rec_log_size(&dom) != log || g.rec_first_point(&dom) != G::EF::from(dom.first_point()) {
                eng.violation(
                    format!("domain_metadata.{}", G::KIND),
                    srank,
                    CaseId { field: fc.name.into(), gadget: format!("domain_metadata.{}", G::KIND), shape: shape.clone(), input: "-".into(), mode: "-".into() },
                    format!("RecursivePcs::log_size/first_point differ from the native domain for {shape}"),
                    json!({}),
                );
            }
            eng.sweep::<G::F, G::EF>(
                fc.name,
                fc.rank,
                &format!("selectors.{}", G::KIND),
                &shape,
                srank,
                1,
                &pts,
                &["is_first_row".into(), "is_last_row".into(), "is_transition".into(), "inv_vanishing".into()],
                &BOTH,
                &|cb, ins| Ok(g.selectors(cb, &dom, ins[0]).to_vec()),
                &|v| {
                    let s = dom.selectors_at_point(v[0]);
                    vec![s.is_first_row, s.is_last_row, s.is_transition, s.inv_vanishing]
                },
            );
            eng.sweep::<G::F, G::EF>(
                fc.name,
                fc.rank,
                &format!("vanishing.{}", G::KIND),
                &shape,
                srank,
                1,
                &pts,
                &["z_h".into()],
                &BOTH,
                &|cb, ins| Ok(vec![g.vanishing(cb, &dom, ins[0])]),
                &|v| vec![dom.vanishing_poly_at_point(v[0])],
            );
        }
    }
}

/// Quotient recomposition from chunks. Domains are derived exactly like the verifiers do:
/// native side as in `p3_uni_stark::verify`, circuit side as in `recursion/src/verifier/stark.rs`
/// (through the `RecursivePcs` methods); with ZK the number of chunks doubles.
fn g_quotient<G: PcsGadgets>(fc: &FieldCtx, g: &G) {
    let eng = fc.eng;
    let seed = eng.ctx.seed;
    let is_zk = g.is_zk();
    let d = <G::EF as BasedVectorSpace<G::F>>::DIMENSION;
    let (dmin, dmax) = eng.bounds.quo_deg_bits;
    for degree_bits in dmin..=dmax {
        if degree_bits < is_zk {
            continue; // rejected by validate_degree_bits
        }
        for log_chunks in 0..=eng.bounds.quo_max_log_chunks {
            let n_chunks = 1usize << (log_chunks + is_zk);
            // native derivation (p3_uni_stark::verify)
            let trace_domain = g.native_natural_domain(1 << degree_bits);
            let q_native = trace_domain.create_disjoint_domain(1 << (degree_bits + log_chunks));
            let doms_native = q_native.split_domains(n_chunks);
            // circuit-side derivation (recursion/src/verifier/stark.rs)
            let q_rec = g.rec_create_disjoint_domain(trace_domain, 1 << (degree_bits + log_chunks));
            let doms = g.rec_split_domains(&q_rec, n_chunks);
            let shape = format!("degree_bits={degree_bits},log_chunks={log_chunks},zk={is_zk},chunks={n_chunks}");
            let srank = (degree_bits as u64) * 16 + log_chunks as u64;
            let same = doms.len() == doms_native.len()
                && doms.iter().zip(&doms_native).all(|(a, b)| a.shift() == b.shift() && a.log_size() == b.log_size());
            if !same {
                eng.violation(
                    format!("quotient_domains.{}", G::KIND),
                    srank,
                    CaseId { field: fc.name.into(), gadget: format!("quotient_domains.{}", G::KIND), shape: shape.clone(), input: "-".into(), mode: "-".into() },
                    format!("RecursivePcs::create_disjoint_domain/split_domains differ from the native quotient chunk domains for {shape}"),
                    json!({}),
                );
                continue;
            }
            // inputs: zeta, then n_chunks × D chunk coordinates (extension elements)
            let n_in = 1 + n_chunks * d;
            let chunk_patterns: Vec<(&str, Vec<G::EF>)> = vec![
                ("dense", ext_elems::<G::F, G::EF>(seed, n_chunks * d, 17)),
                (
                    "base",
                    (0..n_chunks * d).map(|k| G::EF::from(G::F::from_u64(3 + 5 * k as u64))).collect(),
                ),
                (
                    "last_only",
                    (0..n_chunks * d)
                        .map(|k| if k / d == n_chunks - 1 { G::EF::from(G::F::from_u64(2 + k as u64)) } else { G::EF::ZERO })
                        .collect(),
                ),
            ];
            let mk_inputs = |pts: Vec<(String, G::EF)>| -> Vec<(String, Vec<G::EF>)> {
                let mut v = vec![];
                for (pn, p) in &pts {
                    for (cn, c) in &chunk_patterns {
                        let mut x = vec![*p];
                        x.extend_from_slice(c);
                        v.push((format!("zeta={pn},chunks={cn}"), x));
                    }
                }
                v
            };
            let build = |cb: &mut CircuitBuilder<G::EF>, ins: &[ExprId]| -> Result<Vec<ExprId>, String> {
                let chunks: Vec<Vec<ExprId>> = ins[1..].chunks(d).map(|c| c.to_vec()).collect();
                Ok(vec![g.recompose(cb, &doms, &chunks, ins[0])])
            };
            let native = |v: &[G::EF]| -> Vec<G::EF> {
                let chunks: Vec<Vec<G::EF>> = v[1..].chunks(d).map(|c| c.to_vec()).collect();
                vec![g.native_recompose(&doms_native, &chunks, v[0])]
            };
            // Candidate evaluation points; a point ON one of the chunk domains (necessarily a
            // base-field element) is classified separately: the native function is defined there
            // (it never divides by a vanishing value at zeta) while the gadget divides by Z_i(zeta).
            let mut cands = base_points::<G::F, G::EF>(seed, fc.n_ext);
            let h = doms_native[0].subgroup_generator();
            cands.push(("chunk0_first".to_string(), G::EF::from(doms_native[0].shift())));
            cands.push((
                "chunklast_next".to_string(),
                G::EF::from(doms_native[n_chunks - 1].shift() * h),
            ));
            let (on_dom, off_dom): (Vec<_>, Vec<_>) = cands.into_iter().partition(|(_, z)| {
                doms_native.iter().any(|dm| dm.vanishing_poly_at_point(*z).is_zero())
            });
            eng.sweep::<G::F, G::EF>(
                fc.name,
                fc.rank,
                &format!("quotient.{}", G::KIND),
                &shape,
                srank,
                n_in,
                &mk_inputs(off_dom),
                &["quotient".into()],
                &BOTH,
                &build,
                &native,
            );
            // Only with zeta as a circuit INPUT (as in every verifier circuit). With a constant
            // zeta the builder folds `0/x -> 0` before the division exists, which is the subject
            // of the builder properties (C02), not of this gadget.
            eng.sweep::<G::F, G::EF>(
                fc.name,
                fc.rank,
                &format!("quotient_zeta_on_chunk_domain.{}", G::KIND),
                &shape,
                srank,
                n_in,
                &mk_inputs(on_dom),
                &["quotient".into()],
                &[Mode::Pub],
                &build,
                &native,
            );
        }
    }
}

/// The verifier places selectors, periodic columns and the quotient recomposition at the SAME
/// zeta in one circuit (`recursion/src/verifier/stark.rs`), so the builder shares
/// sub-expressions between them. This sweep builds that composition and checks every output.
fn g_composite<G: PcsGadgets>(fc: &FieldCtx, g: &G) {
    let eng = fc.eng;
    let seed = eng.ctx.seed;
    let is_zk = g.is_zk();
    let d = <G::EF as BasedVectorSpace<G::F>>::DIMENSION;
    let (dmin, dmax) = eng.bounds.quo_deg_bits;
    for degree_bits in dmin.max(is_zk)..=dmax {
        for log_chunks in 0..=eng.bounds.quo_max_log_chunks.min(2) {
            let n_chunks = 1usize << (log_chunks + is_zk);
            let trace_domain = g.native_natural_domain(1 << degree_bits);
            let init_trace_domain = g.native_natural_domain((1 << degree_bits) >> is_zk);
            let doms_native = trace_domain
                .create_disjoint_domain(1 << (degree_bits + log_chunks))
                .split_domains(n_chunks);
            let q_rec = g.rec_create_disjoint_domain(trace_domain, 1 << (degree_bits + log_chunks));
            let doms = g.rec_split_domains(&q_rec, n_chunks);
            let log_n = init_trace_domain.log_size();
            let cols: Vec<Vec<G::F>> = (0..=log_n.min(4))
                .map(|lp| periodic_contents::<G::F>(1 << lp)[3].1.clone())
                .collect();
            let mut out_names: Vec<String> =
                ["is_first_row", "is_last_row", "is_transition", "inv_vanishing", "quotient", "z_h(chunk0)"]
                    .iter()
                    .map(|s| s.to_string())
                    .collect();
            out_names.extend((0..cols.len()).map(|i| format!("periodic[period={}]", 1 << i)));
            let n_in = 1 + n_chunks * d;
            let chunk_vals = ext_elems::<G::F, G::EF>(seed, n_chunks * d, 23);
            let inputs: Vec<(String, Vec<G::EF>)> = base_points::<G::F, G::EF>(seed, fc.n_ext)
                .into_iter()
                .filter(|(_, z)| !doms_native.iter().any(|dm| dm.vanishing_poly_at_point(*z).is_zero()))
                .map(|(n, z)| {
                    let mut x = vec![z];
                    x.extend_from_slice(&chunk_vals);
                    (format!("zeta={n}"), x)
                })
                .collect();
            eng.sweep::<G::F, G::EF>(
                fc.name,
                fc.rank,
                &format!("composite.{}", G::KIND),
                &format!("degree_bits={degree_bits},log_chunks={log_chunks},zk={is_zk}"),
                (degree_bits as u64) * 16 + log_chunks as u64,
                n_in,
                &inputs,
                &out_names,
                &BOTH,
                &|cb, ins| {
                    let chunks: Vec<Vec<ExprId>> = ins[1..].chunks(d).map(|c| c.to_vec()).collect();
                    let q = g.recompose(cb, &doms, &chunks, ins[0]);
                    let mut outs = g.selectors(cb, &init_trace_domain, ins[0]).to_vec();
                    outs.push(q);
                    outs.push(g.vanishing(cb, &doms[0], ins[0]));
                    let per = verif_evaluate_periodic_columns_circuit::<G::F, G::EF>(
                        cb,
                        &init_trace_domain,
                        &cols,
                        ins[0],
                    )
                    .map_err(|e| format!("build error: {e:?}"))?;
                    outs.extend(per);
                    Ok(outs)
                },
                &|v| {
                    let chunks: Vec<Vec<G::EF>> = v[1..].chunks(d).map(|c| c.to_vec()).collect();
                    let s = init_trace_domain.selectors_at_point(v[0]);
                    let mut o = vec![s.is_first_row, s.is_last_row, s.is_transition, s.inv_vanishing];
                    o.push(g.native_recompose(&doms_native, &chunks, v[0]));
                    o.push(doms_native[0].vanishing_poly_at_point(v[0]));
                    o.extend(cols.iter().map(|c| init_trace_domain.evaluate_periodic_column_at(c, v[0])));
                    o
                },
            );
        }
    }
}

fn periodic_contents<F: PrimeField64>(period: usize) -> Vec<(&'static str, Vec<F>)> {
    vec![
        ("lin", (0..period).map(|i| F::from_u64(11 * i as u64 + 3)).collect()),
        ("onehot_last", (0..period).map(|i| F::from_bool(i == period - 1)).collect()),
        ("const5", vec![F::from_u64(5); period]),
        ("sq", (0..period).map(|i| F::from_u64(7_919 * (i * i) as u64 + 1)).collect()),
        ("alt", (0..period).map(|i| F::from_bool(i % 2 == 1)).collect()),
    ]
}

/// Periodic columns: all power-of-two periods ≤ domain size, several contents, evaluated
/// (a) all columns of a domain in one gadget call, (b) each column on its own.
fn g_periodic<F, EF>(fc: &FieldCtx)
where
    F: TwoAdicField + PrimeField64,
    EF: ExtensionField<F> + Hash + Eq,
{
    let eng = fc.eng;
    for log_n in 0..=eng.bounds.per_max_log {
        for (sname, shift) in shifts::<F>(log_n).into_iter().take(2) {
            let dom = Coset::<F>::new(shift, log_n).unwrap();
            let pts = domain_points::<F, EF>(eng.ctx.seed, fc.n_ext, &dom);
            let mut cols: Vec<Vec<F>> = vec![];
            let mut names: Vec<String> = vec![];
            for lp in 0..=log_n {
                for (cn, c) in periodic_contents::<F>(1 << lp) {
                    names.push(format!("period={},col={cn}", 1 << lp));
                    cols.push(c);
                }
            }
            let srank = (log_n as u64) * 4 + (sname == "g") as u64;
            let shape = format!("log_n={log_n},shift={sname}");
            eng.sweep::<F, EF>(
                fc.name,
                fc.rank,
                "periodic.all_columns",
                &shape,
                srank,
                1,
                &pts,
                &names,
                &BOTH,
                &|cb, ins| {
                    verif_evaluate_periodic_columns_circuit::<F, EF>(cb, &dom, &cols, ins[0])
                        .map_err(|e| format!("build error: gadget rejected valid periodic columns: {e:?}"))
                },
                &|v| cols.iter().map(|c| dom.evaluate_periodic_column_at(c, v[0])).collect(),
            );
            for (ci, col) in cols.iter().enumerate() {
                let one = vec![col.clone()];
                eng.sweep::<F, EF>(
                    fc.name,
                    fc.rank,
                    "periodic.single_column",
                    &format!("{shape},{}", names[ci]),
                    srank * 64 + ci as u64,
                    1,
                    &pts,
                    &["value".into()],
                    &BOTH,
                    &|cb, ins| {
                        verif_evaluate_periodic_columns_circuit::<F, EF>(cb, &dom, &one, ins[0])
                            .map_err(|e| format!("build error: gadget rejected a valid periodic column: {e:?}"))
                    },
                    &|v| vec![dom.evaluate_periodic_column_at(col, v[0])],
                );
            }
            // invalid shapes are rejected at build time (recorded, not judged)
            for bad in [3usize, (1 << log_n) * 2] {
                let c = vec![vec![F::ONE; bad]];
                let r = quiet_catch(|| {
                    let mut cb = CircuitBuilder::<EF>::new();
                    let z = cb.public_input();
                    verif_evaluate_periodic_columns_circuit::<F, EF>(&mut cb, &dom, &c, z).is_err()
                });
                if bad.is_power_of_two() && bad <= (1 << log_n) {
                    continue;
                }
                eng.histo.add(&format!(
                    "periodic: invalid column length {}",
                    match r {
                        Ok(true) => "rejected with Err",
                        Ok(false) => "ACCEPTED",
                        Err(_) => "panicked",
                    }
                ));
            }
        }
    }
}

/// `evaluate_polynomial` (Horner over coefficient targets) vs `HornerIter::horner`.
fn g_eval_poly<F, EF>(fc: &FieldCtx)
where
    F: TwoAdicField + PrimeField64,
    EF: ExtensionField<F> + Hash + Eq,
{
    let eng = fc.eng;
    let seed = eng.ctx.seed;
    for len in 1..=eng.bounds.poly_max_len {
        let patterns: Vec<(&str, Vec<EF>)> = vec![
            ("dense", ext_elems::<F, EF>(seed, len, 5)),
            ("base", (0..len).map(|k| EF::from(F::from_u64(2 + 3 * k as u64))).collect()),
            ("lead0", {
                let mut c = ext_elems::<F, EF>(seed, len, 9);
                *c.last_mut().unwrap() = EF::ZERO;
                c
            }),
            ("const0_only_top", {
                let mut c = vec![EF::ZERO; len];
                *c.last_mut().unwrap() = EF::from(F::from_u64(9));
                c
            }),
        ];
        let mut inputs = vec![];
        for (pn, p) in base_points::<F, EF>(seed, fc.n_ext) {
            for (cn, c) in &patterns {
                let mut x = vec![p];
                x.extend_from_slice(c);
                inputs.push((format!("x={pn},coeffs={cn}"), x));
            }
        }
        eng.sweep::<F, EF>(
            fc.name,
            fc.rank,
            "evaluate_polynomial",
            &format!("len={len}"),
            len as u64,
            1 + len,
            &inputs,
            &["p(x)".into()],
            &BOTH,
            &|cb, ins| Ok(vec![hooks::evaluate_polynomial(cb, &ins[1..], ins[0])]),
            &|v| {
                // p3_fri::verifier: `proof.final_poly.iter().copied().horner(x)`
                let a: EF = v[1..].iter().copied().horner(v[0]);
                // cross-check of the reference: plain power sum
                let mut b = EF::ZERO;
                let mut xp = EF::ONE;
                for c in &v[1..] {
                    b += *c * xp;
                    xp *= v[0];
                }
                if a != b {
                    vpcore::machinery_error("reference self-check failed: horner != power sum");
                }
                vec![a]
            },
        );
    }
    // length 0 is rejected by an assert (documented precondition) — recorded, not judged
    if eng.filter.is_none() {
        let r = quiet_catch(|| {
            let mut cb = CircuitBuilder::<EF>::new();
            let x = cb.public_input();
            hooks::evaluate_polynomial(&mut cb, &[], x)
        });
        eng.histo.add(&format!(
            "evaluate_polynomial: len=0 {}",
            if r.is_err() { "rejected (assert)" } else { "accepted" }
        ));
    }
}

fn exponents(b: &Bounds) -> Vec<usize> {
    let mut v: Vec<usize> = (1..=b.exp_dense).collect();
    for k in 0..=b.exp_max_k {
        let p = 1usize << k;
        v.extend([p.saturating_sub(1), p, p + 1]);
    }
    v.retain(|&n| n >= 1); // n = 0 violates the gadget's documented debug_assert precondition
    v.sort_unstable();
    v.dedup();
    v
}

/// `circuit_exp_by_constant` vs `exp_u64`.
fn g_exp_const<F, EF>(fc: &FieldCtx)
where
    F: TwoAdicField + PrimeField64,
    EF: ExtensionField<F> + Hash + Eq,
{
    let eng = fc.eng;
    let mut bases = base_points::<F, EF>(eng.ctx.seed, fc.n_ext);
    bases.push(("minus_one".into(), EF::NEG_ONE));
    let inputs: Vec<(String, Vec<EF>)> = bases.into_iter().map(|(n, p)| (format!("base={n}"), vec![p])).collect();
    let exps = exponents(&eng.bounds);
    exps.par_iter().enumerate().for_each(|(i, &n)| {
        eng.sweep::<F, EF>(
            fc.name,
            fc.rank,
            "circuit_exp_by_constant",
            &format!("n={n}"),
            i as u64,
            1,
            &inputs,
            &["base^n".into()],
            &BOTH,
            &|cb, ins| Ok(vec![hooks::circuit_exp_by_constant(cb, ins[0], n)]),
            &|v| vec![v[0].exp_u64(n as u64)],
        );
    });
}

fn index_inputs<EF: Field>(log: usize) -> Vec<(String, Vec<EF>)> {
    (0..1usize << log)
        .map(|idx| {
            (
                format!("index={idx}"),
                (0..log).map(|i| EF::from_bool((idx >> i) & 1 == 1)).collect(),
            )
        })
        .collect()
}

fn index_of<EF: Field>(bits: &[EF]) -> usize {
    bits.iter().enumerate().map(|(i, b)| (b.is_one() as usize) << i).sum()
}

/// `compute_final_query_point` vs `p3_fri::verifier::verify_fri`:
/// `x = two_adic_generator(L)^reverse_bits_len(index >> consumed, L)`.
fn g_final_query_point<F, EF>(fc: &FieldCtx)
where
    F: TwoAdicField + PrimeField64,
    EF: ExtensionField<F> + Hash + Eq,
{
    let eng = fc.eng;
    let shapes: Vec<(usize, usize)> = (1..=eng.bounds.fqp_max_log)
        .flat_map(|l| (0..=l).map(move |c| (l, c)))
        .collect();
    shapes.par_iter().for_each(|&(log_max, consumed)| {
        let inputs = index_inputs::<EF>(log_max);
        let modes: &[Mode] = if log_max <= eng.bounds.fqp_max_log_const { &BOTH } else { &[Mode::Pub] };
        eng.sweep::<F, EF>(
            fc.name,
            fc.rank,
            "compute_final_query_point",
            &format!("log_max_height={log_max},bits_consumed={consumed}"),
            (log_max as u64) * 64 + consumed as u64,
            log_max,
            &inputs,
            &["x_final".into()],
            modes,
            &|cb, ins| {
                // verify_fri_circuit: precompute_two_adic_powers(builder, log_max_height)
                let g = F::two_adic_generator(log_max);
                let powers: Vec<ExprId> = core::iter::successors(Some(g), |p| Some(p.square()))
                    .take(log_max)
                    .map(|p| cb.define_const(EF::from(p)))
                    .collect();
                Ok(vec![hooks::compute_final_query_point::<F, EF>(cb, ins, log_max, consumed, &powers)])
            },
            &|bits| {
                let index = index_of(bits);
                let domain_index = index >> consumed; // `*start_index >>= log_arity` per phase
                let x = F::two_adic_generator(log_max)
                    .exp_u64(reverse_bits_len(domain_index, log_max) as u64);
                // reference self-check: folding squares the initial point `consumed` times
                let x0 = F::two_adic_generator(log_max).exp_u64(reverse_bits_len(index, log_max) as u64);
                if x0.exp_power_of_2(consumed) != x {
                    vpcore::machinery_error("reference self-check failed: final query point");
                }
                vec![EF::from(x)]
            },
        );
    });
}

/// `precompute_evaluation_points` vs `p3_fri::verifier::open_input`:
/// `x_h = GENERATOR · two_adic_generator(h)^reverse_bits_len(index >> (L−h), h)` per height.
fn g_eval_points<F, EF>(fc: &FieldCtx)
where
    F: TwoAdicField + PrimeField64,
    EF: ExtensionField<F> + Hash + Eq,
{
    let eng = fc.eng;
    let mut shapes: Vec<(usize, u32)> = vec![];
    for l in 1..=eng.bounds.evp_max_log {
        for mask in 1u32..(1 << l) {
            shapes.push((l, mask));
        }
    }
    shapes.par_iter().for_each(|&(log_global, mask)| {
        // heights 1..=log_global selected by mask, descending
        let heights: Vec<usize> = (1..=log_global).rev().filter(|h| mask >> (h - 1) & 1 == 1).collect();
        let inputs = index_inputs::<EF>(log_global);
        let modes: &[Mode] = if log_global <= eng.bounds.evp_max_log_const { &BOTH } else { &[Mode::Pub] };
        eng.sweep::<F, EF>(
            fc.name,
            fc.rank,
            "precompute_evaluation_points",
            &format!("log_global_max_height={log_global},heights={heights:?}"),
            (log_global as u64) * 1024 + mask as u64,
            log_global,
            &inputs,
            &heights.iter().map(|h| format!("x[h={h}]")).collect::<Vec<_>>(),
            modes,
            &|cb, ins| {
                let m = hooks::precompute_evaluation_points::<F, EF>(cb, &heights, ins, log_global);
                if m.len() != heights.len() {
                    return Err(format!("build error: returned heights {:?}, requested {heights:?}", m.keys().collect::<Vec<_>>()));
                }
                heights
                    .iter()
                    .map(|h| m.get(h).copied().ok_or_else(|| format!("build error: no evaluation point for height {h}")))
                    .collect()
            },
            &|bits| {
                let index = index_of(bits);
                heights
                    .iter()
                    .map(|&h| {
                        let bits_reduced = log_global - h;
                        let rev = reverse_bits_len(index >> bits_reduced, h);
                        let x = F::GENERATOR * F::two_adic_generator(h).exp_u64(rev as u64);
                        // reference self-check: x is the rev-th element of the coset GENERATOR·<ω_h>
                        let mut c = Coset::<F>::new(F::GENERATOR, h).unwrap();
                        if c.element(rev) != x {
                            vpcore::machinery_error("reference self-check failed: evaluation point");
                        }
                        EF::from(x)
                    })
                    .collect()
            },
        );
    });
}

/// Builder primitives the gadgets above are made of.
fn g_primitives<F, EF>(fc: &FieldCtx)
where
    F: TwoAdicField + PrimeField64,
    EF: ExtensionField<F> + Hash + Eq,
{
    let eng = fc.eng;
    let seed = eng.ctx.seed;
    let mut bases = base_points::<F, EF>(seed, fc.n_ext);
    bases.push(("minus_one".into(), EF::NEG_ONE));
    let one_in: Vec<(String, Vec<EF>)> = bases.iter().map(|(n, p)| (format!("base={n}"), vec![*p])).collect();
    for k in 0..=eng.bounds.pow2_max {
        eng.sweep::<F, EF>(
            fc.name,
            fc.rank,
            "exp_power_of_2",
            &format!("power_log={k}"),
            k as u64,
            1,
            &one_in,
            &["base^(2^k)".into()],
            &BOTH,
            &|cb, ins| Ok(vec![cb.exp_power_of_2(ins[0], k)]),
            &|v| vec![v[0].exp_power_of_2(k)],
        );
    }
    // select(b, t, s) for boolean b
    let vals = base_points::<F, EF>(seed, 2);
    let mut sel_in = vec![];
    for b in [false, true] {
        for (tn, t) in &vals {
            for (sn, s) in &vals {
                sel_in.push((format!("b={},t={tn},s={sn}", b as u8), vec![EF::from_bool(b), *t, *s]));
            }
        }
    }
    eng.sweep::<F, EF>(
        fc.name,
        fc.rank,
        "select",
        "b,t,s",
        0,
        3,
        &sel_in,
        &["select".into()],
        &BOTH,
        &|cb, ins| Ok(vec![cb.select(ins[0], ins[1], ins[2])]),
        &|v| vec![if v[0].is_one() { v[1] } else { v[2] }],
    );
    // reconstruct_index_from_bits: all indices for short lengths; single-bit / all-ones for long
    let max_long = (F::bits() - 1).min(40);
    for n in 0..=max_long {
        let inputs: Vec<(String, Vec<EF>)> = if n <= eng.bounds.bits_exhaustive {
            index_inputs::<EF>(n)
        } else {
            let mut v = vec![];
            let all = (1u64 << n) - 1;
            for (nm, idx) in [("top_bit", 1u64 << (n - 1)), ("all_ones", all), ("alternating", all / 3)] {
                v.push((
                    format!("index={nm}"),
                    (0..n).map(|i| EF::from_bool((idx >> i) & 1 == 1)).collect(),
                ));
            }
            v
        };
        eng.sweep::<F, EF>(
            fc.name,
            fc.rank,
            "reconstruct_index_from_bits",
            &format!("n_bits={n}"),
            n as u64,
            n,
            &inputs,
            &["index".into()],
            &BOTH,
            &|cb, ins| {
                cb.reconstruct_index_from_bits::<F>(ins)
                    .map(|t| vec![t])
                    .map_err(|e| format!("build error: {e:?}"))
            },
            &|bits| {
                let idx: u64 = bits.iter().enumerate().map(|(i, b)| (b.is_one() as u64) << i).sum();
                vec![EF::from(F::from_u64(idx))]
            },
        );
    }
}

// ---------------------------------------------------------------------------------------

fn run_field<F, EF, GT, GH>(eng: &Eng, name: &'static str, rank: u64, mk_t: fn() -> GT, mk_h: fn() -> GH)
where
    F: TwoAdicField + PrimeField64,
    EF: ExtensionField<F> + Hash + Eq,
    GT: PcsGadgets<F = F, EF = EF>,
    GH: PcsGadgets<F = F, EF = EF>,
{
    let n_ext = eng.bounds.n_ext;
    let fc = FieldCtx { eng, name, rank, n_ext };
    let fc = &fc;
    // independent task groups; the PCS objects (not `Sync`) are built inside the task using them
    vpcore::rayon::scope(|s| {
        s.spawn(move |_| g_selectors(fc, &mk_t()));
        s.spawn(move |_| g_selectors(fc, &mk_h()));
        s.spawn(move |_| g_quotient(fc, &mk_t()));
        s.spawn(move |_| g_quotient(fc, &mk_h()));
        s.spawn(move |_| g_composite(fc, &mk_t()));
        s.spawn(move |_| g_composite(fc, &mk_h()));
        s.spawn(move |_| g_periodic::<F, EF>(fc));
        s.spawn(move |_| g_eval_poly::<F, EF>(fc));
        s.spawn(move |_| g_exp_const::<F, EF>(fc));
        s.spawn(move |_| g_final_query_point::<F, EF>(fc));
        s.spawn(move |_| g_eval_points::<F, EF>(fc));
        s.spawn(move |_| g_primitives::<F, EF>(fc));
    });
}

fn run_all(eng: &Eng, ctx: &Ctx) {
    let only = ctx.opt("field").map(|s| s.to_string());
    let want = |f: &str| only.as_deref().map(|o| o == f).unwrap_or(true);
    let e = eng;
    vpcore::rayon::scope(|s| {
        if want("babybear_d4") {
            s.spawn(move |_| {
                use p3_test_utils::baby_bear_params as m;
                run_field::<m::F, m::Challenge, _, _>(e, "babybear_d4", 0, pcs::bb_twoadic, pcs::bb_hiding)
            });
        }
        if want("koalabear_d4") {
            s.spawn(move |_| {
                use p3_test_utils::koala_bear_params as m;
                run_field::<m::F, m::Challenge, _, _>(e, "koalabear_d4", 1, pcs::kb_twoadic, pcs::kb_hiding)
            });
        }
        if want("goldilocks_d2") {
            s.spawn(move |_| {
                use p3_test_utils::goldilocks_params as m;
                run_field::<m::F, m::Challenge, _, _>(e, "goldilocks_d2", 2, pcs::gl_twoadic, pcs::gl_hiding)
            });
        }
    });

}

fn main() {
    vpcore::install_quiet_panic_hook();
    let ctx = Ctx::from_args("C20", "exploration");

    let mut filter = None;
    let mut quick = ctx.quick();
    if let Some(path) = &ctx.replay {
        let r = vpcore::load_replay(path);
        let c: CaseId = vpcore::serde_json::from_value(r["case"].clone())
            .unwrap_or_else(|e| vpcore::machinery_error(&format!("bad replay: {e}")));
        if let Some(t) = r["tier"].as_str() {
            quick = t == "quick";
        }
        println!("replaying {}", c.show());
        filter = Some(c);
    }
    let bounds = Bounds::for_tier(quick);
    let eng = Eng::new(&ctx, bounds.clone(), filter);

    // Watchdog: a gadget that runs away on a valid input (unbounded loop / memory) must not
    // take the machine down. Memory blow-up (load independent) is a verdict; exceeding the
    // time budget is a machinery error. Both name the sweeps in flight. On the unchanged tree a
    // whole tier needs < 100 MB and a few seconds.
    let done = AtomicBool::new(false);
    std::thread::scope(|ts| {
        let (eng_ref, done_ref, ctx_ref) = (&eng, &done, &ctx);
        ts.spawn(move || {
            while !done_ref.load(Ordering::Relaxed) {
                std::thread::sleep(std::time::Duration::from_millis(100));
                let rss_mb = std::fs::read_to_string("/proc/self/statm")
                    .ok()
                    .and_then(|t| t.split_whitespace().nth(1).and_then(|x| x.parse::<u64>().ok()))
                    .map(|pages| pages * 4096 / (1 << 20))
                    .unwrap_or(0);
                let fl: Vec<String> = eng_ref.in_flight.lock().unwrap().iter().cloned().collect();
                if rss_mb > 4096 {
                    // > 100x the memory of a whole tier on the unchanged tree: independent of
                    // machine load, some gadget does not produce its circuit on a valid input
                    eng_ref.timed_out.store(true, Ordering::Relaxed);
                    let gadgets: std::collections::BTreeSet<String> = fl
                        .iter()
                        .map(|f| f.split('[').next().unwrap_or("").split(':').nth(1).unwrap_or("").to_string())
                        .collect();
                    conclude(
                        eng_ref,
                        ctx_ref,
                        quick,
                        Some((
                            format!("resource_blowup|{gadgets:?}"),
                            format!("building/running a gadget on a valid input exceeded 4 GB (a whole tier needs < 100 MB): no value is returned where the native function returns one; sweeps in flight: {fl:?}"),
                        )),
                    );
                }
                if ctx_ref.used() > 1.5 {
                    vpcore::machinery_error(&format!(
                        "watchdog: 1.5x budget exceeded ({:.0}s) — a gadget build/run does not terminate; sweeps in flight: {fl:?}",
                        ctx_ref.elapsed_s()
                    ));
                }
            }
        });
        run_all(&eng, &ctx);
        done.store(true, Ordering::Relaxed);
    });

    conclude(&eng, &ctx, quick, None)
}

/// Turns the collected violating groups into verdicts, writes the evidence and exits.
/// `blowup` carries the watchdog's resource blow-up verdict (see `main`).
fn conclude(eng: &Eng, ctx: &Ctx, quick: bool, blowup: Option<(String, String)>) -> ! {
    let report = Report::new();
    let bounds = eng.bounds.clone();
    if let Some((key, what)) = blowup {
        report.violation(key, what, json!({"tier": if quick { "quick" } else { "thorough" }}));
    }
    let only = ctx.opt("field").map(|s| s.to_string());
    let want = |f: &str| only.as_deref().map(|o| o == f).unwrap_or(true);

    // ---- verdicts
    for (group, p) in eng.viol.lock().unwrap().iter() {
        // The zeta-on-chunk-domain class is keyed by the class alone (its minimal case depends
        // on the tier's degree range); every other key carries the minimal violating case.
        let key = if group.starts_with("quotient_zeta_on_chunk_domain.") {
            format!("{group}|*")
        } else {
            format!("{group}|{}", p.case.show())
        };
        report.violation(
            key,
            format!("{} ({} violating cases in this group)", p.what, p.count),
            json!({"case": p.case, "tier": if quick { "quick" } else { "thorough" }, "detail": p.detail}),
        );
    }

    // ---- coverage
    let gs = eng.gstats.lock().unwrap();
    let mut tot = GStat::default();
    let mut per = BTreeMap::new();
    for (k, s) in gs.iter() {
        tot.cases += s.cases;
        tot.builds += s.builds;
        tot.runs += s.runs;
        tot.outputs_compared += s.outputs_compared;
        tot.native_undefined += s.native_undefined;
        tot.nontrivial_outputs += s.nontrivial_outputs;
        per.insert(
            k.clone(),
            json!({"cases": s.cases, "circuits_built": s.builds, "runs": s.runs, "outputs_compared": s.outputs_compared,
                   "native_undefined_skipped": s.native_undefined, "nontrivial_outputs": s.nontrivial_outputs}),
        );
    }
    let exhaustive = !eng.timed_out.load(Ordering::Relaxed) && only.is_none() && eng.filter.is_none();
    let samples: Vec<Value> = eng.samples.lock().unwrap().values().cloned().collect();
    let distinct = eng.distinct.lock().unwrap().len();
    eprintln!(
        "cases={} builds={} runs={} outputs_compared={} native_undefined={} distinct_nontrivial={} exhaustive={} t={:.1}s",
        tot.cases, tot.builds, tot.runs, tot.outputs_compared, tot.native_undefined, distinct, exhaustive, ctx.elapsed_s()
    );
    let fields_run: Vec<&str> = ["babybear_d4", "koalabear_d4", "goldilocks_d2"]
        .into_iter()
        .filter(|f| want(f))
        .collect();
    let cov = json!({
        "evaluations": tot.cases,
        "distinct_nontrivial": distinct,
        "rule": "a case = (field, gadget, structural parameters, input vector, input mode); every case builds the real gadget into a circuit, runs it with the real runner and compares every output target with the native Plonky3 value. distinct_nontrivial counts DISTINCT (gadget, native output value) pairs among the compared-and-equal outputs whose value is neither 0 nor 1 (measured with a hash set)",
        "samples": if samples.is_empty() { vec![json!("no non-trivial case in this (filtered) run")] } else { samples },
        "exhaustive": exhaustive,
        "bounds": bounds,
        "fields": fields_run,
        "circuits_built": tot.builds,
        "circuit_runs": tot.runs,
        "outputs_compared": tot.outputs_compared,
        "nontrivial_outputs_compared": tot.nontrivial_outputs,
        "native_undefined_skipped": tot.native_undefined,
        "sweeps_skipped_out_of_time": eng.skipped_sweeps.load(Ordering::Relaxed),
        "per_field_gadget": per,
        "outcome_histogram": eng.histo.to_json(),
        "replay": eng.filter.is_some(),
    });
    drop(gs);
    finish(
        &ctx,
        cov,
        vec![
            "the native Plonky3 0.6 functions (PolynomialSpace::{selectors_at_point, vanishing_poly_at_point, evaluate_periodic_column_at}, p3_uni_stark::recompose_quotient_from_chunks, exp_u64, horner) are the specification".into(),
            "index→point formulas of p3_fri::verifier (final query point, per-height evaluation point) are replicated literally and self-checked against an independent formulation on every case".into(),
            "inputs on which the native function panics (points of the domain for the selectors, 0 for barycentric interpolation) are outside the contract and skipped".into(),
            "points range over 3 generic extension elements, 0, 1, a small base element and domain elements; structural parameters are exhaustive within the stated bounds".into(),
        ],
        &report,
    )
}
