//! PCS-specific gadgets (Lagrange selectors, vanishing polynomial, quotient recomposition) need
//! a concrete `StarkGenericConfig` and the recursive target types of its PCS. The `PcsGadgets`
//! trait hides those type parameters; the `pcs_instance!` macro implements it for one
//! (field module of `p3_test_utils`, PCS kind) pair. The repository has two independent
//! `RecursivePcs` implementations (for `TwoAdicFriPcs` and for the ZK `HidingFriPcs`), both are
//! driven.

use p3_circuit::{CircuitBuilder, ExprId};
use p3_commit::{Pcs, PolynomialSpace};
use p3_field::coset::TwoAdicMultiplicativeCoset;
use p3_field::{ExtensionField, PrimeField64, TwoAdicField};
use p3_fri::{FriParameters, HidingFriPcs};
use p3_recursion::pcs::fri::{
    FriProofTargets, HidingFriProofTargets, InputProofTargets, MerkleCapTargets,
    RecExtensionValMmcs, RecValMmcs, Witness,
};
use p3_recursion::traits::RecursivePcs;
use p3_recursion::verifier::{
    recompose_quotient_from_chunks_circuit, verif_vanishing_poly_at_point_circuit,
};
use p3_uni_stark::{StarkConfig, StarkGenericConfig};
use rand::SeedableRng;
use rand::rngs::SmallRng;

pub type Coset<F> = TwoAdicMultiplicativeCoset<F>;

pub trait PcsGadgets {
    type F: TwoAdicField + PrimeField64;
    type EF: ExtensionField<Self::F> + core::hash::Hash + Eq;
    /// "twoadic" | "hiding"
    const KIND: &'static str;

    /// `config.is_zk()` of the native configuration (0 or 1)
    fn is_zk(&self) -> usize;

    // ---- circuit side (repository code) ----
    /// `RecursivePcs::selectors_at_point_circuit` -> [is_first_row, is_last_row, is_transition, inv_vanishing]
    fn selectors(
        &self,
        cb: &mut CircuitBuilder<Self::EF>,
        dom: &Coset<Self::F>,
        pt: ExprId,
    ) -> [ExprId; 4];
    /// hook `verif_vanishing_poly_at_point_circuit`
    fn vanishing(
        &self,
        cb: &mut CircuitBuilder<Self::EF>,
        dom: &Coset<Self::F>,
        pt: ExprId,
    ) -> ExprId;
    /// `recompose_quotient_from_chunks_circuit`
    fn recompose(
        &self,
        cb: &mut CircuitBuilder<Self::EF>,
        doms: &[Coset<Self::F>],
        chunks: &[Vec<ExprId>],
        zeta: ExprId,
    ) -> ExprId;
    /// `RecursivePcs::{create_disjoint_domain, split_domains, log_size, size, first_point}` exactly as
    /// `recursion/src/verifier/stark.rs` uses them to derive the quotient chunk domains
    fn rec_create_disjoint_domain(&self, dom: Coset<Self::F>, degree: usize) -> Coset<Self::F>;
    fn rec_split_domains(&self, dom: &Coset<Self::F>, n: usize) -> Vec<Coset<Self::F>>;
    fn rec_log_size(&self, dom: &Coset<Self::F>) -> usize;
    fn rec_first_point(&self, dom: &Coset<Self::F>) -> Self::EF;

    // ---- native side (Plonky3 crates) ----
    fn native_natural_domain(&self, degree: usize) -> Coset<Self::F>;
    /// `p3_uni_stark::recompose_quotient_from_chunks`
    fn native_recompose(
        &self,
        doms: &[Coset<Self::F>],
        chunks: &[Vec<Self::EF>],
        zeta: Self::EF,
    ) -> Self::EF;
}

macro_rules! pcs_instance {
    ($name:ident, $m:ident, $kind:literal, $Cfg:ty, $Pcs:ty, $Op:ident) => {
        pub struct $name {
            cfg: $Cfg,
        }
        impl $name {
            pub fn new(cfg: $Cfg) -> Self {
                Self { cfg }
            }
        }
        const _: () = {
            use p3_test_utils::$m as m;
            type F = m::F;
            type EF = m::Challenge;
            type Rv = RecValMmcs<F, { m::DIGEST_ELEMS }, m::MyHash, m::MyCompress>;
            type Ip = InputProofTargets<F, EF, Rv>;
            type Op = $Op<F, EF, RecExtensionValMmcs<F, EF, { m::DIGEST_ELEMS }, Rv>, Ip, Witness<F>>;
            type Comm = MerkleCapTargets<F, { m::DIGEST_ELEMS }>;
            type Dom = Coset<F>;

            impl PcsGadgets for $name {
                type F = F;
                type EF = EF;
                const KIND: &'static str = $kind;

                fn is_zk(&self) -> usize {
                    self.cfg.is_zk()
                }
                fn selectors(
                    &self,
                    cb: &mut CircuitBuilder<EF>,
                    dom: &Dom,
                    pt: ExprId,
                ) -> [ExprId; 4] {
                    let s = <$Pcs as RecursivePcs<$Cfg, Ip, Op, Comm, Dom>>::selectors_at_point_circuit(
                        self.cfg.pcs(),
                        cb,
                        dom,
                        &pt,
                    );
                    [
                        s.row_selectors.is_first_row,
                        s.row_selectors.is_last_row,
                        s.row_selectors.is_transition,
                        s.inv_vanishing,
                    ]
                }
                fn vanishing(&self, cb: &mut CircuitBuilder<EF>, dom: &Dom, pt: ExprId) -> ExprId {
                    verif_vanishing_poly_at_point_circuit::<$Cfg, Ip, Op, Comm, Dom>(
                        self.cfg.pcs(),
                        dom,
                        pt,
                        cb,
                    )
                }
                fn recompose(
                    &self,
                    cb: &mut CircuitBuilder<EF>,
                    doms: &[Dom],
                    chunks: &[Vec<ExprId>],
                    zeta: ExprId,
                ) -> ExprId {
                    recompose_quotient_from_chunks_circuit::<$Cfg, Ip, Op, Comm, Dom>(
                        cb,
                        doms,
                        chunks,
                        zeta,
                        self.cfg.pcs(),
                    )
                }
                fn rec_create_disjoint_domain(&self, dom: Dom, degree: usize) -> Dom {
                    <$Pcs as RecursivePcs<$Cfg, Ip, Op, Comm, Dom>>::create_disjoint_domain(
                        self.cfg.pcs(),
                        dom,
                        degree,
                    )
                }
                fn rec_split_domains(&self, dom: &Dom, n: usize) -> Vec<Dom> {
                    <$Pcs as RecursivePcs<$Cfg, Ip, Op, Comm, Dom>>::split_domains(
                        self.cfg.pcs(),
                        dom,
                        n,
                    )
                }
                fn rec_log_size(&self, dom: &Dom) -> usize {
                    <$Pcs as RecursivePcs<$Cfg, Ip, Op, Comm, Dom>>::log_size(self.cfg.pcs(), dom)
                }
                fn rec_first_point(&self, dom: &Dom) -> EF {
                    <$Pcs as RecursivePcs<$Cfg, Ip, Op, Comm, Dom>>::first_point(self.cfg.pcs(), dom)
                }
                fn native_natural_domain(&self, degree: usize) -> Dom {
                    <$Pcs as Pcs<EF, m::Challenger>>::natural_domain_for_degree(
                        self.cfg.pcs(),
                        degree,
                    )
                }
                fn native_recompose(&self, doms: &[Dom], chunks: &[Vec<EF>], zeta: EF) -> EF {
                    p3_uni_stark::recompose_quotient_from_chunks::<$Cfg>(doms, chunks, zeta)
                }
            }
        };
    };
}

// ---- BabyBear D4 ----
pub type BbPcsZk = HidingFriPcs<
    p3_test_utils::baby_bear_params::F,
    p3_test_utils::baby_bear_params::Dft,
    p3_test_utils::baby_bear_params::MyMmcs,
    p3_test_utils::baby_bear_params::ChallengeMmcs,
    SmallRng,
>;
pub type BbCfgZk = StarkConfig<
    BbPcsZk,
    p3_test_utils::baby_bear_params::Challenge,
    p3_test_utils::baby_bear_params::Challenger,
>;
pcs_instance!(
    BbTwoAdic,
    baby_bear_params,
    "twoadic",
    p3_test_utils::baby_bear_params::MyConfig,
    p3_test_utils::baby_bear_params::MyPcs,
    FriProofTargets
);
pcs_instance!(BbHiding, baby_bear_params, "hiding", BbCfgZk, BbPcsZk, HidingFriProofTargets);

pub fn bb_twoadic() -> BbTwoAdic {
    BbTwoAdic::new(p3_test_utils::baby_bear_params::make_test_config())
}
pub fn bb_hiding() -> BbHiding {
    use p3_test_utils::baby_bear_params::*;
    let perm = default_babybear_poseidon2_16();
    let val_mmcs = MyMmcs::new(MyHash::new(perm.clone()), MyCompress::new(perm.clone()), 0);
    let challenge_mmcs = ChallengeMmcs::new(val_mmcs.clone());
    let fri_params = FriParameters::new_testing(challenge_mmcs, 0);
    let pcs = BbPcsZk::new(Dft::default(), val_mmcs, fri_params, 2, SmallRng::seed_from_u64(1));
    BbHiding::new(BbCfgZk::new(pcs, Challenger::new(perm)))
}

// ---- KoalaBear D4 ----
pub type KbPcsZk = HidingFriPcs<
    p3_test_utils::koala_bear_params::F,
    p3_test_utils::koala_bear_params::Dft,
    p3_test_utils::koala_bear_params::MyMmcs,
    p3_test_utils::koala_bear_params::ChallengeMmcs,
    SmallRng,
>;
pub type KbCfgZk = StarkConfig<
    KbPcsZk,
    p3_test_utils::koala_bear_params::Challenge,
    p3_test_utils::koala_bear_params::Challenger,
>;
pcs_instance!(
    KbTwoAdic,
    koala_bear_params,
    "twoadic",
    p3_test_utils::koala_bear_params::MyConfig,
    p3_test_utils::koala_bear_params::MyPcs,
    FriProofTargets
);
pcs_instance!(KbHiding, koala_bear_params, "hiding", KbCfgZk, KbPcsZk, HidingFriProofTargets);

pub fn kb_twoadic() -> KbTwoAdic {
    KbTwoAdic::new(p3_test_utils::koala_bear_params::make_test_config())
}
pub fn kb_hiding() -> KbHiding {
    use p3_test_utils::koala_bear_params::*;
    let perm = default_koalabear_poseidon2_16();
    let val_mmcs = MyMmcs::new(MyHash::new(perm.clone()), MyCompress::new(perm.clone()), 0);
    let challenge_mmcs = ChallengeMmcs::new(val_mmcs.clone());
    let fri_params = FriParameters::new_testing(challenge_mmcs, 0);
    let pcs = KbPcsZk::new(Dft::default(), val_mmcs, fri_params, 2, SmallRng::seed_from_u64(1));
    KbHiding::new(KbCfgZk::new(pcs, Challenger::new(perm)))
}

// ---- Goldilocks D2 ----
pub type GlPcsZk = HidingFriPcs<
    p3_test_utils::goldilocks_params::F,
    p3_test_utils::goldilocks_params::Dft,
    p3_test_utils::goldilocks_params::MyMmcs,
    p3_test_utils::goldilocks_params::ChallengeMmcs,
    SmallRng,
>;
pub type GlCfgZk = StarkConfig<
    GlPcsZk,
    p3_test_utils::goldilocks_params::Challenge,
    p3_test_utils::goldilocks_params::Challenger,
>;
pcs_instance!(
    GlTwoAdic,
    goldilocks_params,
    "twoadic",
    p3_test_utils::goldilocks_params::MyConfig,
    p3_test_utils::goldilocks_params::MyPcs,
    FriProofTargets
);
pcs_instance!(GlHiding, goldilocks_params, "hiding", GlCfgZk, GlPcsZk, HidingFriProofTargets);

fn gl_perm() -> p3_test_utils::goldilocks_params::Perm {
    let mut rng = SmallRng::seed_from_u64(1);
    p3_goldilocks::Poseidon2Goldilocks::<8>::new_from_rng_128(&mut rng)
}
pub fn gl_twoadic() -> GlTwoAdic {
    use p3_test_utils::goldilocks_params::*;
    let perm = gl_perm();
    let val_mmcs = MyMmcs::new(MyHash::new(perm.clone()), MyCompress::new(perm.clone()), 0);
    let challenge_mmcs = ChallengeMmcs::new(val_mmcs.clone());
    let fri_params = FriParameters::new_testing(challenge_mmcs, 0);
    let pcs = MyPcs::new(Dft::default(), val_mmcs, fri_params);
    GlTwoAdic::new(MyConfig::new(pcs, Challenger::new(perm)))
}
pub fn gl_hiding() -> GlHiding {
    use p3_test_utils::goldilocks_params::*;
    let perm = gl_perm();
    let val_mmcs = MyMmcs::new(MyHash::new(perm.clone()), MyCompress::new(perm.clone()), 0);
    let challenge_mmcs = ChallengeMmcs::new(val_mmcs.clone());
    let fri_params = FriParameters::new_testing(challenge_mmcs, 0);
    let pcs = GlPcsZk::new(Dft::default(), val_mmcs, fri_params, 2, SmallRng::seed_from_u64(1));
    GlHiding::new(GlCfgZk::new(pcs, Challenger::new(perm)))
}

/// keeps `PolynomialSpace` in scope for callers of the native domain functions
pub fn _touch<F: TwoAdicField>(d: &Coset<F>) -> usize {
    PolynomialSpace::size(d)
}
