//! vpcore — plumbing shared by every property check.
//!
//! * `Ctx`      — command line / environment (tier, seed, replay file, wall-clock budget)
//! * `Report`   — thread-safe collector of violating cases, keyed by a canonical *minimal
//!                form*; matching against `/verif/known_findings.json`
//! * `finish`   — writes `/verif/evidence/<id>.json`, replay files, prints the
//!                `KNOWN-FINDING:` / `VIOLATION` lines and exits with the protocol code
//! * `quiet_catch` — `catch_unwind` that also captures the panic message and keeps stderr clean
//!
//! Exit protocol: 0 = held (or only known findings), 1 = at least one unlisted violation,
//! 2 = machinery error (never a verdict).

use std::collections::BTreeMap;
use std::path::{Path, PathBuf};
use std::sync::Mutex;
use std::time::{Duration, Instant};

pub use rayon;
pub use serde_json;
use serde_json::{Value, json};

#[derive(Clone, Copy, Debug, PartialEq, Eq)]
pub enum Tier {
    Quick,
    Thorough,
}

impl Tier {
    pub fn as_str(&self) -> &'static str {
        match self {
            Tier::Quick => "quick",
            Tier::Thorough => "thorough",
        }
    }
    pub fn is_quick(&self) -> bool {
        matches!(self, Tier::Quick)
    }
}

pub struct Ctx {
    pub id: String,
    pub level: String,
    pub tier: Tier,
    pub seed: u64,
    pub replay: Option<PathBuf>,
    pub root: PathBuf,
    pub start: Instant,
    pub budget: Duration,
    /// free-form `--opt key=value` pairs
    pub opts: BTreeMap<String, String>,
}

pub fn machinery_error(msg: &str) -> ! {
    eprintln!("MACHINERY-ERROR: {msg}");
    println!("MACHINERY-ERROR: {msg}");
    std::process::exit(2);
}

impl Ctx {
    /// `level` is one of the EVIDENCE.schema.json levels.
    /// argv: `<quick|thorough> [--replay <file>] [--budget-s <n>] [--opt k=v]...`
    /// Default budgets: quick 45 s, thorough 25 min (wall clock *after* build).
    pub fn from_args(id: &str, level: &str) -> Ctx {
        let args: Vec<String> = std::env::args().skip(1).collect();
        let mut tier = match std::env::var("VERIF_TIER").ok().as_deref() {
            Some("thorough") => Tier::Thorough,
            _ => Tier::Quick,
        };
        let mut replay = None;
        let mut budget = None;
        let mut opts = BTreeMap::new();
        let mut i = 0;
        while i < args.len() {
            match args[i].as_str() {
                "quick" => tier = Tier::Quick,
                "thorough" => tier = Tier::Thorough,
                "--replay" => {
                    i += 1;
                    replay = Some(PathBuf::from(
                        args.get(i).unwrap_or_else(|| machinery_error("--replay needs a path")),
                    ));
                }
                "--budget-s" => {
                    i += 1;
                    budget = args.get(i).and_then(|s| s.parse::<u64>().ok());
                }
                "--opt" => {
                    i += 1;
                    if let Some((k, v)) = args.get(i).and_then(|s| s.split_once('=')) {
                        opts.insert(k.to_string(), v.to_string());
                    }
                }
                other => machinery_error(&format!("unknown argument {other}")),
            }
            i += 1;
        }
        let seed = std::env::var("VERIF_SEED")
            .ok()
            .and_then(|s| s.parse::<i64>().ok())
            .map(|v| v as u64)
            .unwrap_or(0);
        let root = PathBuf::from(std::env::var("VERIF_ROOT").unwrap_or_else(|_| "/verif".into()));
        let budget = Duration::from_secs(budget.unwrap_or(match tier {
            Tier::Quick => 45,
            Tier::Thorough => 25 * 60,
        }));
        Ctx {
            id: id.to_string(),
            level: level.to_string(),
            tier,
            seed,
            replay,
            root,
            start: Instant::now(),
            budget,
            opts,
        }
    }

    pub fn elapsed_s(&self) -> f64 {
        self.start.elapsed().as_secs_f64()
    }
    pub fn out_of_time(&self) -> bool {
        self.start.elapsed() >= self.budget
    }
    /// fraction of the budget already used
    pub fn used(&self) -> f64 {
        self.start.elapsed().as_secs_f64() / self.budget.as_secs_f64()
    }
    pub fn opt(&self, k: &str) -> Option<&str> {
        self.opts.get(k).map(|s| s.as_str())
    }
    pub fn quick(&self) -> bool {
        self.tier.is_quick()
    }
}

#[derive(Clone, Debug)]
pub struct Violation {
    /// canonical form of the *minimal* violating case + the oracle clause that failed;
    /// this is what `known_findings.json` is matched against
    pub key: String,
    /// one-line human description
    pub what: String,
    /// everything needed to re-execute the case
    pub replay: Value,
}

#[derive(Default)]
pub struct Report {
    inner: Mutex<BTreeMap<String, (Violation, u64)>>,
    sizes: Mutex<BTreeMap<String, usize>>,
}

impl Report {
    pub fn new() -> Self {
        Self::default()
    }
    /// Record a violating case. The first case recorded for a key is kept as its replay
    /// (explorers go simplest-first, so that is also the shortest).
    pub fn violation(&self, key: impl Into<String>, what: impl Into<String>, replay: Value) {
        let key = key.into();
        let mut g = self.inner.lock().unwrap();
        g.entry(key.clone())
            .and_modify(|e| e.1 += 1)
            .or_insert_with(|| {
                (
                    Violation {
                        key,
                        what: what.into(),
                        replay,
                    },
                    1,
                )
            });
    }
    /// Like `violation`, but among the cases recorded for one key the one with the smallest
    /// `size` is kept as the replay (independent of thread timing).
    pub fn violation_sized(
        &self,
        key: impl Into<String>,
        what: impl Into<String>,
        replay: Value,
        size: usize,
    ) {
        let key = key.into();
        let what = what.into();
        let mut g = self.inner.lock().unwrap();
        let mut sizes = self.sizes.lock().unwrap();
        match g.get_mut(&key) {
            Some(e) => {
                e.1 += 1;
                let cur = sizes.get(&key).copied().unwrap_or(usize::MAX);
                if size < cur || (size == cur && what < e.0.what) {
                    e.0.what = what;
                    e.0.replay = replay;
                    sizes.insert(key, size);
                }
            }
            None => {
                sizes.insert(key.clone(), size);
                g.insert(key.clone(), (Violation { key, what, replay }, 1));
            }
        }
    }
    pub fn distinct(&self) -> usize {
        self.inner.lock().unwrap().len()
    }
    pub fn has(&self, key: &str) -> bool {
        self.inner.lock().unwrap().contains_key(key)
    }
    pub fn snapshot(&self) -> Vec<(Violation, u64)> {
        self.inner.lock().unwrap().values().cloned().collect()
    }
}

#[derive(Clone, Debug)]
pub struct KnownFinding {
    pub property: String,
    pub key: String,
    pub what: String,
    pub status: String,
}

pub fn load_known_findings(root: &Path) -> Vec<KnownFinding> {
    let p = root.join("known_findings.json");
    let Ok(s) = std::fs::read_to_string(&p) else {
        return vec![];
    };
    let v: Value = serde_json::from_str(&s)
        .unwrap_or_else(|e| machinery_error(&format!("known_findings.json unreadable: {e}")));
    let mut out = vec![];
    for e in v["findings"].as_array().cloned().unwrap_or_default() {
        out.push(KnownFinding {
            property: e["property"].as_str().unwrap_or("").to_string(),
            key: e["key"].as_str().unwrap_or("").to_string(),
            what: e["what"].as_str().unwrap_or("").to_string(),
            status: e["status"].as_str().unwrap_or("").to_string(),
        });
    }
    out
}

fn fnv(s: &str) -> u64 {
    let mut h: u64 = 0xcbf29ce484222325;
    for b in s.bytes() {
        h ^= b as u64;
        h = h.wrapping_mul(0x100000001b3);
    }
    h
}

/// Writes evidence, replays, prints verdict lines, exits.
///
/// `coverage` must be a JSON object holding the keys the level requires
/// (exploration / fault_enumeration: evaluations, distinct_nontrivial, rule, samples;
/// model_checking: states, transitions, traces_validated_against_impl, samples).
pub fn finish(ctx: &Ctx, mut coverage: Value, assumptions: Vec<String>, report: &Report) -> ! {
    let known = load_known_findings(&ctx.root);
    let mut unlisted = 0usize;
    let mut known_hit = vec![];
    let mut lines = vec![];
    let snapshot = report.snapshot();
    for (v, count) in &snapshot {
        let hit = known
            .iter()
            .find(|k| k.property == ctx.id && k.status == "known" && k.key == v.key);
        if let Some(k) = hit {
            lines.push(format!(
                "KNOWN-FINDING: property={} key={} {} ({} cases)",
                ctx.id, v.key, k.what, count
            ));
            known_hit.push(json!({"key": v.key, "cases": count}));
        } else {
            unlisted += 1;
            let dir = ctx.root.join("replays").join(&ctx.id);
            let _ = std::fs::create_dir_all(&dir);
            let path = dir.join(format!("{:016x}.json", fnv(&v.key)));
            let body = json!({
                "property": ctx.id, "key": v.key, "what": v.what, "cases": count,
                "tier": ctx.tier.as_str(), "seed": ctx.seed, "replay": v.replay,
            });
            let _ = std::fs::write(&path, serde_json::to_string_pretty(&body).unwrap());
            lines.push(format!("  what: {} ({} cases) key={}", v.what, count, v.key));
            lines.push(format!(
                "VIOLATION property={} replay={}",
                ctx.id,
                path.display()
            ));
        }
    }
    if let Some(m) = coverage.as_object_mut() {
        m.insert("known_findings_hit".into(), Value::Array(known_hit));
        m.insert("violating_keys".into(), json!(snapshot.len()));
        m.entry("budget_s").or_insert(json!(ctx.budget.as_secs()));
    }
    let ev = json!({
        "property_id": ctx.id,
        "tier": ctx.tier.as_str(),
        "seed": ctx.seed,
        "level": ctx.level,
        "coverage": coverage,
        "assumptions": assumptions,
        "wall_s": ctx.elapsed_s(),
        "violations": unlisted,
    });
    let edir = ctx.root.join("evidence");
    let _ = std::fs::create_dir_all(&edir);
    let epath = edir.join(format!("{}.json", ctx.id));
    if let Err(e) = std::fs::write(&epath, serde_json::to_string_pretty(&ev).unwrap()) {
        machinery_error(&format!("cannot write evidence {}: {e}", epath.display()));
    }
    for l in lines {
        println!("{l}");
    }
    println!(
        "{} {} tier={} wall={:.1}s violations={} (distinct violating keys {}, known {})",
        ctx.id,
        if unlisted == 0 { "OK" } else { "FAILED" },
        ctx.tier.as_str(),
        ctx.elapsed_s(),
        unlisted,
        snapshot.len(),
        snapshot.len() - unlisted
    );
    std::process::exit(if unlisted == 0 { 0 } else { 1 });
}

// ---------------------------------------------------------------------------------------
// panic capture

thread_local! {
    static QUIET: std::cell::Cell<bool> = const { std::cell::Cell::new(false) };
    static LAST_PANIC: std::cell::RefCell<Option<String>> = const { std::cell::RefCell::new(None) };
}

/// Install once at start-up: panics inside `quiet_catch` are captured instead of printed.
pub fn install_quiet_panic_hook() {
    let default = std::panic::take_hook();
    std::panic::set_hook(Box::new(move |info| {
        if QUIET.with(|q| q.get()) {
            let msg = if let Some(s) = info.payload().downcast_ref::<&str>() {
                s.to_string()
            } else if let Some(s) = info.payload().downcast_ref::<String>() {
                s.clone()
            } else {
                "<non-string panic>".to_string()
            };
            let loc = info
                .location()
                .map(|l| format!("{}:{}", l.file(), l.line()))
                .unwrap_or_default();
            LAST_PANIC.with(|p| *p.borrow_mut() = Some(format!("{msg} @ {loc}")));
        } else {
            default(info);
        }
    }));
}

/// Runs `f`; a panic becomes `Err(message @ file:line)`.
pub fn quiet_catch<T>(f: impl FnOnce() -> T) -> Result<T, String> {
    let prev = QUIET.with(|q| q.replace(true));
    let r = std::panic::catch_unwind(std::panic::AssertUnwindSafe(f));
    QUIET.with(|q| q.set(prev));
    match r {
        Ok(v) => Ok(v),
        Err(_) => Err(LAST_PANIC
            .with(|p| p.borrow_mut().take())
            .unwrap_or_else(|| "<panic>".into())),
    }
}

/// Histogram helper for verdict counts in evidence.
#[derive(Default)]
pub struct Histo(Mutex<BTreeMap<String, u64>>);
impl Histo {
    pub fn new() -> Self {
        Self::default()
    }
    pub fn add(&self, k: &str) {
        *self.0.lock().unwrap().entry(k.to_string()).or_insert(0) += 1;
    }
    pub fn add_n(&self, k: &str, n: u64) {
        *self.0.lock().unwrap().entry(k.to_string()).or_insert(0) += n;
    }
    pub fn get(&self, k: &str) -> u64 {
        self.0.lock().unwrap().get(k).copied().unwrap_or(0)
    }
    pub fn to_json(&self) -> Value {
        json!(*self.0.lock().unwrap())
    }
}

/// Load a replay file written by `finish` and return its `replay` member.
pub fn load_replay(path: &Path) -> Value {
    let s = std::fs::read_to_string(path)
        .unwrap_or_else(|e| machinery_error(&format!("cannot read replay {}: {e}", path.display())));
    let v: Value = serde_json::from_str(&s)
        .unwrap_or_else(|e| machinery_error(&format!("replay not JSON: {e}")));
    v.get("replay").cloned().unwrap_or(v)
}
