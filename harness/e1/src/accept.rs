//! Acceptance oracle: the repository's real prover + verifier on a set of traces.

use p3_baby_bear::BabyBear;
use p3_batch_stark::ProverData;
use p3_circuit::{Circuit, Traces};
use p3_circuit_prover::batch_stark_prover::{BatchStarkProver, CircuitProverData, TablePacking};
use p3_circuit_prover::common::get_airs_and_degrees_with_prep;
use p3_baby_bear::default_babybear_poseidon2_16;
use p3_challenger::DuplexChallenger;
use p3_circuit_prover::config::BabyBearConfig;
use p3_commit::ExtensionMmcs;
use p3_dft::Radix2DitParallel;
use p3_fri::{FriParameters, TwoAdicFriPcs};
use p3_merkle_tree::MerkleTreeMmcs;
use p3_symmetric::{PaddingFreeSponge, TruncatedPermutation};
use p3_uni_stark::StarkConfig;
use p3_circuit_prover::ConstraintProfile;
use vpcore::quiet_catch;

#[derive(Clone, Debug, PartialEq, Eq)]
pub enum Verdict {
    Accepted,
    /// preparation (AIR / preprocessed column generation) failed
    PrepErr(String),
    ProveErr(String),
    VerifyErr(String),
    Panic(String),
}

impl Verdict {
    pub fn accepted(&self) -> bool {
        matches!(self, Verdict::Accepted)
    }
    pub fn short(&self) -> String {
        match self {
            Verdict::Accepted => "accepted".into(),
            Verdict::PrepErr(e) => format!("prep_err:{}", first_word(e)),
            Verdict::ProveErr(e) => format!("prove_err:{}", first_word(e)),
            Verdict::VerifyErr(e) => format!("verify_err:{}", first_word(e)),
            Verdict::Panic(_) => "panic".into(),
        }
    }
    pub fn long(&self) -> String {
        format!("{self:?}")
    }
}

fn first_word(s: &str) -> String {
    s.split(|c: char| !c.is_alphanumeric() && c != '_')
        .find(|w| !w.is_empty())
        .unwrap_or("")
        .to_string()
}

/// The repository's BabyBear configuration (`config::baby_bear()`: same hash, compression,
/// MMCS, DFT, challenger) with test-grade FRI parameters (2 queries, 1+1 PoW bits, blow-up 4)
/// instead of the benchmark ones (100 queries, 16 grinding bits): ~20x cheaper proofs.
/// Completeness checks do not depend on the FRI parameters; for forged traces the rejection
/// comes from the out-of-domain identity / LogUp terminal sum, which no parameter weakens.
pub fn fast_baby_bear() -> BabyBearConfig {
    let perm = default_babybear_poseidon2_16();
    let hash = PaddingFreeSponge::<_, 16, 8, 8>::new(perm.clone());
    let compress = TruncatedPermutation::<_, 2, 8, 16>::new(perm.clone());
    let val_mmcs = MerkleTreeMmcs::new(hash, compress, 3);
    let challenge_mmcs = ExtensionMmcs::new(val_mmcs.clone());
    let dft = Radix2DitParallel::default();
    let fri_params = FriParameters::new_testing(challenge_mmcs, 0);
    let pcs = TwoAdicFriPcs::new(dft, val_mmcs, fri_params);
    let challenger = DuplexChallenger::new(perm);
    StarkConfig::new(pcs, challenger)
}

/// KoalaBear twin of [`fast_baby_bear`].
pub fn fast_koala_bear() -> p3_circuit_prover::config::KoalaBearConfig {
    let perm = p3_koala_bear::default_koalabear_poseidon2_16();
    let hash = PaddingFreeSponge::<_, 16, 8, 8>::new(perm.clone());
    let compress = TruncatedPermutation::<_, 2, 8, 16>::new(perm.clone());
    let val_mmcs = MerkleTreeMmcs::new(hash, compress, 3);
    let challenge_mmcs = ExtensionMmcs::new(val_mmcs.clone());
    let dft = Radix2DitParallel::default();
    let fri_params = FriParameters::new_testing(challenge_mmcs, 0);
    let pcs = TwoAdicFriPcs::new(dft, val_mmcs, fri_params);
    let challenger = DuplexChallenger::new(perm);
    StarkConfig::new(pcs, challenger)
}

/// Base-field (D = 1) BabyBear: prepare, prove, verify.
pub fn prove_verify_bb1(
    circuit: &Circuit<BabyBear>,
    traces: &Traces<BabyBear>,
    packing: &TablePacking,
) -> Verdict {
    let r = quiet_catch(|| {
        let cfg = fast_baby_bear();
        let (airs_degrees, prim, nonprim) = match get_airs_and_degrees_with_prep::<BabyBearConfig, _, 1>(
            circuit,
            packing,
            &[],
            &[],
            ConstraintProfile::Standard,
        ) {
            Ok(x) => x,
            Err(e) => return Verdict::PrepErr(format!("{e:?}")),
        };
        let (airs, degs): (Vec<_>, Vec<usize>) = airs_degrees.into_iter().unzip();
        let pd = ProverData::from_airs_and_degrees(&cfg, &airs, &degs);
        let cpd = CircuitProverData::new(pd, prim, nonprim);
        let prover = BatchStarkProver::new(cfg).with_table_packing(packing.clone());
        let proof = match prover.prove_all_tables(traces, &cpd) {
            Ok(p) => p,
            Err(e) => return Verdict::ProveErr(format!("{e:?}")),
        };
        match prover.verify_all_tables::<BabyBear>(&proof) {
            Ok(()) => Verdict::Accepted,
            Err(e) => Verdict::VerifyErr(format!("{e:?}")),
        }
    });
    match r {
        Ok(v) => v,
        Err(p) => Verdict::Panic(p),
    }
}

/// BabyBear degree-4 extension as element field (D = 4): prepare, prove, verify.
pub fn prove_verify_bb4(
    circuit: &Circuit<p3_field::extension::BinomialExtensionField<BabyBear, 4>>,
    traces: &Traces<p3_field::extension::BinomialExtensionField<BabyBear, 4>>,
) -> Verdict {
    type EF = p3_field::extension::BinomialExtensionField<BabyBear, 4>;
    let r = quiet_catch(|| {
        let cfg = fast_baby_bear();
        let packing = TablePacking::default();
        let (airs_degrees, prim, nonprim) = match get_airs_and_degrees_with_prep::<BabyBearConfig, _, 4>(circuit, &packing, &[], &[], ConstraintProfile::Standard) {
            Ok(x) => x,
            Err(e) => return Verdict::PrepErr(format!("{e:?}")),
        };
        let (airs, degs): (Vec<_>, Vec<usize>) = airs_degrees.into_iter().unzip();
        let pd = ProverData::from_airs_and_degrees(&cfg, &airs, &degs);
        let cpd = CircuitProverData::new(pd, prim, nonprim);
        let prover = BatchStarkProver::new(cfg);
        let proof = match prover.prove_all_tables(traces, &cpd) {
            Ok(p) => p,
            Err(e) => return Verdict::ProveErr(format!("{e:?}")),
        };
        match prover.verify_all_tables::<EF>(&proof) {
            Ok(()) => Verdict::Accepted,
            Err(e) => Verdict::VerifyErr(format!("{e:?}")),
        }
    });
    match r {
        Ok(v) => v,
        Err(p) => Verdict::Panic(p),
    }
}
