//! Witness-bus audit shared by C09 and C10 (BabyBear, D = 1).
//!
//! The REAL preparation code (`get_airs_and_degrees_with_prep`) yields the final per-op
//! preprocessed values: bus index and signed multiplicity of every port of every
//! Const / Public / ALU row. Effective multiplicities are read exactly as
//! `eval_alu_interactions` (alu_air.rs) uses them: a: mult_a*a_is_reader, b: mult_b,
//! c: mult_a*c_is_reader, out: mult_out; Const/Public rows: [mult, idx].

use std::collections::{BTreeMap, BTreeSet};

use p3_baby_bear::BabyBear;
use p3_circuit::expr::Expr;
use p3_circuit::ops::{AluOpKind, Op};
use p3_circuit::{Circuit, ExprId};
use p3_circuit_prover::batch_stark_prover::TablePacking;
use p3_circuit_prover::common::get_airs_and_degrees_with_prep;
use p3_circuit_prover::config::BabyBearConfig;
use p3_circuit_prover::ConstraintProfile;
use p3_field::PrimeField64;
use vpcore::quiet_catch;

type F = BabyBear;
const P: u64 = 0x78000001;

fn signed(x: F) -> i64 {
    let v = x.as_canonical_u64();
    if v > P / 2 { v as i64 - P as i64 } else { v as i64 }
}

#[derive(Clone, Debug)]
pub struct Port {
    /// "const", "public", "alu.a", "alu.b", "alu.c", "alu.out"
    pub role: &'static str,
    pub kind: Option<AluOpKind>,
    /// index of the row's op within its table
    pub op_index: usize,
    pub slot: u64,
    /// signed effective multiplicity on the WitnessChecks bus (readers are exactly -1)
    pub mult: i64,
    /// the op's relation depends on this port
    pub relation_port: bool,
}

/// Ports read from the FINAL preprocessed matrices of the Const / Public / ALU AIRs built by
/// the real `get_airs_and_degrees_with_prep` for `packing` — i.e. after lane packing and
/// packed-Horner scheduling. Layout (alu_columns.rs): per lane 13 columns
/// [mult_a, sel_add, sel_bool, sel_muladd, sel_horner, a_idx, b_idx, c_idx, out_idx, mult_b,
/// mult_out, a_is_reader, c_is_reader]; then (k-1) arity selectors and (k-1) step blocks
/// [a_idx, c_idx, a_reader, c_reader, lookup_mult_a, lookup_mult_c]. Const/Public: per lane
/// [mult, idx]. `Err` = layout not understood (machinery error for the caller).
pub fn ports_from_matrices(circuit: &Circuit<F>, packing: &TablePacking) -> Result<Vec<Port>, String> {
    use p3_air::BaseAir;
    use p3_circuit_prover::common::CircuitTableAir;
    use p3_matrix::Matrix;
    let ad = match quiet_catch(|| {
        get_airs_and_degrees_with_prep::<BabyBearConfig, _, 1>(circuit, packing, &[], &[], ConstraintProfile::Standard)
            .map(|(ad, _, _)| ad)
            .map_err(|e| format!("prep:{e:?}"))
    }) {
        Ok(Ok(x)) => x,
        Ok(Err(e)) => return Err(e),
        Err(p) => return Err(format!("prep:panic: {p}")),
    };
    let k = packing.horner_packed_steps();
    let mut out = vec![];
    for (air, _) in &ad {
        match air {
            CircuitTableAir::Const(a) => {
                if let Some(m) = a.preprocessed_trace() {
                    if m.width() != 2 {
                        return Err(format!("layout: const prep width {}", m.width()));
                    }
                    for r in 0..m.height() {
                        let row = m.row_slice(r).unwrap();
                        let mult = signed(row[0]);
                        out.push(Port { role: "const", kind: None, op_index: r, slot: row[1].as_canonical_u64(), mult, relation_port: true });
                    }
                }
            }
            CircuitTableAir::Public(a) => {
                if let Some(m) = a.preprocessed_trace() {
                    if m.width() % 2 != 0 {
                        return Err(format!("layout: public prep width {}", m.width()));
                    }
                    for r in 0..m.height() {
                        let row = m.row_slice(r).unwrap();
                        for l in 0..m.width() / 2 {
                            out.push(Port { role: "public", kind: None, op_index: r * 8 + l, slot: row[2 * l + 1].as_canonical_u64(), mult: signed(row[2 * l]), relation_port: true });
                        }
                    }
                }
            }
            CircuitTableAir::Alu(a) => {
                let Some(m) = a.preprocessed_trace() else { continue };
                let extra = 7 * (k - 1);
                if m.width() < extra + 13 || (m.width() - extra) % 13 != 0 {
                    return Err(format!("layout: alu prep width {} with k={k}", m.width()));
                }
                let lanes = (m.width() - extra) / 13;
                for r in 0..m.height() {
                    let row = m.row_slice(r).unwrap();
                    for l in 0..lanes {
                        let c = &row[l * 13..(l + 1) * 13];
                        let mult_a = signed(c[0]);
                        if mult_a == 0 {
                            // inactive lane: must not interact at all
                            for (j, name) in [(9usize, "alu.b"), (10, "alu.out")] {
                                if signed(c[j]) != 0 {
                                    out.push(Port { role: if name == "alu.b" { "alu.b" } else { "alu.out" }, kind: None, op_index: r * 8 + l, slot: c[if j == 9 { 6 } else { 8 }].as_canonical_u64(), mult: signed(c[j]), relation_port: false });
                                }
                            }
                            continue;
                        }
                        let (sel_add, sel_bool, sel_muladd, sel_horner) = (signed(c[1]), signed(c[2]), signed(c[3]), signed(c[4]));
                        let kind = if sel_add == 1 {
                            AluOpKind::Add
                        } else if sel_bool == 1 {
                            AluOpKind::BoolCheck
                        } else if sel_muladd == 1 {
                            AluOpKind::MulAdd
                        } else if sel_horner == 1 {
                            AluOpKind::HornerAcc
                        } else {
                            AluOpKind::Mul
                        };
                        let uses_c = matches!(kind, AluOpKind::MulAdd | AluOpKind::HornerAcc);
                        let is_bool = kind == AluOpKind::BoolCheck;
                        let id = r * 8 + l;
                        out.push(Port { role: "alu.a", kind: Some(kind), op_index: id, slot: c[5].as_canonical_u64(), mult: mult_a * signed(c[11]), relation_port: true });
                        out.push(Port { role: "alu.b", kind: Some(kind), op_index: id, slot: c[6].as_canonical_u64(), mult: signed(c[9]), relation_port: !is_bool });
                        out.push(Port { role: "alu.c", kind: Some(kind), op_index: id, slot: c[7].as_canonical_u64(), mult: mult_a * signed(c[12]), relation_port: uses_c });
                        out.push(Port { role: "alu.out", kind: Some(kind), op_index: id, slot: c[8].as_canonical_u64(), mult: signed(c[10]), relation_port: true });
                    }
                    // packed-Horner step blocks of this row
                    let e = &row[lanes * 13..];
                    let packed_k = (2..=k).find(|kk| signed(e[kk - 2]) == 1);
                    if let Some(pk) = packed_k {
                        for t in 1..pk {
                            let b = &e[(k - 1) + 6 * (t - 1)..(k - 1) + 6 * t];
                            let id = r * 8; // lane 0
                            out.push(Port { role: "alu.a", kind: Some(AluOpKind::HornerAcc), op_index: id + 1000 * t, slot: b[0].as_canonical_u64(), mult: signed(b[4]), relation_port: true });
                            out.push(Port { role: "alu.c", kind: Some(AluOpKind::HornerAcc), op_index: id + 1000 * t, slot: b[1].as_canonical_u64(), mult: signed(b[5]), relation_port: true });
                        }
                    }
                }
            }
            CircuitTableAir::Dynamic(_) => return Err("layout: non-primitive table".into()),
        }
    }
    Ok(out)
}

pub fn prepare(circuit: &Circuit<F>) -> Result<Vec<Vec<F>>, String> {
    match quiet_catch(|| {
        get_airs_and_degrees_with_prep::<BabyBearConfig, _, 1>(
            circuit,
            &TablePacking::default(),
            &[],
            &[],
            ConstraintProfile::Standard,
        )
        .map(|(_, prim, _)| prim)
        .map_err(|e| format!("{e:?}"))
    }) {
        Ok(r) => r,
        Err(p) => Err(format!("panic: {p}")),
    }
}

/// Ports of all primitive tables. `Err` = the preprocessed layout is not the one this audit
/// understands (a machinery error for the caller, never a verdict).
pub fn ports(circuit: &Circuit<F>, prim: &[Vec<F>]) -> Result<Vec<Port>, String> {
    let mut out = vec![];
    if prim.len() < 3 {
        return Err(format!("{} primitive tables", prim.len()));
    }
    let (c, p, a) = (&prim[0], &prim[1], &prim[2]);
    if c.len() % 2 != 0 || p.len() % 2 != 0 || a.len() % 13 != 0 {
        return Err(format!("unexpected preprocessed layout {} {} {}", c.len(), p.len(), a.len()));
    }
    for (i, ch) in c.chunks_exact(2).enumerate() {
        out.push(Port { role: "const", kind: None, op_index: i, slot: ch[1].as_canonical_u64(), mult: signed(ch[0]), relation_port: true });
    }
    for (i, ch) in p.chunks_exact(2).enumerate() {
        out.push(Port { role: "public", kind: None, op_index: i, slot: ch[1].as_canonical_u64(), mult: signed(ch[0]), relation_port: true });
    }
    let alu_ops: Vec<AluOpKind> = circuit
        .ops
        .iter()
        .filter_map(|o| if let Op::Alu { kind, .. } = o { Some(*kind) } else { None })
        .collect();
    if alu_ops.is_empty() {
        return Ok(out); // an empty ALU table gets one all-zero dummy entry
    }
    let chunks: Vec<&[F]> = a.chunks_exact(13).collect();
    if chunks.len() != alu_ops.len() {
        return Err(format!("{} ALU ops but {} preprocessed ALU entries", alu_ops.len(), chunks.len()));
    }
    for (i, ch) in chunks.iter().enumerate() {
        let kind = alu_ops[i];
        let mult_a = signed(ch[0]);
        let (a_idx, b_idx, c_idx, out_idx) = (ch[5], ch[6], ch[7], ch[8]);
        let eff_a = mult_a * signed(ch[11]);
        let eff_c = mult_a * signed(ch[12]);
        let uses_c = matches!(kind, AluOpKind::MulAdd | AluOpKind::HornerAcc);
        let is_bool = kind == AluOpKind::BoolCheck;
        out.push(Port { role: "alu.a", kind: Some(kind), op_index: i, slot: a_idx.as_canonical_u64(), mult: eff_a, relation_port: true });
        out.push(Port { role: "alu.b", kind: Some(kind), op_index: i, slot: b_idx.as_canonical_u64(), mult: signed(ch[9]), relation_port: !is_bool });
        out.push(Port { role: "alu.c", kind: Some(kind), op_index: i, slot: c_idx.as_canonical_u64(), mult: eff_c, relation_port: uses_c });
        out.push(Port { role: "alu.out", kind: Some(kind), op_index: i, slot: out_idx.as_canonical_u64(), mult: signed(ch[10]), relation_port: true });
    }
    Ok(out)
}

#[derive(Clone, Debug)]
pub struct BusFinding {
    /// what is wrong, with port roles (no slot numbers)
    pub clause: String,
    /// which special features the neighbourhood of the slot has: P (private input),
    /// H (hint output), A (two source expressions aliased into one slot). Empty = none.
    pub features: String,
    pub detail: String,
    /// true if the finding makes the multiset of an honest execution unbalanced
    pub unbalanced: bool,
}

impl BusFinding {
    /// clause family without port roles: creators=0, creators>1, creator_mult_mismatch,
    /// net_nonzero, multiplicity_below_minus_one, floating
    pub fn family(&self) -> String {
        let head = self.clause.split(':').next().unwrap_or("");
        if head == "creators=0" {
            "creators=0".into()
        } else if head.starts_with("creators=") {
            "creators>1".into()
        } else {
            head.to_string()
        }
    }
    pub fn key(&self) -> String {
        format!("{}|{}", self.family(), self.features)
    }
}

/// slot -> kinds of *source* expressions living in it: 'C' const, 'U' public, 'P' private,
/// 'H' hint / non-primitive output.
pub fn slot_sources(nodes: &[Expr<F>], circuit: &Circuit<F>) -> BTreeMap<u64, Vec<char>> {
    let mut m: BTreeMap<u64, Vec<char>> = BTreeMap::new();
    for (i, n) in nodes.iter().enumerate() {
        let k = match n {
            Expr::Const(_) => 'C',
            Expr::Public(_) => 'U',
            Expr::PrivateInput(_) => 'P',
            Expr::NonPrimitiveOutput { .. } => 'H',
            _ => continue,
        };
        if let Some(w) = circuit.expr_to_widx.get(&ExprId(i as u32)) {
            m.entry(w.0 as u64).or_default().push(k);
        }
    }
    m
}

pub fn audit(ps: &[Port], sources: &BTreeMap<u64, Vec<char>>) -> Vec<BusFinding> {
    let mut by_slot: BTreeMap<u64, Vec<&Port>> = BTreeMap::new();
    for p in ps {
        by_slot.entry(p.slot).or_default().push(p);
    }
    // Program-level features: P some private input, H some hint / non-primitive output,
    // A some slot hosting two source expressions (sources aliased by connect). A finding in a
    // program without any feature can never be attributed to a known design limitation.
    let features = |_slot: u64| -> String {
        let mut f = BTreeSet::new();
        for v in sources.values() {
            if v.contains(&'P') {
                f.insert('P');
            }
            if v.contains(&'H') {
                f.insert('H');
            }
            if v.len() >= 2 {
                f.insert('A');
            }
        }
        f.into_iter().collect()
    };
    let mut out = vec![];
    for (slot, v) in &by_slot {
        let readers: Vec<&&Port> = v.iter().filter(|p| p.mult < 0).collect();
        let n_reads: i64 = readers.iter().map(|p| -p.mult).sum();
        // a port with multiplicity 0 neither reads nor creates
        let creators: Vec<&&Port> = v.iter().filter(|p| p.mult > 0).collect();
        // a packed Horner row reads `b` once per packed step (multiplicity -k): legitimate
        let odd: Vec<&&Port> = v.iter().filter(|p| p.mult < -1 && !(p.role == "alu.b" && p.kind == Some(AluOpKind::HornerAcc))).collect();
        let roles = |xs: &Vec<&&Port>| {
            let mut r: Vec<String> = xs.iter().map(|p| p.role.to_string()).collect();
            r.sort();
            r.join("+")
        };
        let net: i64 = v.iter().map(|p| p.mult).sum();
        let show: Vec<(&str, usize, i64)> = v.iter().map(|p| (p.role, p.op_index, p.mult)).collect();
        if !odd.is_empty() {
            out.push(BusFinding { clause: format!("multiplicity_below_minus_one:{}", roles(&odd)), features: features(*slot), detail: format!("slot {slot}: {show:?}"), unbalanced: net != 0 });
        } else if !readers.is_empty() && creators.len() != 1 {
            out.push(BusFinding {
                clause: format!("creators={}:{}", creators.len(), roles(&creators)),
                features: features(*slot),
                detail: format!("slot {slot}: {} reader port(s), creator ports {:?}; all {show:?}", readers.len(), creators.iter().map(|p| (p.role, p.op_index, p.mult)).collect::<Vec<_>>()),
                unbalanced: net != 0,
            });
        } else if !readers.is_empty() && creators[0].mult != n_reads {
            out.push(BusFinding {
                clause: format!("creator_mult_mismatch:{}", creators[0].role),
                features: features(*slot),
                detail: format!("slot {slot}: creator {} #{} has multiplicity {} but {} read(s); all {show:?}", creators[0].role, creators[0].op_index, creators[0].mult, n_reads),
                unbalanced: net != 0,
            });
        } else if net != 0 {
            out.push(BusFinding { clause: format!("net_nonzero:{}", roles(&creators)), features: features(*slot), detail: format!("slot {slot}: multiplicities sum to {net}: {show:?}"), unbalanced: true });
        }
        // floating operands: a relation port with multiplicity 0 whose slot is mentioned elsewhere
        for p in v.iter().filter(|p| p.relation_port && p.mult == 0 && p.role.starts_with("alu.")) {
            let kind = p.kind.unwrap();
            if kind == AluOpKind::BoolCheck {
                // the AIR ties a == out on BoolCheck rows: the checked value is on the bus
                // as soon as either port takes part
                let partner = if p.role == "alu.a" { "alu.out" } else { "alu.a" };
                let tied = ps.iter().any(|q| q.role == partner && q.op_index == p.op_index && q.mult != 0);
                if tied {
                    continue;
                }
            }
            let others: Vec<(&str, usize, i64)> = v.iter().filter(|q| !std::ptr::eq(**q, *p)).map(|q| (q.role, q.op_index, q.mult)).collect();
            if !others.is_empty() {
                out.push(BusFinding {
                    clause: format!("floating:{}:{:?}", p.role, kind),
                    features: features(*slot),
                    detail: format!("slot {slot}: {} of ALU op #{} ({:?}) has multiplicity 0 but the slot is also mentioned by {:?}", p.role, p.op_index, kind, others),
                    unbalanced: false,
                });
            }
        }
    }
    out
}

/// HornerAcc ops whose accumulator is not what the AIR will use (the previous ALU row's `out`
/// inside a run of consecutive HornerAcc ops, zero at the start of a run).
pub fn horner_not_row_chained(circuit: &Circuit<F>) -> bool {
    let zero_slots: Vec<u32> = circuit
        .ops
        .iter()
        .filter_map(|o| match o {
            Op::Const { out, val } if *val == <F as p3_field::PrimeCharacteristicRing>::ZERO => Some(out.0),
            _ => None,
        })
        .collect();
    let alu: Vec<&Op<F>> = circuit.ops.iter().filter(|o| matches!(o, Op::Alu { .. })).collect();
    for (i, op) in alu.iter().enumerate() {
        if let Op::Alu { kind: AluOpKind::HornerAcc, intermediate_out, .. } = op {
            let acc = intermediate_out.map(|w| w.0);
            let prev_horner_out = if i > 0 {
                if let Op::Alu { kind: AluOpKind::HornerAcc, out, .. } = alu[i - 1] { Some(out.0) } else { None }
            } else {
                None
            };
            let ok = match prev_horner_out {
                Some(po) => acc == Some(po),
                None => acc.is_some_and(|a| zero_slots.contains(&a)),
            };
            if !ok {
                return true;
            }
        }
    }
    false
}
