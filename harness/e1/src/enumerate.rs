//! Exhaustive enumeration of builder programs within a family's bounds.
//!
//! A family fixes the alphabet (call kinds, constants, how many fresh inputs) and the bound
//! (number of value-producing calls, number of assertion calls). Programs are
//! value calls first, then assertion calls in non-decreasing order (connects are
//! order-insensitive in the builder: they stay pending until `build`).

use serde::{Deserialize, Serialize};

use crate::prog::{Call, Opnd, Program};

#[derive(Clone, Copy, Debug, PartialEq, Eq, Hash, Serialize, Deserialize)]
pub enum VK {
    Add,
    Sub,
    Mul,
    Div,
    MulAdd,
    Horner,
    Select,
    Bits(u8),
}

#[derive(Clone, Copy, Debug, PartialEq, Eq, Hash, Serialize, Deserialize)]
pub enum AK {
    Connect,
    AssertZero,
    AssertBool,
}

#[derive(Clone, Debug, Serialize, Deserialize)]
pub struct Family {
    pub name: String,
    pub value_kinds: Vec<VK>,
    pub assert_kinds: Vec<AK>,
    pub max_value_ops: usize,
    pub max_asserts: usize,
    pub max_pub: usize,
    pub max_priv: usize,
    /// indices into the constant alphabet usable as operands
    pub consts: Vec<u8>,
    /// max number of calls with 3 or 4 operands (they dominate the branching)
    pub max_wide: usize,
    /// wide calls take operands from handles and fresh publics only (no constants / privates)
    pub wide_no_atoms: bool,
    /// for commutative calls only enumerate a <= b
    pub sym_reduce: bool,
    /// Optional grammar: value calls are emitted stage by stage (deeper programs in a narrow
    /// shape). When set, `value_kinds` / `max_value_ops` / `max_wide` are ignored for value calls.
    #[serde(default)]
    pub stages: Vec<Stage>,
    /// Optional split bound on assertions: (max connects between two *inputs*, max assertions
    /// involving a computed value). `max_asserts` still bounds the total.
    #[serde(default)]
    pub assert_split: Option<(usize, usize)>,
}

/// One stage of a staged family: exactly up to `count` calls of `kinds`, whose handle operands
/// must have been created in one of `from_stages` (0 = fresh inputs, i = result of stage i).
#[derive(Clone, Debug, Serialize, Deserialize)]
pub struct Stage {
    pub kinds: Vec<VK>,
    pub count: usize,
    pub from_stages: Vec<u8>,
    pub allow_new_pub: bool,
    pub allow_consts: bool,
}

#[derive(Clone, Debug, Default)]
pub struct EnumState {
    pub n_handles: usize,
    pub n_pub: usize,
    pub n_priv: usize,
    pub n_value: usize,
    pub n_assert: usize,
    pub n_wide: usize,
    pub last_assert: Option<Call>,
    /// stage in which each handle was created (0 = input)
    pub handle_stage: Vec<u8>,
    /// current stage (1-based) and calls emitted in it, for staged families
    pub stage: usize,
    pub in_stage: usize,
    /// assertions between two inputs / involving a computed value (for `assert_split`)
    pub n_assert_in: usize,
    pub n_assert_res: usize,
}

impl EnumState {
    pub fn after(&self, c: &Call) -> EnumState {
        let mut s = self.clone();
        for o in c.operands() {
            match o {
                Opnd::NewPub => {
                    s.n_pub += 1;
                    s.n_handles += 1;
                    s.handle_stage.push(0);
                }
                Opnd::NewPriv => {
                    s.n_priv += 1;
                    s.n_handles += 1;
                    s.handle_stage.push(0);
                }
                _ => {}
            }
        }
        if c.is_assert() {
            s.n_assert += 1;
            s.last_assert = Some(c.clone());
            if s.assert_is_input_only(c) {
                s.n_assert_in += 1;
            } else {
                s.n_assert_res += 1;
            }
        } else {
            s.n_value += 1;
            let st = s.stage.max(1) as u8;
            match c {
                Call::Bits(_, n) => {
                    s.n_handles += *n as usize;
                    for _ in 0..*n {
                        s.handle_stage.push(st);
                    }
                }
                _ => {
                    s.n_handles += 1;
                    s.handle_stage.push(st);
                }
            }
            if c.operands().len() >= 3 {
                s.n_wide += 1;
            }
            s.in_stage += 1;
        }
        s
    }
}

fn operand_tuples(
    fam: &Family,
    st: &EnumState,
    arity: usize,
    allow_priv: bool,
    allow_const: bool,
    allow_pub: bool,
) -> Vec<Vec<Opnd>> {
    // sequential choice: later positions may refer to inputs allocated by earlier ones
    fn rec(
        fam: &Family,
        pos: usize,
        arity: usize,
        nh: usize,
        np: usize,
        nv: usize,
        allow_priv: bool,
        allow_const: bool,
        allow_pub: bool,
        cur: &mut Vec<Opnd>,
        out: &mut Vec<Vec<Opnd>>,
    ) {
        if pos == arity {
            out.push(cur.clone());
            return;
        }
        for i in 0..nh {
            cur.push(Opnd::H(i as u8));
            rec(fam, pos + 1, arity, nh, np, nv, allow_priv, allow_const, allow_pub, cur, out);
            cur.pop();
        }
        if allow_pub && np < fam.max_pub {
            cur.push(Opnd::NewPub);
            rec(fam, pos + 1, arity, nh + 1, np + 1, nv, allow_priv, allow_const, allow_pub, cur, out);
            cur.pop();
        }
        if allow_priv && nv < fam.max_priv {
            cur.push(Opnd::NewPriv);
            rec(fam, pos + 1, arity, nh + 1, np, nv + 1, allow_priv, allow_const, allow_pub, cur, out);
            cur.pop();
        }
        if allow_const {
            for &c in &fam.consts {
                cur.push(Opnd::C(c));
                rec(fam, pos + 1, arity, nh, np, nv, allow_priv, allow_const, allow_pub, cur, out);
                cur.pop();
            }
        }
    }
    let mut out = vec![];
    rec(
        fam,
        0,
        arity,
        st.n_handles,
        st.n_pub,
        st.n_priv,
        allow_priv,
        allow_const,
        allow_pub,
        &mut vec![],
        &mut out,
    );
    out
}

/// All calls that may extend a program in state `st`.
impl EnumState {
    /// an assertion whose operands are all inputs (fresh or existing stage-0 handles)
    pub fn assert_is_input_only(&self, c: &Call) -> bool {
        matches!(c, Call::Connect(..))
            && c.operands().iter().all(|o| match o {
                Opnd::H(i) => self.handle_stage.get(*i as usize).copied() == Some(0),
                Opnd::NewPub | Opnd::NewPriv => true,
                Opnd::C(_) => false,
            })
    }

    /// `after` for a call tagged with its stage (0 = unstaged family or assertion call).
    pub fn after_staged(&self, c: &Call, stage_of_call: usize) -> EnumState {
        let mut base = self.clone();
        if stage_of_call != 0 && stage_of_call != base.stage {
            base.stage = stage_of_call;
            base.in_stage = 0;
        }
        base.after(c)
    }
}

pub fn next_calls(fam: &Family, st: &EnumState) -> Vec<Call> {
    next_calls_staged(fam, st).into_iter().map(|(c, _)| c).collect()
}

/// All calls that may extend a program in state `st`, each with the stage it belongs to
/// (0 for unstaged families and for assertion calls).
pub fn next_calls_staged(fam: &Family, st: &EnumState) -> Vec<(Call, usize)> {
    let mut out: Vec<(Call, usize)> = vec![];
    if fam.stages.is_empty() {
        out.extend(unstaged_value_calls(fam, st).into_iter().map(|c| (c, 0)));
    } else if st.n_assert == 0 {
        // stages run in order; the next stage may start once the current one has a call
        let cur = st.stage;
        let mut allowed = vec![];
        if cur == 0 {
            allowed.push(1);
        } else {
            if st.in_stage < fam.stages[cur - 1].count {
                allowed.push(cur);
            }
            if st.in_stage >= 1 && cur < fam.stages.len() {
                allowed.push(cur + 1);
            }
        }
        for si in allowed {
            out.extend(stage_calls(fam, st, si).into_iter().map(|c| (c, si)));
        }
    }
    out.extend(assert_calls(fam, st).into_iter().map(|c| (c, 0)));
    out
}

fn stage_calls(fam: &Family, st: &EnumState, si: usize) -> Vec<Call> {
    let stage = &fam.stages[si - 1];
    let mut out = vec![];
    let allowed = |h: usize| stage.from_stages.contains(&st.handle_stage[h]);
    for vk in &stage.kinds {
        let ar = match vk {
            VK::Add | VK::Sub | VK::Mul | VK::Div => 2,
            VK::MulAdd | VK::Select => 3,
            VK::Horner => 4,
            VK::Bits(_) => 1,
        };
        for t in operand_tuples(fam, st, ar, false, stage.allow_consts, stage.allow_new_pub) {
            // handles created earlier must come from an allowed stage (handles allocated by
            // this very call are fresh inputs: stage 0)
            if t.iter().any(|o| matches!(o, Opnd::H(i) if (*i as usize) < st.n_handles && !allowed(*i as usize))) {
                continue;
            }
            if t.iter().any(|o| matches!(o, Opnd::H(i) if (*i as usize) >= st.n_handles) ) && !stage.from_stages.contains(&0) {
                continue;
            }
            let comm = matches!(vk, VK::Add | VK::Mul);
            if fam.sym_reduce && comm && t[0] > t[1] {
                continue;
            }
            out.push(match vk {
                VK::Add => Call::Add(t[0], t[1]),
                VK::Sub => Call::Sub(t[0], t[1]),
                VK::Mul => Call::Mul(t[0], t[1]),
                VK::Div => Call::Div(t[0], t[1]),
                VK::MulAdd => Call::MulAdd(t[0], t[1], t[2]),
                VK::Select => Call::Select(t[0], t[1], t[2]),
                VK::Horner => Call::Horner(t[0], t[1], t[2], t[3]),
                VK::Bits(n) => Call::Bits(t[0], *n),
            });
        }
    }
    out
}

fn unstaged_value_calls(fam: &Family, st: &EnumState) -> Vec<Call> {
    let mut out = vec![];
    // value calls only while no assertion has been placed
    if st.n_assert == 0 && st.n_value < fam.max_value_ops {
        for vk in &fam.value_kinds {
            match vk {
                VK::Add | VK::Sub | VK::Mul | VK::Div => {
                    for t in operand_tuples(fam, st, 2, true, true, true) {
                        let comm = matches!(vk, VK::Add | VK::Mul);
                        if fam.sym_reduce && comm && t[0] > t[1] {
                            continue;
                        }
                        out.push(match vk {
                            VK::Add => Call::Add(t[0], t[1]),
                            VK::Sub => Call::Sub(t[0], t[1]),
                            VK::Mul => Call::Mul(t[0], t[1]),
                            _ => Call::Div(t[0], t[1]),
                        });
                    }
                }
                VK::MulAdd | VK::Select | VK::Horner => {
                    if st.n_wide >= fam.max_wide {
                        continue;
                    }
                    let ar = if matches!(vk, VK::Horner) { 4 } else { 3 };
                    let atoms = !fam.wide_no_atoms;
                    for t in operand_tuples(fam, st, ar, atoms, atoms, true) {
                        out.push(match vk {
                            VK::MulAdd => Call::MulAdd(t[0], t[1], t[2]),
                            VK::Select => Call::Select(t[0], t[1], t[2]),
                            _ => Call::Horner(t[0], t[1], t[2], t[3]),
                        });
                    }
                    // a Horner chain starts from the constant zero accumulator (the only
                    // start the ALU table supports): always offered, even without atoms
                    if matches!(vk, VK::Horner) && fam.wide_no_atoms {
                        for t in operand_tuples(fam, st, 3, false, false, true) {
                            out.push(Call::Horner(Opnd::C(0), t[0], t[1], t[2]));
                        }
                    }
                }
                VK::Bits(n) => {
                    // decompose a handle or a fresh public
                    for t in operand_tuples(fam, st, 1, false, false, true) {
                        out.push(Call::Bits(t[0], *n));
                    }
                }
            }
        }
    }
    out
}

fn assert_calls(fam: &Family, st: &EnumState) -> Vec<Call> {
    let mut out = vec![];
    if st.n_assert < fam.max_asserts && st.n_value > 0 {
        let mut asserts = vec![];
        for ak in &fam.assert_kinds {
            match ak {
                AK::Connect => {
                    // staged families with private inputs may introduce one in a connect
                    // (a private value pinned to a computed one)
                    let new_priv = fam.max_priv > 0 && !fam.stages.is_empty();
                    for t in operand_tuples(fam, st, 2, new_priv, true, true) {
                        if t[0] > t[1] || t[0] == t[1] && !matches!(t[0], Opnd::NewPub | Opnd::NewPriv) {
                            continue; // unordered pair, no self-connect
                        }
                        if matches!(t[0], Opnd::C(_)) && matches!(t[1], Opnd::C(_)) {
                            continue; // const~const: a statement about constants only
                        }
                        asserts.push(Call::Connect(t[0], t[1]));
                    }
                }
                AK::AssertZero => {
                    for t in operand_tuples(fam, st, 1, false, false, false) {
                        asserts.push(Call::AssertZero(t[0]));
                    }
                }
                AK::AssertBool => {
                    for t in operand_tuples(fam, st, 1, false, false, false) {
                        asserts.push(Call::AssertBool(t[0]));
                    }
                }
            }
        }
        for a in asserts {
            if let Some((m_in, m_res)) = fam.assert_split {
                let input_only = st.assert_is_input_only(&a);
                if input_only && st.n_assert_in >= m_in {
                    continue;
                }
                if !input_only && st.n_assert_res >= m_res {
                    continue;
                }
            }
            // assertions form a set: enumerate in strictly increasing order
            if let Some(l) = &st.last_assert
                && a <= *l
            {
                continue;
            }
            out.push(a);
        }
    }
    out
}

/// Depth-first walk over every program of the family below `prefix`.
/// `visit(program, state)` returns false to prune the subtree.
pub fn walk(
    fam: &Family,
    prefix: &Program,
    st: &EnumState,
    visit: &mut dyn FnMut(&Program, &EnumState) -> bool,
) {
    for (c, si) in next_calls_staged(fam, st) {
        let mut p = prefix.clone();
        p.calls.push(c.clone());
        let ns = st.after_staged(&c, si);
        if visit(&p, &ns) {
            walk(fam, &p, &ns, visit);
        }
    }
}

/// All programs of exactly `depth` calls (work units for the parallel walk), with states.
pub fn prefixes(fam: &Family, depth: usize) -> Vec<(Program, EnumState)> {
    let mut cur = vec![(Program::default(), EnumState::default())];
    for _ in 0..depth {
        let mut nxt = vec![];
        for (p, st) in &cur {
            for (c, si) in next_calls_staged(fam, st) {
                let mut q = p.clone();
                q.calls.push(c.clone());
                nxt.push((q, st.after_staged(&c, si)));
            }
        }
        cur = nxt;
    }
    cur
}
