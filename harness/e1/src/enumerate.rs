//! Exhaustive enumeration of builder programs within a family's bounds.
//!
//! A family fixes the alphabet (call kinds, constants, how many fresh inputs) and the bound
//! (number of value-producing calls, number of assertion calls). Programs are
//! value calls first, then assertion calls in non-decreasing order (connects are
//! order-insensitive in the builder: they stay pending until `build`).

use serde::{Deserialize, Serialize};

use crate::prog::{Call, Opnd, Program};

#[derive(Clone, Copy, Debug, PartialEq, Eq, Hash, Serialize, Deserialize)]
pub enum VK {
    Add,
    Sub,
    Mul,
    Div,
    MulAdd,
    Horner,
    Select,
    Bits(u8),
}

#[derive(Clone, Copy, Debug, PartialEq, Eq, Hash, Serialize, Deserialize)]
pub enum AK {
    Connect,
    AssertZero,
    AssertBool,
}

#[derive(Clone, Debug, Serialize, Deserialize)]
pub struct Family {
    pub name: String,
    pub value_kinds: Vec<VK>,
    pub assert_kinds: Vec<AK>,
    pub max_value_ops: usize,
    pub max_asserts: usize,
    pub max_pub: usize,
    pub max_priv: usize,
    /// indices into the constant alphabet usable as operands
    pub consts: Vec<u8>,
    /// max number of calls with 3 or 4 operands (they dominate the branching)
    pub max_wide: usize,
    /// wide calls take operands from handles and fresh publics only (no constants / privates)
    pub wide_no_atoms: bool,
    /// for commutative calls only enumerate a <= b
    pub sym_reduce: bool,
}

#[derive(Clone, Debug, Default)]
pub struct EnumState {
    pub n_handles: usize,
    pub n_pub: usize,
    pub n_priv: usize,
    pub n_value: usize,
    pub n_assert: usize,
    pub n_wide: usize,
    pub last_assert: Option<Call>,
}

impl EnumState {
    pub fn after(&self, c: &Call) -> EnumState {
        let mut s = self.clone();
        for o in c.operands() {
            match o {
                Opnd::NewPub => {
                    s.n_pub += 1;
                    s.n_handles += 1;
                }
                Opnd::NewPriv => {
                    s.n_priv += 1;
                    s.n_handles += 1;
                }
                _ => {}
            }
        }
        if c.is_assert() {
            s.n_assert += 1;
            s.last_assert = Some(c.clone());
        } else {
            s.n_value += 1;
            match c {
                Call::Bits(_, n) => s.n_handles += *n as usize,
                _ => s.n_handles += 1,
            }
            if c.operands().len() >= 3 {
                s.n_wide += 1;
            }
        }
        s
    }
}

fn operand_tuples(
    fam: &Family,
    st: &EnumState,
    arity: usize,
    allow_priv: bool,
    allow_const: bool,
    allow_pub: bool,
) -> Vec<Vec<Opnd>> {
    // sequential choice: later positions may refer to inputs allocated by earlier ones
    fn rec(
        fam: &Family,
        pos: usize,
        arity: usize,
        nh: usize,
        np: usize,
        nv: usize,
        allow_priv: bool,
        allow_const: bool,
        allow_pub: bool,
        cur: &mut Vec<Opnd>,
        out: &mut Vec<Vec<Opnd>>,
    ) {
        if pos == arity {
            out.push(cur.clone());
            return;
        }
        for i in 0..nh {
            cur.push(Opnd::H(i as u8));
            rec(fam, pos + 1, arity, nh, np, nv, allow_priv, allow_const, allow_pub, cur, out);
            cur.pop();
        }
        if allow_pub && np < fam.max_pub {
            cur.push(Opnd::NewPub);
            rec(fam, pos + 1, arity, nh + 1, np + 1, nv, allow_priv, allow_const, allow_pub, cur, out);
            cur.pop();
        }
        if allow_priv && nv < fam.max_priv {
            cur.push(Opnd::NewPriv);
            rec(fam, pos + 1, arity, nh + 1, np, nv + 1, allow_priv, allow_const, allow_pub, cur, out);
            cur.pop();
        }
        if allow_const {
            for &c in &fam.consts {
                cur.push(Opnd::C(c));
                rec(fam, pos + 1, arity, nh, np, nv, allow_priv, allow_const, allow_pub, cur, out);
                cur.pop();
            }
        }
    }
    let mut out = vec![];
    rec(
        fam,
        0,
        arity,
        st.n_handles,
        st.n_pub,
        st.n_priv,
        allow_priv,
        allow_const,
        allow_pub,
        &mut vec![],
        &mut out,
    );
    out
}

/// All calls that may extend a program in state `st`.
pub fn next_calls(fam: &Family, st: &EnumState) -> Vec<Call> {
    let mut out = vec![];
    // value calls only while no assertion has been placed
    if st.n_assert == 0 && st.n_value < fam.max_value_ops {
        for vk in &fam.value_kinds {
            match vk {
                VK::Add | VK::Sub | VK::Mul | VK::Div => {
                    for t in operand_tuples(fam, st, 2, true, true, true) {
                        let comm = matches!(vk, VK::Add | VK::Mul);
                        if fam.sym_reduce && comm && t[0] > t[1] {
                            continue;
                        }
                        out.push(match vk {
                            VK::Add => Call::Add(t[0], t[1]),
                            VK::Sub => Call::Sub(t[0], t[1]),
                            VK::Mul => Call::Mul(t[0], t[1]),
                            _ => Call::Div(t[0], t[1]),
                        });
                    }
                }
                VK::MulAdd | VK::Select | VK::Horner => {
                    if st.n_wide >= fam.max_wide {
                        continue;
                    }
                    let ar = if matches!(vk, VK::Horner) { 4 } else { 3 };
                    let atoms = !fam.wide_no_atoms;
                    for t in operand_tuples(fam, st, ar, atoms, atoms, true) {
                        out.push(match vk {
                            VK::MulAdd => Call::MulAdd(t[0], t[1], t[2]),
                            VK::Select => Call::Select(t[0], t[1], t[2]),
                            _ => Call::Horner(t[0], t[1], t[2], t[3]),
                        });
                    }
                    // a Horner chain starts from the constant zero accumulator (the only
                    // start the ALU table supports): always offered, even without atoms
                    if matches!(vk, VK::Horner) && fam.wide_no_atoms {
                        for t in operand_tuples(fam, st, 3, false, false, true) {
                            out.push(Call::Horner(Opnd::C(0), t[0], t[1], t[2]));
                        }
                    }
                }
                VK::Bits(n) => {
                    // decompose a handle or a fresh public
                    for t in operand_tuples(fam, st, 1, false, false, true) {
                        out.push(Call::Bits(t[0], *n));
                    }
                }
            }
        }
    }
    if st.n_assert < fam.max_asserts && st.n_value > 0 {
        let mut asserts = vec![];
        for ak in &fam.assert_kinds {
            match ak {
                AK::Connect => {
                    for t in operand_tuples(fam, st, 2, false, true, true) {
                        if t[0] > t[1] || t[0] == t[1] && !matches!(t[0], Opnd::NewPub) {
                            continue; // unordered pair, no self-connect
                        }
                        if matches!(t[0], Opnd::C(_)) && matches!(t[1], Opnd::C(_)) {
                            continue; // const~const: a statement about constants only
                        }
                        asserts.push(Call::Connect(t[0], t[1]));
                    }
                }
                AK::AssertZero => {
                    for t in operand_tuples(fam, st, 1, false, false, false) {
                        asserts.push(Call::AssertZero(t[0]));
                    }
                }
                AK::AssertBool => {
                    for t in operand_tuples(fam, st, 1, false, false, false) {
                        asserts.push(Call::AssertBool(t[0]));
                    }
                }
            }
        }
        for a in asserts {
            // assertions form a set: enumerate in strictly increasing order
            if let Some(l) = &st.last_assert
                && a <= *l
            {
                continue;
            }
            out.push(a);
        }
    }
    out
}

/// Depth-first walk over every program of the family below `prefix`.
/// `visit(program, state)` returns false to prune the subtree.
pub fn walk(
    fam: &Family,
    prefix: &Program,
    st: &EnumState,
    visit: &mut dyn FnMut(&Program, &EnumState) -> bool,
) {
    for c in next_calls(fam, st) {
        let mut p = prefix.clone();
        p.calls.push(c.clone());
        let ns = st.after(&c);
        if visit(&p, &ns) {
            walk(fam, &p, &ns, visit);
        }
    }
}

/// All programs of exactly `depth` calls (work units for the parallel walk), with states.
pub fn prefixes(fam: &Family, depth: usize) -> Vec<(Program, EnumState)> {
    let mut cur = vec![(Program::default(), EnumState::default())];
    for _ in 0..depth {
        let mut nxt = vec![];
        for (p, st) in &cur {
            for c in next_calls(fam, st) {
                let mut q = p.clone();
                q.calls.push(c.clone());
                nxt.push((q, st.after(&c)));
            }
        }
        cur = nxt;
    }
    cur
}
