//! Parallel exhaustive walk over a family with exact de-duplication on the compiler input.

use std::collections::HashSet;
use std::sync::Mutex;
use std::sync::atomic::{AtomicBool, AtomicU64, Ordering};

use p3_field::{ExtensionField, PrimeField64};
use vpcore::rayon::prelude::*;
use vpcore::Ctx;

use crate::enumerate::{EnumState, Family, prefixes, walk};
use crate::prog::{Materialized, Program, materialize};

pub fn h128(s: &str) -> u128 {
    let mut a: u64 = 0xcbf29ce484222325;
    let mut b: u64 = 0x9e3779b97f4a7c15;
    for &c in s.as_bytes() {
        a ^= c as u64;
        a = a.wrapping_mul(0x100000001b3);
        b = (b ^ (c as u64).wrapping_mul(0xff51afd7ed558ccd)).rotate_left(23).wrapping_mul(0xc4ceb9fe1a85ec53);
    }
    ((a as u128) << 64) | b as u128
}

const SHARDS: usize = 64;

pub struct SeenSet {
    shards: Vec<Mutex<HashSet<u128>>>,
}

impl Default for SeenSet {
    fn default() -> Self {
        Self {
            shards: (0..SHARDS).map(|_| Mutex::new(HashSet::new())).collect(),
        }
    }
}

impl SeenSet {
    /// true if newly inserted
    pub fn insert(&self, h: u128) -> bool {
        self.shards[(h as usize) % SHARDS].lock().unwrap().insert(h)
    }
    pub fn len(&self) -> usize {
        self.shards.iter().map(|s| s.lock().unwrap().len()).sum()
    }
}

#[derive(Default)]
pub struct Stats {
    pub histories: AtomicU64,
    pub canonical: AtomicU64,
    pub pruned_subtrees: AtomicU64,
    pub build_errors: AtomicU64,
    pub timed_out: AtomicBool,
}

/// Walks every program of `fam`. For every history `on_history` is called (cheap checks
/// of the builder API); for every *new* compiler input `on_canonical` is called with the
/// materialised builder (to be compiled and run). `seen_keys` / `seen_prune` may be shared
/// between nested families so that work is not repeated.
pub fn explore<BF, F>(
    fam: &Family,
    consts: &[F],
    ctx: &Ctx,
    stop_at: f64,
    seen_keys: &SeenSet,
    seen_prune: &SeenSet,
    stats: &Stats,
    on_history: &(dyn Fn(&Program, &Materialized<F>) + Sync),
    on_canonical: &(dyn Fn(&Program, Materialized<F>) + Sync),
) where
    BF: PrimeField64,
    F: ExtensionField<BF> + core::hash::Hash + Send + Sync,
{
    let units: Vec<(Program, EnumState)> = prefixes(fam, 1);
    // second level units for better load balance
    let mut units2: Vec<(Program, EnumState)> = vec![];
    let mut visit = |p: &Program, _st: &EnumState| -> bool {
        if ctx.used() >= stop_at {
            stats.timed_out.store(true, Ordering::Relaxed);
            return false;
        }
        stats.histories.fetch_add(1, Ordering::Relaxed);
        let m = match materialize::<BF, F>(p, consts) {
            Ok(m) => m,
            Err(_) => {
                stats.build_errors.fetch_add(1, Ordering::Relaxed);
                return false;
            }
        };
        on_history(p, &m);
        let key = m.key();
        let mut hs: Vec<u32> = m.handles.iter().map(|e| e.0).collect();
        hs.sort();
        hs.dedup();
        // the subtree below a state depends on the compiler input, the reachable handles AND
        // the family budget left (folding lets a longer history reach the same DAG)
        let prune_key = h128(&format!(
            "{key}#{hs:?}#{}/{}/{}/{:?}/{}/{:?}",
            _st.n_value, _st.n_assert, _st.n_wide, (_st.n_pub, _st.stage, _st.in_stage, &_st.handle_stage), _st.n_priv, _st.last_assert
        ));
        let newkey = seen_keys.insert(h128(&key));
        if newkey {
            stats.canonical.fetch_add(1, Ordering::Relaxed);
            on_canonical(p, m);
        }
        if !seen_prune.insert(prune_key) {
            stats.pruned_subtrees.fetch_add(1, Ordering::Relaxed);
            return false;
        }
        true
    };
    // level 1 sequentially (few), collect level-2 units
    for (p, st) in &units {
        if visit(p, st) {
            for (c, si) in crate::enumerate::next_calls_staged(fam, st) {
                let mut q = p.clone();
                q.calls.push(c.clone());
                units2.push((q, st.after_staged(&c, si)));
            }
        }
    }
    let visit_sync = |p: &Program, st: &EnumState| -> bool {
        // same as `visit` but callable from many threads
        if ctx.used() >= stop_at {
            stats.timed_out.store(true, Ordering::Relaxed);
            return false;
        }
        stats.histories.fetch_add(1, Ordering::Relaxed);
        let m = match materialize::<BF, F>(p, consts) {
            Ok(m) => m,
            Err(_) => {
                stats.build_errors.fetch_add(1, Ordering::Relaxed);
                return false;
            }
        };
        on_history(p, &m);
        let key = m.key();
        let mut hs: Vec<u32> = m.handles.iter().map(|e| e.0).collect();
        hs.sort();
        hs.dedup();
        let prune_key = h128(&format!(
            "{key}#{hs:?}#{}/{}/{}/{:?}/{}/{:?}",
            st.n_value, st.n_assert, st.n_wide, (st.n_pub, st.stage, st.in_stage, &st.handle_stage), st.n_priv, st.last_assert
        ));
        if seen_keys.insert(h128(&key)) {
            stats.canonical.fetch_add(1, Ordering::Relaxed);
            on_canonical(p, m);
        }
        if !seen_prune.insert(prune_key) {
            stats.pruned_subtrees.fetch_add(1, Ordering::Relaxed);
            return false;
        }
        true
    };
    units2.par_iter().for_each(|(p, st)| {
        if visit_sync(p, st) {
            let mut v = |p: &Program, st: &EnumState| visit_sync(p, st);
            walk(fam, p, st, &mut v);
        }
    });
}

/// All input vectors over `vals` of length n (n small).
pub fn input_vectors<F: Copy>(vals: &[F], n: usize) -> Vec<Vec<F>> {
    let mut out = vec![vec![]];
    for _ in 0..n {
        let mut nxt = Vec::with_capacity(out.len() * vals.len());
        for v in &out {
            for x in vals {
                let mut w = v.clone();
                w.push(*x);
                nxt.push(w);
            }
        }
        out = nxt;
    }
    out
}
