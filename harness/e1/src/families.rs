//! The families of programs each tier enumerates (simplest first).

use crate::enumerate::{AK, Family, VK};

fn fam(
    name: &str,
    value_kinds: &[VK],
    assert_kinds: &[AK],
    k: usize,
    c: usize,
    max_pub: usize,
    max_priv: usize,
    consts: &[u8],
    max_wide: usize,
    wide_no_atoms: bool,
    sym_reduce: bool,
) -> Family {
    Family {
        name: name.into(),
        value_kinds: value_kinds.to_vec(),
        assert_kinds: assert_kinds.to_vec(),
        max_value_ops: k,
        max_asserts: c,
        max_pub,
        max_priv,
        consts: consts.to_vec(),
        max_wide,
        wide_no_atoms,
        sym_reduce,
    }
}

pub const BIN: [VK; 4] = [VK::Add, VK::Sub, VK::Mul, VK::Div];
pub const ASSERTS: [AK; 3] = [AK::Connect, AK::AssertZero, AK::AssertBool];

/// Constant alphabet indices: 0 -> 0, 1 -> 1, 2 -> t1 (generic), 3 -> t2 (generic)
pub fn families(thorough: bool) -> Vec<Family> {
    families_scaled(if thorough { 2 } else { 0 })
}

/// scale 0: quick tier of run-based checks (C02, C10); 1: quick tier of compile-only checks
/// (C03, C09, C18); 2: thorough tier.
pub fn families_scaled(scale: u8) -> Vec<Family> {
    const CONN: [AK; 2] = [AK::Connect, AK::AssertZero];
    let wide = [VK::Add, VK::Mul, VK::Sub, VK::MulAdd, VK::Select, VK::Horner];
    let mut v = vec![];
    if scale == 0 {
        // binary arithmetic, two value calls, one assertion of any kind
        v.push(fam("bin-k2-c1", &BIN, &ASSERTS, 2, 1, 3, 1, &[0, 1, 2], 0, true, true));
        // two connects (aliasing chains through connect): publics and one generic constant
        v.push(fam("bin-k2-conn2", &BIN, &CONN, 2, 2, 3, 0, &[2], 0, true, true));
        // one wide call (mul_add / select / horner) plus one binary call, one assertion
        v.push(fam("wide1-k2-c1", &wide, &ASSERTS, 2, 1, 3, 1, &[0, 1, 2], 1, true, true));
        // two Horner steps (chains, shared operands, arbitrary accumulators)
        v.push(fam("horner-k2-c0", &[VK::Horner], &CONN, 2, 0, 5, 0, &[2], 2, true, true));
        // bit decomposition of a public or a computed value
        v.push(fam("bits-k2-c1", &[VK::Add, VK::Mul, VK::Bits(2), VK::Bits(3)], &CONN, 2, 1, 2, 0, &[1, 2], 0, true, true));
        return v;
    }
    if scale == 1 {
        v.push(fam("bin-k2-c2", &BIN, &ASSERTS, 2, 2, 3, 1, &[0, 1, 2], 0, true, true));
        v.push(fam("wide1-k2-c1", &wide, &ASSERTS, 2, 1, 4, 1, &[0, 1, 2], 1, true, true));
        v.push(fam("horner-k2-c1", &[VK::Horner], &CONN, 2, 1, 5, 0, &[2], 2, true, true));
        v.push(fam("bits-k2-c2", &[VK::Add, VK::Mul, VK::Sub, VK::Bits(2), VK::Bits(3)], &ASSERTS, 2, 2, 2, 1, &[1, 2], 0, true, true));
        return v;
    }
    v.push(fam("bin-k2-c2", &BIN, &ASSERTS, 2, 2, 3, 1, &[0, 1, 2], 0, true, false));
    v.push(fam("wide1-k2-c1", &wide, &ASSERTS, 2, 1, 4, 1, &[0, 1, 2], 1, true, true));
    v.push(fam("horner-k2-c1", &[VK::Horner], &CONN, 2, 1, 5, 0, &[2], 2, true, true));
    v.push(fam("bits-k2-c2", &[VK::Add, VK::Mul, VK::Sub, VK::Bits(2), VK::Bits(3)], &ASSERTS, 2, 2, 2, 1, &[1, 2], 0, true, true));
    v.push(fam("bin-k3-c1", &BIN, &ASSERTS, 3, 1, 3, 1, &[0, 1, 2], 0, true, true));
    v.push(fam("bin-k3-conn2", &BIN, &CONN, 3, 2, 3, 0, &[2], 0, true, true));
    v.push(fam("wide2-k3-c1", &[VK::Add, VK::Mul, VK::Sub, VK::Div, VK::MulAdd, VK::Select], &ASSERTS, 3, 1, 3, 1, &[1, 2], 2, true, true));
    v.push(fam("horner-k3-c1", &[VK::Horner, VK::Add, VK::Mul], &CONN, 3, 1, 5, 0, &[2], 3, true, true));
    v
}
