//! The families of programs each tier enumerates (simplest first).

use crate::enumerate::{AK, Family, Stage, VK};

fn fam(
    name: &str,
    value_kinds: &[VK],
    assert_kinds: &[AK],
    k: usize,
    c: usize,
    max_pub: usize,
    max_priv: usize,
    consts: &[u8],
    max_wide: usize,
    wide_no_atoms: bool,
    sym_reduce: bool,
) -> Family {
    Family {
        name: name.into(),
        value_kinds: value_kinds.to_vec(),
        assert_kinds: assert_kinds.to_vec(),
        max_value_ops: k,
        max_asserts: c,
        max_pub,
        max_priv,
        consts: consts.to_vec(),
        max_wide,
        wide_no_atoms,
        sym_reduce,
        stages: vec![],
        assert_split: None,
    }
}

/// Staged (grammar-restricted, deeper) family.
pub fn staged(name: &str, stages: Vec<Stage>, assert_kinds: &[AK], c: usize, max_pub: usize, consts: &[u8]) -> Family {
    Family {
        name: name.into(),
        value_kinds: vec![],
        assert_kinds: assert_kinds.to_vec(),
        max_value_ops: 0,
        max_asserts: c,
        max_pub,
        max_priv: 0,
        consts: consts.to_vec(),
        max_wide: 0,
        wide_no_atoms: true,
        sym_reduce: true,
        stages,
        assert_split: None,
    }
}

pub fn stage(kinds: &[VK], count: usize, from: &[u8], new_pub: bool, consts: bool) -> Stage {
    Stage { kinds: kinds.to_vec(), count, from_stages: from.to_vec(), allow_new_pub: new_pub, allow_consts: consts }
}

/// Deeper programs in narrow grammars (5–6 value calls): sums of products (mul+add fusion
/// chains), aliased duplicate operations (de-duplication), product/difference chains.
pub fn staged_families(thorough: bool) -> Vec<Family> {
    let conn = [AK::Connect, AK::AssertZero];
    let mut v = vec![
        // p_i = x*y over 3 inputs; then up to 2 sums over products and sums
        staged("sum-of-products-3+2", vec![stage(&[VK::Mul], 3, &[0], true, false), stage(&[VK::Add], 2, &[1, 2], false, false)], &conn, 0, 3, &[]),
        // two products, then three adds/subs over everything (fusion with addends from anywhere)
        staged("products-2-then-addsub-3", vec![stage(&[VK::Mul], 2, &[0], true, true), stage(&[VK::Add, VK::Sub], 3, &[0, 1, 2], false, false)], &conn, 0, 2, &[2]),
        // duplicate operations over aliased inputs: 3 ops from inputs, 2 connects
        staged("dup-ops-3-conn2", vec![stage(&[VK::Add, VK::Mul], 3, &[0], true, true)], &conn, 2, 3, &[2]),
    ];
    {
        // two wide calls (mul_add / select / horner) over handles: CSE keys of the wide pools
        let mut w = fam("wide2-k2-c0", &[VK::MulAdd, VK::Select, VK::Horner], &[AK::Connect], 2, 0, 3, 0, &[], 2, true, true);
        w.wide_no_atoms = true;
        v.push(w);
        // connect chains: one or two ops, up to three connects among four publics (DSU paths)
        let mut c3 = fam("conn3-k2", &[VK::Add, VK::Mul], &[AK::Connect], 2, 3, 4, 0, &[2], 0, true, true);
        c3.assert_split = Some((3, 1));
        v.push(c3);
    }
    {
        // de-duplication chains (small): four ops over two inputs, inputs may be aliased, one
        // more connect involving a computed value
        let mut dd = staged("dedup-chain-4ops-2in", vec![stage(&[VK::Add, VK::Mul], 4, &[0], true, false)], &[AK::Connect], 2, 2, &[]);
        dd.assert_split = Some((1, 1));
        v.push(dd);
    }
    // a product with one fusable sum and one more reader that is a wide op (HornerAcc, MulAdd,
    // Select operand): the fusion's use counts must see every operand position of every op kind
    v.push(staged(
        "product-sum-then-wide",
        vec![stage(&[VK::Mul], 1, &[0], true, false), stage(&[VK::Add, VK::Sub], 1, &[0, 1], false, false), stage(&[VK::Horner, VK::MulAdd, VK::Select], 1, &[0, 1, 2], false, false)],
        &conn,
        0,
        3,
        &[],
    ));
    {
        // de-duplication meets fusion meets private inputs: two products over (aliasable) inputs,
        // one sum, one connect between inputs and one connect that may pin a private input to a
        // computed value
        let mut f = staged(
            "products-2-sum-priv-conn2",
            vec![stage(&[VK::Mul], 2, &[0], true, false), stage(&[VK::Add], 1, &[0, 1], false, true)],
            &[AK::Connect],
            2,
            3,
            &[2],
        );
        f.max_priv = 1;
        f.assert_split = Some((1, 1));
        v.push(f);
    }
    if thorough {
        v.push(staged(
            "products-2-sum-then-wide-2",
            vec![stage(&[VK::Mul], 2, &[0], true, false), stage(&[VK::Add, VK::Sub], 1, &[0, 1], false, false), stage(&[VK::Horner, VK::MulAdd, VK::Select], 2, &[0, 1, 2], false, false)],
            &conn,
            0,
            2,
            &[],
        ));
        v.push(staged("sum-of-products-3+3", vec![stage(&[VK::Mul], 3, &[0], true, true), stage(&[VK::Add, VK::Sub], 3, &[0, 1, 2], false, false)], &conn, 1, 3, &[2]));
        v.push(staged("sum-of-products-4+3", vec![stage(&[VK::Mul], 4, &[0], true, false), stage(&[VK::Add], 3, &[1, 2], false, false)], &conn, 0, 2, &[]));
        // de-duplication chains: five ops over three inputs, any aliasing of the inputs, one
        // more connect involving a computed value
        let mut dd = staged("dedup-chain-5ops-3in", vec![stage(&[VK::Add, VK::Mul], 5, &[0], true, false)], &[AK::Connect], 4, 3, &[]);
        dd.assert_split = Some((3, 1));
        v.push(dd);
        v.push(staged("muladd-horner-chain", vec![stage(&[VK::Mul, VK::MulAdd], 2, &[0], true, false), stage(&[VK::Add, VK::MulAdd], 2, &[0, 1, 2], false, false), stage(&[VK::Sub, VK::Mul], 1, &[1, 2, 3], false, false)], &conn, 1, 3, &[]));
    }
    v
}

pub const BIN: [VK; 4] = [VK::Add, VK::Sub, VK::Mul, VK::Div];
pub const ASSERTS: [AK; 3] = [AK::Connect, AK::AssertZero, AK::AssertBool];

/// Constant alphabet indices: 0 -> 0, 1 -> 1, 2 -> t1 (generic), 3 -> t2 (generic)
pub fn families(thorough: bool) -> Vec<Family> {
    families_scaled(if thorough { 2 } else { 0 })
}

/// scale 0: quick tier of run-based checks (C02, C10); 1: quick tier of compile-only checks
/// (C03, C09, C18); 2: thorough tier.
pub fn families_scaled(scale: u8) -> Vec<Family> {
    const CONN: [AK; 2] = [AK::Connect, AK::AssertZero];
    let wide = [VK::Add, VK::Mul, VK::Sub, VK::MulAdd, VK::Select, VK::Horner];
    let mut v = vec![];
    if scale == 0 {
        // smallest first: whatever does not fit the budget is cut from the end and reported
        let st = staged_families(false);
        let pick = |n: &str| st.iter().find(|f| f.name == n).cloned().unwrap();
        v.push(pick("sum-of-products-3+2"));
        v.push(pick("dedup-chain-4ops-2in"));
        v.push(pick("wide2-k2-c0"));
        v.push(pick("conn3-k2"));
        // bit decomposition of a public or a computed value
        v.push(fam("bits-k2-c1", &[VK::Add, VK::Mul, VK::Bits(2), VK::Bits(3)], &CONN, 2, 1, 2, 0, &[1, 2], 0, true, true));
        // two Horner steps (chains, shared operands, arbitrary accumulators)
        v.push(fam("horner-k2-c0", &[VK::Horner], &CONN, 2, 0, 5, 0, &[2], 2, true, true));
        // two connects (aliasing chains through connect): publics and one generic constant
        v.push(fam("bin-k2-conn2", &BIN, &CONN, 2, 2, 3, 0, &[2], 0, true, true));
        // binary arithmetic, two value calls, one assertion of any kind
        v.push(fam("bin-k2-c1", &BIN, &ASSERTS, 2, 1, 3, 1, &[0, 1, 2], 0, true, true));
        v.push(pick("products-2-then-addsub-3"));
        v.push(pick("dup-ops-3-conn2"));
        // one wide call (mul_add / select / horner) plus one binary call, one assertion
        v.push(fam("wide1-k2-c1", &wide, &ASSERTS, 2, 1, 3, 1, &[0, 1, 2], 1, true, true));
        return v;
    }
    if scale == 1 {
        v.extend(staged_families(false));
        v.push(fam("bin-k2-c2", &BIN, &ASSERTS, 2, 2, 3, 1, &[0, 1, 2], 0, true, true));
        v.push(fam("wide1-k2-c1", &wide, &ASSERTS, 2, 1, 4, 1, &[0, 1, 2], 1, true, true));
        v.push(fam("horner-k2-c1", &[VK::Horner], &CONN, 2, 1, 5, 0, &[2], 2, true, true));
        // three-step Horner chains (packing factors 3 and 4 schedule them differently)
        v.push(fam("horner-k3-c0", &[VK::Horner], &CONN, 3, 0, 2, 0, &[2], 3, true, true));
        v.push(fam("bits-k2-c2", &[VK::Add, VK::Mul, VK::Sub, VK::Bits(2), VK::Bits(3)], &ASSERTS, 2, 2, 2, 1, &[1, 2], 0, true, true));
        return v;
    }
    v.extend(staged_families(true));
    v.push(fam("wide1-k2-c1", &wide, &ASSERTS, 2, 1, 4, 1, &[0, 1, 2], 1, true, true));
    v.push(fam("horner-k2-c1", &[VK::Horner], &CONN, 2, 1, 5, 0, &[2], 2, true, true));
    v.push(fam("horner-k3-c0", &[VK::Horner], &CONN, 3, 0, 2, 0, &[2], 3, true, true));
    v.push(fam("horner-k4-c0", &[VK::Horner], &CONN, 4, 0, 1, 0, &[2], 4, true, true));
    v.push(fam("bits-k2-c2", &[VK::Add, VK::Mul, VK::Sub, VK::Bits(2), VK::Bits(3)], &ASSERTS, 2, 2, 2, 1, &[1, 2], 0, true, true));
    v.push(fam("bin-k2-c2", &BIN, &ASSERTS, 2, 2, 3, 1, &[0, 1, 2], 0, true, false));
    v.push(fam("bin-k3-c1", &BIN, &ASSERTS, 3, 1, 3, 1, &[0, 1, 2], 0, true, true));
    v.push(fam("bin-k3-conn2", &BIN, &CONN, 3, 2, 3, 0, &[2], 0, true, true));
    v.push(fam("wide2-k3-c1", &[VK::Add, VK::Mul, VK::Sub, VK::Div, VK::MulAdd, VK::Select], &ASSERTS, 3, 1, 3, 1, &[1, 2], 2, true, true));
    v.push(fam("horner-k3-c1", &[VK::Horner, VK::Add, VK::Mul], &CONN, 3, 1, 5, 0, &[2], 3, true, true));
    v
}
