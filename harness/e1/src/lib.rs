//! E1/E2: exhaustive builder-program explorer and reference semantics, shared by
//! C02, C03, C09, C10 and C18.

pub mod accept;
pub mod bus;
pub mod enumerate;
pub mod explore;
pub mod families;
pub mod opsem;
pub mod prog;

pub use enumerate::{AK, Family, VK};
pub use prog::{Call, Opnd, Program};
