//! `opsem`: the relation each emitted `Op` states — and nothing else — plus the enumeration
//! of all ops-satisfying assignments over a value alphabet (define-or-check mode).
//!
//!   Const      w[out] = val
//!   Public     nothing (free slot); private-input rows likewise (free, supplied from outside)
//!   Add        w[a] + w[b] = w[out]
//!   Mul        w[a] * w[b] = w[out]
//!   BoolCheck  w[a] (w[a] - 1) = 0
//!   MulAdd     w[a] * w[b] + w[c] = w[out]          (no statement about intermediate_out)
//!   HornerAcc  w[acc] * w[b] + w[c] - w[a] = w[out]  (acc = the slot named in intermediate_out)
//!   Hint       nothing (outputs are free)
//!   NPO        not supported here (callers skip such circuits)
//!
//! A slot that occurs *only* as `intermediate_out` of MulAdd ops is existentially
//! quantified (it is not observable by any relation of the op list): it is given the value
//! a*b. If the slot is mentioned by any other port, nothing is stated about it.
//!
//! The enumeration is sound for refutation: every assignment it yields satisfies every op
//! relation. It may be incomplete when one unknown slot occupies several ports of one op
//! (then only alphabet values are tried).

use p3_circuit::ops::{AluOpKind, Op};
use p3_circuit::{Circuit, WitnessId};
use p3_field::Field;

#[derive(Clone, Debug)]
enum Step<F> {
    Const { out: usize, val: F },
    Free(Vec<usize>),
    Alu {
        kind: AluOpKind,
        a: usize,
        b: usize,
        c: Option<usize>,
        out: usize,
        acc: Option<usize>,
        /// existentially quantified intermediate (MulAdd only)
        io_exist: Option<usize>,
    },
}

pub struct OpSem<F> {
    steps: Vec<Step<F>>,
    n: usize,
    pub unsupported: bool,
}

fn w(id: &WitnessId) -> usize {
    id.0 as usize
}

impl<F: Field> OpSem<F> {
    pub fn new(circuit: &Circuit<F>) -> Self {
        let n = circuit.witness_count as usize;
        // slots mentioned by a real port of any op
        let mut mentioned = vec![false; n.max(1)];
        let mut mark = |i: usize, m: &mut Vec<bool>| {
            if i >= m.len() {
                m.resize(i + 1, false);
            }
            m[i] = true;
        };
        let mut unsupported = false;
        for op in &circuit.ops {
            match op {
                Op::Const { out, .. } | Op::Public { out, .. } => mark(w(out), &mut mentioned),
                Op::Alu {
                    kind,
                    a,
                    b,
                    c,
                    out,
                    intermediate_out,
                } => {
                    mark(w(a), &mut mentioned);
                    mark(w(b), &mut mentioned);
                    if let Some(c) = c {
                        mark(w(c), &mut mentioned);
                    }
                    mark(w(out), &mut mentioned);
                    if *kind == AluOpKind::HornerAcc
                        && let Some(acc) = intermediate_out
                    {
                        mark(w(acc), &mut mentioned);
                    }
                }
                Op::Hint {
                    inputs, outputs, ..
                } => {
                    for i in inputs.iter().chain(outputs.iter()) {
                        mark(w(i), &mut mentioned);
                    }
                }
                Op::NonPrimitiveOpWithExecutor { .. } => unsupported = true,
            }
        }
        // private inputs have no op: their slots are supplied from outside, like Public rows
        let mut priv_slots: Vec<usize> = circuit.private_input_rows.iter().map(w).collect();
        priv_slots.sort();
        priv_slots.dedup();
        for &i in &priv_slots {
            mark(i, &mut mentioned);
        }
        let n = mentioned.len();
        let mut steps = vec![];
        for &i in &priv_slots {
            steps.push(Step::Free(vec![i]));
        }
        for op in &circuit.ops {
            match op {
                Op::Const { out, val } => steps.push(Step::Const {
                    out: w(out),
                    val: *val,
                }),
                Op::Public { out, .. } => steps.push(Step::Free(vec![w(out)])),
                Op::Alu {
                    kind,
                    a,
                    b,
                    c,
                    out,
                    intermediate_out,
                } => {
                    let (acc, io_exist) = match kind {
                        AluOpKind::HornerAcc => (intermediate_out.as_ref().map(w), None),
                        AluOpKind::MulAdd => (
                            None,
                            intermediate_out
                                .as_ref()
                                .map(w)
                                .filter(|i| *i >= mentioned.len() || !mentioned[*i]),
                        ),
                        _ => (None, None),
                    };
                    steps.push(Step::Alu {
                        kind: *kind,
                        a: w(a),
                        b: w(b),
                        c: c.as_ref().map(w),
                        out: w(out),
                        acc,
                        io_exist,
                    });
                }
                Op::Hint { outputs, .. } => steps.push(Step::Free(outputs.iter().map(w).collect())),
                Op::NonPrimitiveOpWithExecutor { .. } => {}
            }
        }
        let n = n.max(
            steps
                .iter()
                .filter_map(|s| match s {
                    Step::Alu { io_exist, .. } => io_exist.map(|i| i + 1),
                    _ => None,
                })
                .max()
                .unwrap_or(0),
        );
        OpSem {
            steps,
            n,
            unsupported,
        }
    }

    /// Calls `visit` with every ops-satisfying assignment found (slots never mentioned stay
    /// `None`). Stops after `limit` assignments; returns the number visited.
    pub fn enumerate(
        &self,
        alphabet: &[F],
        limit: usize,
        visit: &mut dyn FnMut(&[Option<F>]),
    ) -> usize {
        let mut wv: Vec<Option<F>> = vec![None; self.n];
        let mut count = 0;
        self.rec(0, &mut wv, alphabet, limit, &mut count, visit);
        count
    }

    fn rec(
        &self,
        i: usize,
        wv: &mut Vec<Option<F>>,
        alphabet: &[F],
        limit: usize,
        count: &mut usize,
        visit: &mut dyn FnMut(&[Option<F>]),
    ) {
        if *count >= limit {
            return;
        }
        if i == self.steps.len() {
            *count += 1;
            visit(wv);
            return;
        }
        match &self.steps[i] {
            Step::Const { out, val } => match wv[*out] {
                None => {
                    wv[*out] = Some(*val);
                    self.rec(i + 1, wv, alphabet, limit, count, visit);
                    wv[*out] = None;
                }
                Some(x) if x == *val => self.rec(i + 1, wv, alphabet, limit, count, visit),
                Some(_) => {}
            },
            Step::Free(slots) => {
                if let Some(&s) = slots.iter().find(|s| wv[**s].is_none()) {
                    for &v in alphabet {
                        wv[s] = Some(v);
                        // re-enter the same step until all its slots are assigned
                        self.rec(i, wv, alphabet, limit, count, visit);
                    }
                    wv[s] = None;
                } else {
                    self.rec(i + 1, wv, alphabet, limit, count, visit);
                }
            }
            Step::Alu {
                kind,
                a,
                b,
                c,
                out,
                acc,
                io_exist,
            } => {
                // distinct unassigned slots among the ports the relation reads
                let mut ports: Vec<usize> = vec![*a];
                if *kind != AluOpKind::BoolCheck {
                    ports.push(*b);
                    ports.push(*out);
                    if matches!(kind, AluOpKind::MulAdd | AluOpKind::HornerAcc)
                        && let Some(c) = c
                    {
                        ports.push(*c);
                    }
                    if let Some(acc) = acc {
                        ports.push(*acc);
                    }
                }
                let mut unk: Vec<usize> = ports.iter().copied().filter(|p| wv[*p].is_none()).collect();
                unk.sort();
                unk.dedup();
                if unk.is_empty() {
                    if self.holds(*kind, *a, *b, *c, *out, *acc, wv) {
                        self.with_io(*io_exist, *a, *b, i, wv, alphabet, limit, count, visit);
                    }
                    return;
                }
                if unk.len() >= 2 {
                    // branch on the first unknown, come back to this step
                    let s = unk[0];
                    for &v in alphabet {
                        wv[s] = Some(v);
                        self.rec(i, wv, alphabet, limit, count, visit);
                    }
                    wv[s] = None;
                    return;
                }
                // exactly one unknown slot u
                let u = unk[0];
                let occurrences = ports.iter().filter(|p| **p == u).count();
                let mut cands: Vec<F> = vec![];
                let mut exact = false;
                if occurrences == 1 {
                    if let Some(sol) = self.solve(*kind, *a, *b, *c, *out, *acc, u, wv) {
                        match sol {
                            Solve::Unique(x) => {
                                cands.push(x);
                                exact = true;
                            }
                            Solve::AnyValue => {}
                            Solve::NoSolution => return,
                        }
                    }
                }
                if !exact {
                    cands.extend_from_slice(alphabet);
                }
                for v in cands {
                    wv[u] = Some(v);
                    if self.holds(*kind, *a, *b, *c, *out, *acc, wv) {
                        self.with_io(*io_exist, *a, *b, i, wv, alphabet, limit, count, visit);
                    }
                }
                wv[u] = None;
            }
        }
    }

    #[allow(clippy::too_many_arguments)]
    fn with_io(
        &self,
        io: Option<usize>,
        a: usize,
        b: usize,
        i: usize,
        wv: &mut Vec<Option<F>>,
        alphabet: &[F],
        limit: usize,
        count: &mut usize,
        visit: &mut dyn FnMut(&[Option<F>]),
    ) {
        if let Some(io) = io {
            let prev = wv[io];
            wv[io] = Some(wv[a].unwrap() * wv[b].unwrap());
            self.rec(i + 1, wv, alphabet, limit, count, visit);
            wv[io] = prev;
        } else {
            self.rec(i + 1, wv, alphabet, limit, count, visit);
        }
    }

    #[allow(clippy::too_many_arguments)]
    fn holds(
        &self,
        kind: AluOpKind,
        a: usize,
        b: usize,
        c: Option<usize>,
        out: usize,
        acc: Option<usize>,
        wv: &[Option<F>],
    ) -> bool {
        let g = |i: usize| wv[i].unwrap();
        match kind {
            AluOpKind::Add => g(a) + g(b) == g(out),
            AluOpKind::Mul => g(a) * g(b) == g(out),
            AluOpKind::BoolCheck => g(a) * (g(a) - F::ONE) == F::ZERO,
            AluOpKind::MulAdd => g(a) * g(b) + c.map(g).unwrap_or(F::ZERO) == g(out),
            AluOpKind::HornerAcc => {
                acc.map(g).unwrap_or(F::ZERO) * g(b) + c.map(g).unwrap_or(F::ZERO) - g(a) == g(out)
            }
        }
    }

    #[allow(clippy::too_many_arguments)]
    fn solve(
        &self,
        kind: AluOpKind,
        a: usize,
        b: usize,
        c: Option<usize>,
        out: usize,
        acc: Option<usize>,
        u: usize,
        wv: &[Option<F>],
    ) -> Option<Solve<F>> {
        let g = |i: usize| wv[i].unwrap();
        let lin = |coef: F, rest: F| -> Solve<F> {
            // coef * u + rest = 0
            if coef != F::ZERO {
                Solve::Unique(-rest * coef.inverse())
            } else if rest == F::ZERO {
                Solve::AnyValue
            } else {
                Solve::NoSolution
            }
        };
        Some(match kind {
            AluOpKind::Add => {
                if u == out {
                    Solve::Unique(g(a) + g(b))
                } else if u == a {
                    Solve::Unique(g(out) - g(b))
                } else {
                    Solve::Unique(g(out) - g(a))
                }
            }
            AluOpKind::Mul => {
                if u == out {
                    Solve::Unique(g(a) * g(b))
                } else if u == a {
                    lin(g(b), -g(out))
                } else {
                    lin(g(a), -g(out))
                }
            }
            AluOpKind::BoolCheck => return None,
            AluOpKind::MulAdd => {
                let cv = |wv: &[Option<F>]| c.map(|c| wv[c].unwrap()).unwrap_or(F::ZERO);
                if u == out {
                    Solve::Unique(g(a) * g(b) + cv(wv))
                } else if Some(u) == c {
                    Solve::Unique(g(out) - g(a) * g(b))
                } else if u == a {
                    lin(g(b), cv(wv) - g(out))
                } else {
                    lin(g(a), cv(wv) - g(out))
                }
            }
            AluOpKind::HornerAcc => {
                let accv = |wv: &[Option<F>]| acc.map(|c| wv[c].unwrap()).unwrap_or(F::ZERO);
                let cv = |wv: &[Option<F>]| c.map(|c| wv[c].unwrap()).unwrap_or(F::ZERO);
                // acc*b + c - a - out = 0
                if u == out {
                    Solve::Unique(accv(wv) * g(b) + cv(wv) - g(a))
                } else if u == a {
                    Solve::Unique(accv(wv) * g(b) + cv(wv) - g(out))
                } else if Some(u) == c {
                    Solve::Unique(g(out) + g(a) - accv(wv) * g(b))
                } else if Some(u) == acc {
                    lin(g(b), cv(wv) - g(a) - g(out))
                } else {
                    lin(accv(wv), cv(wv) - g(a) - g(out))
                }
            }
        })
    }
}

enum Solve<F> {
    Unique(F),
    AnyValue,
    NoSolution,
}
