//! Builder programs: the alphabet of E1, their materialisation on the real `CircuitBuilder`,
//! and the two reference semantics (call level and node level).

use p3_circuit::expr::Expr;
use p3_circuit::{CircuitBuilder, ExprId};
use p3_field::{ExtensionField, Field, PrimeField64};
use serde::{Deserialize, Serialize};

/// An operand of a builder call.
#[derive(Clone, Copy, Debug, PartialEq, Eq, Hash, PartialOrd, Ord, Serialize, Deserialize)]
pub enum Opnd {
    /// an existing value handle (index into the handle list)
    H(u8),
    /// allocate a fresh public input right here
    NewPub,
    /// allocate a fresh private input right here
    NewPriv,
    /// `define_const(alphabet[i])`
    C(u8),
}

#[derive(Clone, Debug, PartialEq, Eq, Hash, PartialOrd, Ord, Serialize, Deserialize)]
pub enum Call {
    Add(Opnd, Opnd),
    Sub(Opnd, Opnd),
    Mul(Opnd, Opnd),
    Div(Opnd, Opnd),
    MulAdd(Opnd, Opnd, Opnd),
    /// horner_acc_step(acc, alpha, p_at_z, p_at_x) = acc*alpha + p_at_z - p_at_x
    Horner(Opnd, Opnd, Opnd, Opnd),
    /// select(b, t, s) = s + b (t - s)
    Select(Opnd, Opnd, Opnd),
    AssertBool(Opnd),
    Connect(Opnd, Opnd),
    AssertZero(Opnd),
    /// decompose_to_bits(x, n): n new handles
    Bits(Opnd, u8),
}

impl Call {
    pub fn operands(&self) -> Vec<Opnd> {
        match *self {
            Call::Add(a, b) | Call::Sub(a, b) | Call::Mul(a, b) | Call::Div(a, b) => vec![a, b],
            Call::Connect(a, b) => vec![a, b],
            Call::MulAdd(a, b, c) | Call::Select(a, b, c) => vec![a, b, c],
            Call::Horner(a, b, c, d) => vec![a, b, c, d],
            Call::AssertBool(a) | Call::AssertZero(a) | Call::Bits(a, _) => vec![a],
        }
    }
    pub fn is_assert(&self) -> bool {
        matches!(self, Call::AssertBool(_) | Call::Connect(..) | Call::AssertZero(_))
    }
    pub fn with_operands(&self, o: &[Opnd]) -> Call {
        match self {
            Call::Add(..) => Call::Add(o[0], o[1]),
            Call::Sub(..) => Call::Sub(o[0], o[1]),
            Call::Mul(..) => Call::Mul(o[0], o[1]),
            Call::Div(..) => Call::Div(o[0], o[1]),
            Call::Connect(..) => Call::Connect(o[0], o[1]),
            Call::MulAdd(..) => Call::MulAdd(o[0], o[1], o[2]),
            Call::Select(..) => Call::Select(o[0], o[1], o[2]),
            Call::Horner(..) => Call::Horner(o[0], o[1], o[2], o[3]),
            Call::AssertBool(_) => Call::AssertBool(o[0]),
            Call::AssertZero(_) => Call::AssertZero(o[0]),
            Call::Bits(_, n) => Call::Bits(o[0], *n),
        }
    }
}

#[derive(Clone, Debug, PartialEq, Eq, Hash, Serialize, Deserialize, Default)]
pub struct Program {
    pub calls: Vec<Call>,
}

impl Program {
    pub fn show(&self) -> String {
        let mut s = String::new();
        let mut h = 0usize;
        let mut np = 0;
        let mut nv = 0;
        let mut opn = |o: &Opnd, h: &mut usize, s: &mut String| -> String {
            match o {
                Opnd::H(i) => format!("h{i}"),
                Opnd::C(i) => format!("c{i}"),
                Opnd::NewPub => {
                    let r = format!("h{}", *h);
                    s.push_str(&format!("h{}=pub{}; ", *h, np));
                    np += 1;
                    *h += 1;
                    r
                }
                Opnd::NewPriv => {
                    let r = format!("h{}", *h);
                    s.push_str(&format!("h{}=priv{}; ", *h, nv));
                    nv += 1;
                    *h += 1;
                    r
                }
            }
        };
        for c in &self.calls {
            let ops: Vec<String> = c.operands().iter().map(|o| opn(o, &mut h, &mut s)).collect();
            match c {
                Call::Add(..) => s.push_str(&format!("h{h}={}+{}; ", ops[0], ops[1])),
                Call::Sub(..) => s.push_str(&format!("h{h}={}-{}; ", ops[0], ops[1])),
                Call::Mul(..) => s.push_str(&format!("h{h}={}*{}; ", ops[0], ops[1])),
                Call::Div(..) => s.push_str(&format!("h{h}={}/{}; ", ops[0], ops[1])),
                Call::MulAdd(..) => {
                    s.push_str(&format!("h{h}=muladd({},{},{}); ", ops[0], ops[1], ops[2]))
                }
                Call::Horner(..) => s.push_str(&format!(
                    "h{h}=horner(acc={},alpha={},z={},x={}); ",
                    ops[0], ops[1], ops[2], ops[3]
                )),
                Call::Select(..) => {
                    s.push_str(&format!("h{h}=select({},{},{}); ", ops[0], ops[1], ops[2]))
                }
                Call::AssertBool(_) => s.push_str(&format!("assert_bool({}); ", ops[0])),
                Call::Connect(..) => s.push_str(&format!("connect({},{}); ", ops[0], ops[1])),
                Call::AssertZero(_) => s.push_str(&format!("assert_zero({}); ", ops[0])),
                Call::Bits(_, n) => {
                    s.push_str(&format!("h{h}..h{}=bits({},{n}); ", h + *n as usize - 1, ops[0]));
                    h += *n as usize - 1;
                }
            }
            if !c.is_assert() {
                h += 1;
            }
        }
        s
    }
}

/// The real builder after replaying a program, plus what the harness remembers about it.
pub struct Materialized<F: Field> {
    pub builder: CircuitBuilder<F>,
    pub handles: Vec<ExprId>,
    pub n_pub: usize,
    pub n_priv: usize,
    pub nodes: Vec<Expr<F>>,
    pub connects: Vec<(ExprId, ExprId)>,
}

impl<F: Field> Materialized<F> {
    /// Canonical key of the compiler input: DAG nodes in creation order + connects as a
    /// sorted set of unordered pairs. Equal keys are the same input to lowering/optimiser.
    pub fn key(&self) -> String {
        let mut cs: Vec<(u32, u32)> = self
            .connects
            .iter()
            .map(|(a, b)| (a.0.min(b.0), a.0.max(b.0)))
            .collect();
        cs.sort();
        cs.dedup();
        format!("{:?}|{:?}", self.nodes, cs)
    }
}

pub fn materialize<BF, F>(prog: &Program, consts: &[F]) -> Result<Materialized<F>, String>
where
    BF: PrimeField64,
    F: ExtensionField<BF> + core::hash::Hash,
{
    let mut b = CircuitBuilder::<F>::new();
    let mut handles: Vec<ExprId> = Vec::new();
    let mut n_pub = 0;
    let mut n_priv = 0;
    for call in &prog.calls {
        let mut ids = Vec::with_capacity(4);
        for o in call.operands() {
            let id = match o {
                Opnd::H(i) => *handles
                    .get(i as usize)
                    .ok_or_else(|| format!("bad handle h{i}"))?,
                Opnd::C(i) => b.define_const(consts[i as usize]),
                Opnd::NewPub => {
                    let e = b.public_input();
                    n_pub += 1;
                    handles.push(e);
                    e
                }
                Opnd::NewPriv => {
                    let e = b.alloc_private_input("priv");
                    n_priv += 1;
                    handles.push(e);
                    e
                }
            };
            ids.push(id);
        }
        match call {
            Call::Add(..) => handles.push(b.add(ids[0], ids[1])),
            Call::Sub(..) => handles.push(b.sub(ids[0], ids[1])),
            Call::Mul(..) => handles.push(b.mul(ids[0], ids[1])),
            Call::Div(..) => handles.push(b.div(ids[0], ids[1])),
            Call::MulAdd(..) => handles.push(b.mul_add(ids[0], ids[1], ids[2])),
            Call::Horner(..) => handles.push(b.horner_acc_step(ids[0], ids[1], ids[2], ids[3])),
            Call::Select(..) => handles.push(b.select(ids[0], ids[1], ids[2])),
            Call::AssertBool(_) => b.assert_bool(ids[0]),
            Call::Connect(..) => b.connect(ids[0], ids[1]),
            Call::AssertZero(_) => b.assert_zero(ids[0]),
            Call::Bits(_, n) => {
                let bits = b
                    .decompose_to_bits::<BF>(ids[0], *n as usize)
                    .map_err(|e| format!("decompose_to_bits: {e:?}"))?;
                handles.extend(bits);
            }
        }
    }
    let (nodes, connects) = b.verif_snapshot();
    Ok(Materialized {
        builder: b,
        handles,
        n_pub,
        n_priv,
        nodes,
        connects,
    })
}

/// Call-level reference semantics: what each handle denotes mathematically.
pub struct RefEval<F> {
    /// value per handle; `None` if it depends on a division by zero
    pub hv: Vec<Option<F>>,
    /// some divisor was zero: the property makes no claim for this input
    pub undefined: bool,
    /// every asserted relation holds
    pub sat: bool,
}

pub fn ref_eval<BF, F>(prog: &Program, consts: &[F], pubs: &[F], privs: &[F]) -> RefEval<F>
where
    BF: PrimeField64,
    F: ExtensionField<BF>,
{
    let mut hv: Vec<Option<F>> = Vec::new();
    let mut undefined = false;
    let mut sat = true;
    let mut ip = 0;
    let mut iv = 0;
    for call in &prog.calls {
        let mut v: Vec<Option<F>> = Vec::with_capacity(4);
        for o in call.operands() {
            let x = match o {
                Opnd::H(i) => hv[i as usize],
                Opnd::C(i) => Some(consts[i as usize]),
                Opnd::NewPub => {
                    let x = Some(pubs[ip]);
                    ip += 1;
                    hv.push(x);
                    x
                }
                Opnd::NewPriv => {
                    let x = Some(privs[iv]);
                    iv += 1;
                    hv.push(x);
                    x
                }
            };
            v.push(x);
        }
        let all = v.iter().all(|x| x.is_some());
        let g = |i: usize| v[i].unwrap();
        match call {
            Call::Add(..) => hv.push(all.then(|| g(0) + g(1))),
            Call::Sub(..) => hv.push(all.then(|| g(0) - g(1))),
            Call::Mul(..) => hv.push(all.then(|| g(0) * g(1))),
            Call::Div(..) => {
                if all && g(1) != F::ZERO {
                    hv.push(Some(g(0) * g(1).inverse()));
                } else {
                    undefined = true;
                    hv.push(None);
                }
            }
            Call::MulAdd(..) => hv.push(all.then(|| g(0) * g(1) + g(2))),
            Call::Horner(..) => hv.push(all.then(|| g(0) * g(1) + g(2) - g(3))),
            Call::Select(..) => hv.push(all.then(|| g(2) + g(0) * (g(1) - g(2)))),
            Call::AssertBool(_) => {
                if all {
                    sat &= g(0) == F::ZERO || g(0) == F::ONE;
                }
            }
            Call::Connect(..) => {
                if all {
                    sat &= g(0) == g(1);
                }
            }
            Call::AssertZero(_) => {
                if all {
                    sat &= g(0) == F::ZERO;
                }
            }
            Call::Bits(_, n) => {
                if all {
                    // canonical decomposition: only defined here for base-field values
                    let x0 = g(0);
                    let coeffs = x0.as_basis_coefficients_slice();
                    let in_base = coeffs[1..].iter().all(|c| *c == BF::ZERO);
                    let c = coeffs[0].as_canonical_u64();
                    if !in_base || (*n < 64 && c >> *n != 0) {
                        sat = false;
                    }
                    for j in 0..*n {
                        hv.push(Some(if (c >> j) & 1 == 1 { F::ONE } else { F::ZERO }));
                    }
                } else {
                    for _ in 0..*n {
                        hv.push(None);
                    }
                }
            }
        }
    }
    RefEval { hv, undefined, sat }
}

/// Node-level reference semantics: the mathematical meaning of each `Expr` node.
/// `opaque(i)` supplies values of non-primitive / hint outputs (node index i).
/// Returns (values, undefined).
pub fn eval_nodes<F: Field>(
    nodes: &[Expr<F>],
    pubs: &[F],
    privs: &[F],
    opaque: &dyn Fn(usize) -> Option<F>,
) -> (Vec<Option<F>>, bool) {
    let mut v: Vec<Option<F>> = Vec::with_capacity(nodes.len());
    let mut undefined = false;
    for (i, n) in nodes.iter().enumerate() {
        let g = |e: &ExprId, v: &Vec<Option<F>>| v[e.0 as usize];
        let x = match n {
            Expr::Const(c) => Some(*c),
            Expr::Public(p) => pubs.get(*p).copied(),
            Expr::PrivateInput(p) => privs.get(*p).copied(),
            Expr::Add { lhs, rhs } => g(lhs, &v).zip(g(rhs, &v)).map(|(a, b)| a + b),
            Expr::Sub { lhs, rhs } => g(lhs, &v).zip(g(rhs, &v)).map(|(a, b)| a - b),
            Expr::Mul { lhs, rhs } => g(lhs, &v).zip(g(rhs, &v)).map(|(a, b)| a * b),
            Expr::Div { lhs, rhs } => match g(lhs, &v).zip(g(rhs, &v)) {
                Some((a, b)) if b != F::ZERO => Some(a * b.inverse()),
                Some(_) => {
                    undefined = true;
                    None
                }
                None => None,
            },
            Expr::HornerAcc {
                acc,
                alpha,
                p_at_z,
                p_at_x,
            } => match (g(acc, &v), g(alpha, &v), g(p_at_z, &v), g(p_at_x, &v)) {
                (Some(a), Some(al), Some(z), Some(x)) => Some(a * al + z - x),
                _ => None,
            },
            Expr::BoolCheck { val } => g(val, &v),
            Expr::MulAdd { a, b, c } => match (g(a, &v), g(b, &v), g(c, &v)) {
                (Some(a), Some(b), Some(c)) => Some(a * b + c),
                _ => None,
            },
            Expr::NonPrimitiveCall { .. } => None,
            Expr::NonPrimitiveOutput { .. } => opaque(i),
        };
        v.push(x);
    }
    (v, undefined)
}

/// Asserted relations at node level (connects + boolean checks). `None` entries are skipped.
pub fn node_rels_hold<F: Field>(
    nodes: &[Expr<F>],
    connects: &[(ExprId, ExprId)],
    v: &[Option<F>],
) -> bool {
    for (a, b) in connects {
        if let (Some(x), Some(y)) = (v[a.0 as usize], v[b.0 as usize])
            && x != y
        {
            return false;
        }
    }
    for n in nodes {
        if let Expr::BoolCheck { val } = n
            && let Some(x) = v[val.0 as usize]
            && x != F::ZERO
            && x != F::ONE
        {
            return false;
        }
    }
    true
}

/// Remove call j if no later call refers to a handle it created; renumber later handles.
pub fn remove_call(p: &Program, j: usize) -> Option<Program> {
    // handle ranges created per call
    let mut h = 0usize;
    let mut ranges = vec![];
    for c in &p.calls {
        let start = h;
        for o in c.operands() {
            if matches!(o, Opnd::NewPub | Opnd::NewPriv) {
                h += 1;
            }
        }
        if !c.is_assert() {
            h += match c {
                Call::Bits(_, n) => *n as usize,
                _ => 1,
            };
        }
        ranges.push((start, h));
    }
    let (s, e) = ranges[j];
    let removed = e - s;
    let mut calls = vec![];
    for (i, c) in p.calls.iter().enumerate() {
        if i == j {
            continue;
        }
        let mut ops = c.operands();
        for o in ops.iter_mut() {
            if let Opnd::H(k) = o {
                let k = *k as usize;
                if k >= s && k < e {
                    return None;
                }
                if k >= e {
                    *o = Opnd::H((k - removed) as u8);
                }
            }
        }
        calls.push(c.with_operands(&ops));
    }
    Some(Program { calls })
}



/// Derived program for de-duplication / aliasing stress: the value calls of `p` (Add / Sub / Mul
/// / MulAdd over inputs, constants and earlier results) are emitted twice — the second copy over
/// FRESH public inputs — then every input of the copy is connected to its original (so the copy
/// is an op-level duplicate that expression-level CSE cannot see), the copy's last result is
/// pinned to one more public input `p`, and three consumers read `p`, the original result and the
/// copy's operands: `p*i0`, `o*i0`, `o*i0'`, summed, plus two Horner steps whose accumulator is the
/// copy's result resp. the original result. `None` if `p` has no value call, uses
/// private inputs, hints or assertions, or would exceed 255 handles.
pub fn duplicate_with_aliases(p: &Program) -> Option<Program> {
    #[derive(Clone, Copy)]
    enum K {
        Input,
        Res,
    }
    let mut kinds: Vec<K> = vec![];
    // pass 1: handle kinds and per-call operand handle indices of the original
    let mut resolved: Vec<(Call, Vec<Opnd>)> = vec![];
    for c in &p.calls {
        if c.is_assert() || matches!(c, Call::Bits(..) | Call::Div(..) | Call::Horner(..) | Call::Select(..)) {
            return None;
        }
        let mut ops = vec![];
        for o in c.operands() {
            match o {
                Opnd::NewPriv => return None,
                Opnd::NewPub => {
                    kinds.push(K::Input);
                    ops.push(Opnd::H((kinds.len() - 1) as u8));
                }
                other => ops.push(other),
            }
        }
        kinds.push(K::Res);
        resolved.push((c.clone(), ops));
    }
    let n0 = kinds.len();
    if resolved.is_empty() || 2 * n0 + 12 > 250 {
        return None;
    }
    let first_input = kinds.iter().position(|k| matches!(k, K::Input))?;
    let last_res = n0 - 1;
    let i0 = first_input as u8;
    let mut calls: Vec<Call> = p.calls.clone();
    // consumers recorded BEFORE the duplicate appears: m1 = pin * i0 (pin: a fresh public input
    // that the duplicate's result will be connected to), m2 = o * i0
    calls.push(Call::Mul(Opnd::NewPub, Opnd::H(i0)));
    let pin = n0 as u8;
    let m1 = pin + 1;
    calls.push(Call::Mul(Opnd::H(last_res as u8), Opnd::H(i0)));
    let m2 = m1 + 1;
    let mut next = n0 + 3;
    // the copy; map[h] = handle of the copy of original handle h
    let mut map: Vec<Option<u8>> = vec![None; n0];
    let mut res_idx = vec![];
    {
        let mut h = 0usize;
        for (c, _) in &resolved {
            for o in c.operands() {
                if o == Opnd::NewPub {
                    h += 1;
                }
            }
            res_idx.push(h);
            h += 1;
        }
    }
    for ((c, ops), &orig_res) in resolved.iter().zip(res_idx.iter()) {
        let mut new_ops = vec![];
        for o in ops {
            new_ops.push(match *o {
                Opnd::H(i) => match (kinds[i as usize], map[i as usize]) {
                    (_, Some(m)) => Opnd::H(m),
                    (K::Input, None) => {
                        map[i as usize] = Some(next as u8);
                        next += 1;
                        Opnd::NewPub
                    }
                    (K::Res, None) => return None,
                },
                other => other,
            });
        }
        calls.push(c.with_operands(&new_ops));
        map[orig_res] = Some(next as u8);
        next += 1;
    }
    // connects: every copied input to its original, the copy's last result to `pin`
    for i in 0..n0 {
        if let (K::Input, Some(m)) = (kinds[i], map[i]) {
            calls.push(Call::Connect(Opnd::H(i as u8), Opnd::H(m)));
        }
    }
    let copy_res = map[last_res]?;
    calls.push(Call::Connect(Opnd::H(copy_res), Opnd::H(pin)));
    // a third op with the colliding key, and consumers of all three
    let i0c = map[first_input]?;
    calls.push(Call::Mul(Opnd::H(last_res as u8), Opnd::H(i0c)));
    let m3 = next as u8;
    calls.push(Call::Add(Opnd::H(m1), Opnd::H(m2)));
    let s1 = m3 + 1;
    calls.push(Call::Add(Opnd::H(s1), Opnd::H(m3)));
    // Horner steps whose ACCUMULATOR is the copy's result resp. the original result (the
    // accumulator is carried in its own slot of the op, not in the a/b/c operands), with the
    // other one among the plain operands
    let s2 = s1 + 1;
    calls.push(Call::Horner(Opnd::H(copy_res), Opnd::H(i0), Opnd::H(last_res as u8), Opnd::H(i0c)));
    let h1 = s2 + 1;
    calls.push(Call::Horner(Opnd::H(last_res as u8), Opnd::H(i0c), Opnd::H(copy_res), Opnd::H(i0)));
    let h2 = h1 + 1;
    calls.push(Call::Add(Opnd::H(h1), Opnd::H(h2)));
    let t1 = h2 + 1;
    calls.push(Call::Add(Opnd::H(s2), Opnd::H(t1)));
    Some(Program { calls })
}
