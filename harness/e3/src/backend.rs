//! Backends: one per (base field, extension degree, table set). A backend knows how to
//! create a `CircuitBuilder` with the non-primitive tables enabled (honest permutation), how
//! to prepare the prover data of a compiled circuit, and how to run the repository's REAL
//! `prove_all_tables` + `verify_all_tables` on a set of (possibly forged) traces.
//!
//! All const-generic / where-clause heavy code lives in the `backend!` macro so that the rest
//! of the engine is generic over `B: Backend` only.

use std::any::Any;

use p3_batch_stark::ProverData;
use p3_circuit::ops::{
    NpoTypeId, Poseidon2Config, generate_poseidon2_trace, generate_recompose_trace,
};
use p3_circuit::{Circuit, CircuitBuilder, Traces};
use p3_circuit_prover::batch_stark_prover::{
    poseidon2_air_builders, poseidon2_air_builders_d5, poseidon2_table_provers_d5,
    recompose_air_builders, recompose_table_provers,
};
use p3_circuit_prover::common::{NpoPreprocessor, get_airs_and_degrees_with_prep};
use p3_circuit_prover::config::{self, BabyBearConfig, KoalaBearConfig};
use p3_circuit_prover::{
    BatchStarkProver, CircuitProverData, ConstraintProfile, Poseidon2Preprocessor,
    RecomposePreprocessor, TablePacking,
};
use p3_field::extension::{BinomialExtensionField, QuinticTrinomialExtensionField};
use p3_field::{BasedVectorSpace, ExtensionField, Field, PrimeField64, TwoAdicField};
use p3_matrix::dense::RowMajorMatrix;
use p3_symmetric::Permutation;

/// Outcome of the acceptance oracle.
#[derive(Clone, Debug, PartialEq, Eq)]
pub enum Verdict {
    Accepted,
    /// preparation (AIR / preprocessed column generation) failed
    PrepErr(String),
    ProveErr(String),
    VerifyErr(String),
    Panic(String),
}

impl Verdict {
    pub fn accepted(&self) -> bool {
        matches!(self, Verdict::Accepted)
    }
    /// short class for histograms: `accepted`, `verify_err:<FirstWord>`, ...
    pub fn short(&self) -> String {
        fn first_word(s: &str) -> String {
            // skip the generic wrapper words so the histogram shows the interesting variant
            s.split(|c: char| !c.is_alphanumeric() && c != '_')
                .find(|w| !w.is_empty() && *w != "Verify" && *w != "InvalidProofShape")
                .unwrap_or("")
                .to_string()
        }
        match self {
            Verdict::Accepted => "accepted".into(),
            Verdict::PrepErr(e) => format!("prep_err:{}", first_word(e)),
            Verdict::ProveErr(e) => format!("prove_err:{}", first_word(e)),
            Verdict::VerifyErr(e) => format!("verify_err:{}", first_word(e)),
            Verdict::Panic(_) => "panic".into(),
        }
    }
    pub fn long(&self) -> String {
        format!("{self:?}")
    }
}

/// One change of one main-trace matrix cell, applied through hook H4 just before
/// `prove_batch`. `table` indexes the matrix list (0 const, 1 public, 2 alu, 3.. NPO tables in
/// prover registration order).
#[derive(Clone, Debug, PartialEq, Eq)]
pub struct CellEdit {
    pub table: usize,
    pub row: usize,
    pub col: usize,
    /// added to the cell (canonical u64, reduced into the field)
    pub delta: u64,
}

pub trait Backend: Sized + Send + Sync + 'static {
    type BF: PrimeField64 + TwoAdicField + Send + Sync;
    type EF: Field + ExtensionField<Self::BF> + BasedVectorSpace<Self::BF> + Send + Sync;
    /// `CircuitProverData<SC>` of the backend's STARK configuration
    type Prepared: Send + Sync;
    /// `BatchStarkProof<SC>` (public metadata fields; `Serialize`/`Deserialize` for the concrete SC)
    type Proof;
    const NAME: &'static str;
    const D: usize;

    /// A builder with the backend's non-primitive tables enabled (honest permutation).
    fn new_builder() -> CircuitBuilder<Self::EF>;
    /// The Poseidon2 permutation table of this backend, if any.
    fn poseidon_config() -> Option<Poseidon2Config>;
    /// Native width-16 permutation over the base field (the function the table must compute).
    fn perm16(x: [Self::BF; 16]) -> [Self::BF; 16];
    /// AIRs, preprocessed columns, commitments (verifier-fixed data) for `circuit`.
    fn prepare(circuit: &Circuit<Self::EF>, packing: &TablePacking)
    -> Result<Self::Prepared, String>;
    /// Real prover. Not panic-safe (wrap in `vpcore::quiet_catch`); honours the H4 tamper
    /// callback installed on the calling thread.
    fn prove(
        prepared: &Self::Prepared,
        packing: &TablePacking,
        traces: &Traces<Self::EF>,
    ) -> Result<Self::Proof, Verdict>;
    /// Real verifier on a (possibly altered) proof object. Not panic-safe.
    fn verify(packing: &TablePacking, proof: &Self::Proof) -> Verdict;
    /// Real prover + verifier. Not panic-safe: call through [`accept`].
    fn prove_verify(
        prepared: &Self::Prepared,
        packing: &TablePacking,
        traces: &Traces<Self::EF>,
    ) -> Verdict {
        match Self::prove(prepared, packing, traces) {
            Ok(p) => Self::verify(packing, &p),
            Err(v) => v,
        }
    }
}

/// Table name used in violation keys: the field / width variant is dropped, the permutation
/// degree is kept (`poseidon2_perm/d4`): D = 1 and D > 1 tables are different designs.
pub fn key_table(op_type: &str) -> String {
    if let Some(rest) = op_type.strip_prefix("poseidon2_perm/") {
        let d = rest
            .split('_')
            .find(|p| p.len() == 2 && p.starts_with('d') && p[1..].chars().all(|c| c.is_ascii_digit()))
            .unwrap_or("d?");
        format!("poseidon2_perm/{d}")
    } else {
        op_type.to_string()
    }
}

fn poseidon_type(c: Option<Poseidon2Config>) -> Option<NpoTypeId> {
    c.map(NpoTypeId::poseidon2_perm)
}

/// Op type of the backend's Poseidon2 table.
pub fn poseidon_op_type<B: Backend>() -> Option<NpoTypeId> {
    poseidon_type(B::poseidon_config())
}

macro_rules! backend {
    (
        $name:ident, $label:literal, $sc:ty, $cfg:path, $bf:ty, $ef:ty, $d:literal,
        builder = $mk_builder:expr,
        pos_cfg = $pos_cfg:expr,
        perm = $perm:expr,
        preps = $preps:expr,
        airs = $airs:expr,
        register = $register:expr
    ) => {
        pub struct $name;
        impl Backend for $name {
            type BF = $bf;
            type EF = $ef;
            type Prepared = CircuitProverData<$sc>;
            type Proof = p3_circuit_prover::BatchStarkProof<$sc>;
            const NAME: &'static str = $label;
            const D: usize = $d;

            fn new_builder() -> CircuitBuilder<$ef> {
                let f: fn() -> CircuitBuilder<$ef> = $mk_builder;
                f()
            }
            fn poseidon_config() -> Option<Poseidon2Config> {
                $pos_cfg
            }
            fn perm16(x: [$bf; 16]) -> [$bf; 16] {
                let p = $perm;
                p.permute(x)
            }
            fn prepare(
                circuit: &Circuit<$ef>,
                packing: &TablePacking,
            ) -> Result<Self::Prepared, String> {
                let cfg = $cfg();
                let preps: Vec<Box<dyn NpoPreprocessor<$bf>>> = $preps;
                let airs_b = $airs;
                let (airs_degrees, prim, nonprim) =
                    get_airs_and_degrees_with_prep::<$sc, _, $d>(
                        circuit,
                        packing,
                        &preps,
                        &airs_b,
                        ConstraintProfile::Standard,
                    )
                    .map_err(|e| format!("{e:?}"))?;
                let (airs, degs): (Vec<_>, Vec<usize>) = airs_degrees.into_iter().unzip();
                let pd = ProverData::from_airs_and_degrees(&cfg, &airs, &degs);
                Ok(CircuitProverData::new(pd, prim, nonprim))
            }
            fn prove(
                prepared: &Self::Prepared,
                packing: &TablePacking,
                traces: &Traces<$ef>,
            ) -> Result<Self::Proof, Verdict> {
                let mut prover = BatchStarkProver::new($cfg()).with_table_packing(packing.clone());
                let reg: fn(&mut BatchStarkProver<$sc>) = $register;
                reg(&mut prover);
                prover
                    .prove_all_tables(traces, prepared)
                    .map_err(|e| Verdict::ProveErr(format!("{e:?}")))
            }
            fn verify(packing: &TablePacking, proof: &Self::Proof) -> Verdict {
                let mut prover = BatchStarkProver::new($cfg()).with_table_packing(packing.clone());
                let reg: fn(&mut BatchStarkProver<$sc>) = $register;
                reg(&mut prover);
                match prover.verify_all_tables::<$ef>(proof) {
                    Ok(()) => Verdict::Accepted,
                    Err(e) => Verdict::VerifyErr(format!("{e:?}")),
                }
            }
        }
    };
}

type Bb = p3_baby_bear::BabyBear;
type Kb = p3_koala_bear::KoalaBear;
type Bb4 = BinomialExtensionField<Bb, 4>;
type Kb4 = BinomialExtensionField<Kb, 4>;
type Kb5 = QuinticTrinomialExtensionField<Kb>;

// BabyBear, base field circuit (D = 1). The prover has no non-primitive table for D = 1
// circuits (`NpoAirBuilder<SC, 1>` is not implemented), so this backend is ALU + hints only.
backend!(
    BbD1, "bb-d1", BabyBearConfig, config::baby_bear, Bb, Bb, 1,
    builder = || CircuitBuilder::<Bb>::new(),
    pos_cfg = None,
    perm = p3_baby_bear::default_babybear_poseidon2_16(),
    preps = vec![],
    airs = Vec::<Box<dyn p3_circuit_prover::common::NpoAirBuilder<BabyBearConfig, 1>>>::new(),
    register = |_p| {}
);

// BabyBear, quartic extension circuit (D = 4), Poseidon2 D4 W16 + recompose + recompose/coeff.
backend!(
    BbD4, "bb-d4", BabyBearConfig, config::baby_bear, Bb, Bb4, 4,
    builder = || {
        let mut b = CircuitBuilder::<Bb4>::new();
        b.enable_poseidon2_perm::<p3_poseidon2_circuit_air::BabyBearD4Width16, _>(
            generate_poseidon2_trace::<Bb4, p3_poseidon2_circuit_air::BabyBearD4Width16>,
            p3_baby_bear::default_babybear_poseidon2_16(),
        );
        b.enable_recompose::<Bb>(generate_recompose_trace::<Bb, Bb4>);
        b
    },
    pos_cfg = Some(Poseidon2Config::BABY_BEAR_D4_W16),
    perm = p3_baby_bear::default_babybear_poseidon2_16(),
    preps = vec![
        Box::new(Poseidon2Preprocessor),
        Box::new(RecomposePreprocessor::new(true))
    ],
    airs = {
        let mut a = poseidon2_air_builders::<BabyBearConfig, 4>();
        a.extend(recompose_air_builders::<BabyBearConfig, 4>(1, true));
        a
    },
    register = |p| {
        p.register_poseidon2_table::<4>(Poseidon2Config::BABY_BEAR_D4_W16);
        for t in recompose_table_provers::<BabyBearConfig, 4>(1, true) {
            p.register_table_prover(t);
        }
    }
);

// KoalaBear, quartic extension circuit (D = 4).
backend!(
    KbD4, "kb-d4", KoalaBearConfig, config::koala_bear, Kb, Kb4, 4,
    builder = || {
        let mut b = CircuitBuilder::<Kb4>::new();
        b.enable_poseidon2_perm::<p3_poseidon2_circuit_air::KoalaBearD4Width16, _>(
            generate_poseidon2_trace::<Kb4, p3_poseidon2_circuit_air::KoalaBearD4Width16>,
            p3_koala_bear::default_koalabear_poseidon2_16(),
        );
        b.enable_recompose::<Kb>(generate_recompose_trace::<Kb, Kb4>);
        b
    },
    pos_cfg = Some(Poseidon2Config::KOALA_BEAR_D4_W16),
    perm = p3_koala_bear::default_koalabear_poseidon2_16(),
    preps = vec![
        Box::new(Poseidon2Preprocessor),
        Box::new(RecomposePreprocessor::new(true))
    ],
    airs = {
        let mut a = poseidon2_air_builders::<KoalaBearConfig, 4>();
        a.extend(recompose_air_builders::<KoalaBearConfig, 4>(1, true));
        a
    },
    register = |p| {
        p.register_poseidon2_table::<4>(Poseidon2Config::KOALA_BEAR_D4_W16);
        for t in recompose_table_provers::<KoalaBearConfig, 4>(1, true) {
            p.register_table_prover(t);
        }
    }
);

// KoalaBear, quintic trinomial extension circuit (D = 5), Poseidon2 D1 W16 lifted lane-wise,
// recompose + recompose/coeff (the layout every D=5 recursion backend uses).
backend!(
    KbD5, "kb-d5", KoalaBearConfig, config::koala_bear, Kb, Kb5, 5,
    builder = || {
        let mut b = CircuitBuilder::<Kb5>::new();
        b.enable_poseidon2_perm_base::<p3_poseidon2_circuit_air::KoalaBearD1Width16, _>(
            generate_poseidon2_trace::<Kb5, p3_poseidon2_circuit_air::KoalaBearD1Width16>,
            p3_test_utils::LiftPermToQuintic::new(p3_koala_bear::default_koalabear_poseidon2_16()),
        );
        b.enable_recompose::<Kb>(generate_recompose_trace::<Kb, Kb5>);
        b
    },
    pos_cfg = Some(Poseidon2Config::KOALA_BEAR_D1_W16),
    perm = p3_koala_bear::default_koalabear_poseidon2_16(),
    preps = vec![
        Box::new(Poseidon2Preprocessor),
        Box::new(RecomposePreprocessor::new(true))
    ],
    airs = {
        let mut a = poseidon2_air_builders_d5::<KoalaBearConfig>();
        a.extend(recompose_air_builders::<KoalaBearConfig, 5>(1, true));
        a
    },
    register = |p| {
        for t in poseidon2_table_provers_d5::<KoalaBearConfig>(Poseidon2Config::KOALA_BEAR_D1_W16) {
            p.register_table_prover(t);
        }
        for t in recompose_table_provers::<KoalaBearConfig, 5>(1, true) {
            p.register_table_prover(t);
        }
    }
);

// ---------------------------------------------------------------------------------------
// acceptance oracle

/// Result of one oracle call: the verdict and (if requested) a copy of the main-trace matrices
/// as they were handed to `prove_batch` (after tampering).
pub struct Run<BF> {
    pub verdict: Verdict,
    pub matrices: Option<Vec<RowMajorMatrix<BF>>>,
}

fn add_u64<BF: PrimeField64>(x: BF, d: u64) -> BF {
    x + BF::from_u64(d % BF::ORDER_U64)
}

/// Runs `f` with the H4 tamper callback of this thread set to "apply `edits`, optionally copy
/// the matrices", under `quiet_catch`; the callback is cleared afterwards (also on panic).
fn with_tamper<B: Backend, T>(
    edits: &[CellEdit],
    capture: bool,
    f: impl FnOnce() -> T,
) -> (Result<T, String>, Option<Vec<RowMajorMatrix<B::BF>>>, Option<String>) {
    use std::cell::RefCell;
    use std::rc::Rc;
    let captured: Rc<RefCell<Option<Vec<RowMajorMatrix<B::BF>>>>> = Rc::new(RefCell::new(None));
    let bad: Rc<RefCell<Option<String>>> = Rc::new(RefCell::new(None));
    if capture || !edits.is_empty() {
        let captured2 = captured.clone();
        let bad2 = bad.clone();
        let edits: Vec<CellEdit> = edits.to_vec();
        p3_circuit_prover::verif_hooks::set_matrix_tamper(Some(Box::new(
            move |any: &mut dyn Any| {
                let Some(ms) = any.downcast_mut::<Vec<RowMajorMatrix<B::BF>>>() else {
                    *bad2.borrow_mut() = Some("hook payload has unexpected type".into());
                    return;
                };
                for e in &edits {
                    let ok = e.table < ms.len()
                        && e.col < ms[e.table].width
                        && e.row * ms[e.table].width + e.col < ms[e.table].values.len();
                    if !ok {
                        *bad2.borrow_mut() = Some(format!("bad cell edit {e:?}"));
                        continue;
                    }
                    let w = ms[e.table].width;
                    let c = &mut ms[e.table].values[e.row * w + e.col];
                    *c = add_u64(*c, e.delta);
                }
                if capture {
                    *captured2.borrow_mut() = Some(ms.clone());
                }
            },
        )));
    }
    let r = vpcore::quiet_catch(f);
    p3_circuit_prover::verif_hooks::set_matrix_tamper(None);
    let b = bad.borrow_mut().take();
    let m = captured.borrow_mut().take();
    (r, m, b)
}

/// Runs the real prover and verifier on `traces` (release build: no debug constraint checks,
/// so forged traces reach the verifier), under `quiet_catch`.
///
/// `edits` are applied to the main-trace matrices through hook H4; the callback is installed
/// on this thread for the duration of the call and cleared afterwards (also on panic).
/// An edit that addresses a non-existing cell makes the call return
/// `Verdict::Panic("bad cell edit ...")` — callers enumerate cells from captured matrices.
pub fn accept_with<B: Backend>(
    prepared: &B::Prepared,
    packing: &TablePacking,
    traces: &Traces<B::EF>,
    edits: &[CellEdit],
    capture: bool,
) -> Run<B::BF> {
    let (r, matrices, bad) =
        with_tamper::<B, _>(edits, capture, || B::prove_verify(prepared, packing, traces));
    if let Some(b) = bad {
        return Run {
            verdict: Verdict::Panic(b),
            matrices: None,
        };
    }
    let verdict = match r {
        Ok(v) => v,
        Err(p) => Verdict::Panic(p),
    };
    Run { verdict, matrices }
}

/// Proof object of (possibly forged / cell-edited) traces, for checks that alter the proof
/// (C16). `Err(verdict)` = the prover refused or panicked.
pub fn prove_with<B: Backend>(
    prepared: &B::Prepared,
    packing: &TablePacking,
    traces: &Traces<B::EF>,
    edits: &[CellEdit],
) -> Result<B::Proof, Verdict> {
    let (r, _m, bad) = with_tamper::<B, _>(edits, false, || B::prove(prepared, packing, traces));
    if let Some(b) = bad {
        return Err(Verdict::Panic(b));
    }
    match r {
        Ok(x) => x,
        Err(p) => Err(Verdict::Panic(p)),
    }
}

/// Real verifier on a proof object, under `quiet_catch`.
pub fn verify_proof<B: Backend>(packing: &TablePacking, proof: &B::Proof) -> Verdict {
    match vpcore::quiet_catch(|| B::verify(packing, proof)) {
        Ok(v) => v,
        Err(p) => Verdict::Panic(p),
    }
}

/// `accept(circuit-prepared, traces)`: prove + verify, no tampering.
pub fn accept<B: Backend>(
    prepared: &B::Prepared,
    packing: &TablePacking,
    traces: &Traces<B::EF>,
) -> Verdict {
    accept_with::<B>(prepared, packing, traces, &[], false).verdict
}

/// Convenience: prepare + prove + verify in one call (prep errors become `Verdict::PrepErr`).
pub fn accept_circuit<B: Backend>(
    circuit: &Circuit<B::EF>,
    traces: &Traces<B::EF>,
    packing: &TablePacking,
) -> Verdict {
    match vpcore::quiet_catch(|| B::prepare(circuit, packing)) {
        Ok(Ok(p)) => accept::<B>(&p, packing, traces),
        Ok(Err(e)) => Verdict::PrepErr(e),
        Err(p) => Verdict::Panic(p),
    }
}
