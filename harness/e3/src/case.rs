//! Type-erased view of a fixture for check drivers that iterate a heterogeneous catalogue.

use serde_json::{Value, json};

use crate::backend::Backend;
use crate::faults::{Fault, Outcome, Site};
use crate::fixture::Fixture;

pub trait Case: Send + Sync {
    fn name(&self) -> &str;
    fn backend(&self) -> &'static str;
    /// sizes for the evidence: ops, slots, tables, cells, decoded cells
    fn describe(&self) -> Value;
    /// every single fault (F1–F5); `units`: basis elements receiving the +1 in F2–F5
    fn faults(&self, units: &[usize]) -> Vec<Fault>;
    fn site(&self, f: &Fault) -> Site;
    fn evaluate(&self, f: &Fault) -> Outcome;
    fn degree(&self) -> usize;
}

impl<B: Backend> Case for Fixture<B> {
    fn name(&self) -> &str {
        &self.name
    }
    fn backend(&self) -> &'static str {
        B::NAME
    }
    fn degree(&self) -> usize {
        B::D
    }
    fn describe(&self) -> Value {
        use p3_circuit::ops::Op;
        let mut kinds = std::collections::BTreeMap::<String, usize>::new();
        for op in &self.circuit.ops {
            let k = match op {
                Op::Const { .. } => "Const".to_string(),
                Op::Public { .. } => "Public".to_string(),
                Op::Alu { kind, .. } => format!("Alu.{kind:?}"),
                Op::Hint { .. } => "Hint".to_string(),
                Op::NonPrimitiveOpWithExecutor { executor, .. } => executor.op_type().as_str().to_string(),
            };
            *kinds.entry(k).or_default() += 1;
        }
        let tables: Vec<Value> = self
            .cellmap
            .honest
            .iter()
            .enumerate()
            .map(|(t, m)| {
                json!({"table": self.cellmap.tables[t], "width": m.width,
                       "height": m.values.len() / m.width.max(1)})
            })
            .collect();
        json!({
            "name": self.name, "backend": B::NAME, "ext_degree": B::D,
            "ops": kinds, "slots": self.circuit.witness_count,
            "tables": tables,
            "cells": self.cellmap.honest.iter().map(|m| m.values.len()).sum::<usize>(),
            "cells_decoded_as_scalar_copies": self.cellmap.primary.len(),
            "cells_decoded_as_permutation_outputs": self.cellmap.pos_out.len(),
        })
    }
    fn faults(&self, units: &[usize]) -> Vec<Fault> {
        self.enumerate_all(units)
    }
    fn site(&self, f: &Fault) -> Site {
        Fixture::site(self, f)
    }
    fn evaluate(&self, f: &Fault) -> Outcome {
        Fixture::evaluate(self, f)
    }
}
