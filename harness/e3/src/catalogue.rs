//! Circuit catalogue: small circuits that together cover every table and mode, each with
//! satisfying inputs.

use p3_circuit::ops::Poseidon2PermCall;
use p3_circuit::ops::poseidon2_perm::Poseidon2PermCallBase;
use p3_circuit::{CircuitBuilder, ExprId, NonPrimitiveOpId};
use p3_circuit_prover::TablePacking;
use p3_field::{BasedVectorSpace, Field, PrimeCharacteristicRing};

use crate::backend::{Backend, BbD1, BbD4, KbD4, KbD5};
use crate::case::Case;
use crate::exec::Inputs;
use crate::fixture::Fixture;

pub struct Spec {
    pub name: &'static str,
    pub backend: &'static str,
    pub covers: &'static str,
    pub build: fn() -> Result<Box<dyn Case>, String>,
}

fn bf<B: Backend>(x: u64) -> B::EF {
    ext::<B>(&[x])
}

/// extension element from (up to D) small coefficients
pub fn ext<B: Backend>(c: &[u64]) -> B::EF {
    let mut v = vec![B::BF::ZERO; B::D];
    for (i, x) in c.iter().take(B::D).enumerate() {
        v[i] = B::BF::from_u64(*x);
    }
    B::EF::from_basis_coefficients_slice(&v).expect("limbs")
}

/// generic extension tag: coefficients t, t+1, ...
fn tag<B: Backend>(t: u64) -> B::EF {
    let c: Vec<u64> = (0..B::D as u64).map(|i| t + 7 * i).collect();
    ext::<B>(&c)
}

fn finish<B: Backend>(
    name: &str,
    b: CircuitBuilder<B::EF>,
    inputs: Inputs<B::EF>,
    packing: TablePacking,
) -> Result<Box<dyn Case>, String> {
    let circuit = b.build().map_err(|e| format!("{name}: build: {e:?}"))?;
    Ok(Box::new(Fixture::<B>::new(name, circuit, inputs, packing)?))
}

/// Every ALU kind except Horner: Add, backward Add (sub), Mul, backward Mul (div), fused and
/// explicit MulAdd, BoolCheck; constants, two public inputs, one private input.
fn arith<B: Backend>(name: &'static str, packing: TablePacking) -> Result<Box<dyn Case>, String> {
    let mut b = B::new_builder();
    let x = b.public_input();
    let y = b.public_input();
    let p = b.alloc_private_input("p");
    let c5 = b.define_const(tag::<B>(5));
    let c3 = b.define_const(tag::<B>(3));
    let s = b.add(x, c5); // Add
    let d = b.sub(s, p); // backward Add: d + p = s
    let m = b.mul(d, y); // Mul
    let q = b.div(m, c3); // backward Mul: q * 3 = m
    let f = b.mul_add(q, x, y); // MulAdd
    let bit = b.public_input();
    b.assert_bool(bit); // BoolCheck
    let sel = b.select(bit, f, s); // sub + MulAdd
    let expected = b.public_input();
    b.connect(sel, expected);
    let (xv, yv, pv, c5v, c3v) = (tag::<B>(11), tag::<B>(13), tag::<B>(2), tag::<B>(5), tag::<B>(3));
    let sv = xv + c5v;
    let dv = sv - pv;
    let mv = dv * yv;
    let qv = mv * c3v.inverse();
    let fv = qv * xv + yv;
    let inputs = Inputs {
        public: vec![xv, yv, B::EF::ONE, fv],
        private: vec![pv],
        siblings: vec![],
    };
    finish::<B>(name, b, inputs, packing)
}


/// Ops whose ports share a witness slot (x*y+x, x*x+y, x+x, y*y, Horner steps with aliased
/// operands): a port that aliases another port of the same row must still be bound.
fn alias<B: Backend>(name: &'static str, packing: TablePacking) -> Result<Box<dyn Case>, String> {
    let mut b = B::new_builder();
    let x = b.public_input();
    let y = b.public_input();
    let zero = b.define_const(B::EF::ZERO);
    let m1 = b.mul_add(x, y, x); // c aliases a
    let m2 = b.mul_add(x, x, y); // a aliases b
    let m3 = b.mul_add(y, x, y); // c aliases a (other operand order)
    let s = b.add(x, x); // a aliases b
    let p = b.mul(y, y); // a aliases b
    let h1 = b.horner_acc_step(zero, x, x, y); // c aliases b
    let h2 = b.horner_acc_step(h1, x, y, y); // a aliases c
    let t1 = b.add(m1, m2);
    let t2 = b.add(t1, m3);
    let t3 = b.add(t2, s);
    let t4 = b.add(t3, p);
    let t5 = b.add(t4, h2);
    let expected = b.public_input();
    b.connect(t5, expected);
    let (xv, yv) = (tag::<B>(11), tag::<B>(13));
    let m1v = xv * yv + xv;
    let m2v = xv * xv + yv;
    let m3v = yv * xv + yv;
    let h1v = xv - yv; // 0*x + x - y
    let h2v = h1v * xv + yv - yv;
    let ev = m1v + m2v + m3v + (xv + xv) + (yv * yv) + h2v;
    let inputs = Inputs { public: vec![xv, yv, ev], private: vec![], siblings: vec![] };
    finish::<B>(name, b, inputs, packing)
}


/// Const / Public rows that share a witness slot: a public input connected to a constant, two
/// public inputs connected to each other, two public inputs connected to one constant. Every
/// such row's value cell must stay tied to the slot (the tables have no constraint but the bus).
fn row_alias<B: Backend>(name: &'static str, packing: TablePacking) -> Result<Box<dyn Case>, String> {
    let mut b = B::new_builder();
    let p = b.public_input();
    let y = b.public_input();
    let k7 = b.define_const(tag::<B>(7));
    b.connect(p, k7); // Public row on a Const slot
    let q1 = b.public_input();
    let q2 = b.public_input();
    b.connect(q1, q2); // two Public rows on one slot
    let r1 = b.public_input();
    let r2 = b.public_input();
    let k9 = b.define_const(tag::<B>(9));
    b.connect(r1, k9);
    b.connect(r2, k9); // three rows on one slot
    let m = b.mul(p, y);
    let s = b.add(m, q1);
    let t = b.add(s, r2);
    let expected = b.public_input();
    b.connect(t, expected);
    let (yv, qv) = (tag::<B>(3), tag::<B>(21));
    let ev = tag::<B>(7) * yv + qv + tag::<B>(9);
    let inputs = Inputs { public: vec![tag::<B>(7), yv, qv, qv, tag::<B>(9), tag::<B>(9), ev], private: vec![], siblings: vec![] };
    finish::<B>(name, b, inputs, packing)
}

/// One Horner chain of three steps (with K = 2: one packed pair + one single step) starting
/// from the zero accumulator, followed by an Add that reads the chain's result.
fn horner<B: Backend>(name: &'static str, packing: TablePacking) -> Result<Box<dyn Case>, String> {
    horner_n::<B>(name, packing, 3)
}

/// `steps`-step Horner chain from the zero accumulator: under packing factor K the scheduler cuts
/// it into rows of arity K and a shorter tail (3 steps: K=2 -> 2+1, K=3 -> 3, K=4 -> 3 < K;
/// 7 steps with K=4 -> 4+3).
fn horner_n<B: Backend>(name: &'static str, packing: TablePacking, steps: usize) -> Result<Box<dyn Case>, String> {
    let mut b = B::new_builder();
    let alpha = b.public_input();
    let zs: Vec<ExprId> = (0..steps).map(|_| b.public_input()).collect();
    let xs: Vec<ExprId> = (0..steps).map(|_| b.public_input()).collect();
    let zero = b.define_const(B::EF::ZERO);
    let mut acc = zero;
    for i in 0..steps {
        acc = b.horner_acc_step(acc, alpha, zs[i], xs[i]);
    }
    let c = b.define_const(tag::<B>(9));
    let r = b.add(acc, c);
    let expected = b.public_input();
    b.connect(r, expected);
    let av = tag::<B>(3);
    let zv: Vec<B::EF> = (0..steps as u64).map(|i| tag::<B>(20 + i)).collect();
    let xv: Vec<B::EF> = (0..steps as u64).map(|i| tag::<B>(40 + 3 * i)).collect();
    let mut accv = B::EF::ZERO;
    for i in 0..steps {
        accv = accv * av + zv[i] - xv[i];
    }
    let mut public = vec![av];
    public.extend(zv);
    public.extend(xv);
    public.push(accv + tag::<B>(9));
    finish::<B>(name, b, Inputs { public, private: vec![], siblings: vec![] }, packing)
}

/// A private input whose FIRST use is `assert_bool`: the BoolCheck row creates the slot, its
/// `a` port duplicates `out` off the bus; the value is then read by a Mul.
fn bool_priv<B: Backend>(name: &'static str, packing: TablePacking) -> Result<Box<dyn Case>, String> {
    let mut b = B::new_builder();
    let p = b.alloc_private_input("p");
    b.assert_bool(p);
    let k = b.public_input();
    let r = b.mul(p, k);
    let expected = b.public_input();
    b.connect(r, expected);
    let kv = tag::<B>(11);
    let inputs = Inputs { public: vec![kv, kv], private: vec![B::EF::ONE], siblings: vec![] };
    finish::<B>(name, b, inputs, packing)
}

/// `decompose_to_bits(x, 4)`: hint outputs, BoolChecks, reconstruction chain, connect.
fn bits<B: Backend>(name: &'static str, packing: TablePacking) -> Result<Box<dyn Case>, String> {
    let mut b = B::new_builder();
    let x = b.public_input();
    let bs = b.decompose_to_bits::<B::BF>(x, 4).map_err(|e| format!("{e:?}"))?;
    let s = b.add(bs[0], bs[3]);
    let m = b.mul(s, bs[1]);
    let expected = b.public_input();
    b.connect(m, expected);
    // x = 11 = 0b1011: bits 1,1,0,1 ; (b0 + b3) * b1 = 2
    let inputs = Inputs {
        public: vec![bf::<B>(11), bf::<B>(2)],
        private: vec![],
        siblings: vec![],
    };
    finish::<B>(name, b, inputs, packing)
}

/// Both recompose tables: `decompose_ext_to_base_coeffs` (hint + plain `recompose` row +
/// connect) and `recompose_base_coeffs_to_ext_with_coeff_lookups` (`recompose/coeff` row).
fn recompose<B: Backend>(name: &'static str, packing: TablePacking) -> Result<Box<dyn Case>, String> {
    let mut b = B::new_builder();
    let x = b.public_input();
    let coeffs = b.decompose_ext_to_base_coeffs::<B::BF>(x).map_err(|e| format!("{e:?}"))?;
    let mut s = coeffs[0];
    for c in coeffs.iter().skip(1) {
        s = b.mul_add(s, coeffs[1], *c);
    }
    let e1 = b.public_input();
    b.connect(s, e1);
    let cs: Vec<ExprId> = (0..B::D).map(|_| b.public_input()).collect();
    let r = b
        .recompose_base_coeffs_to_ext_with_coeff_lookups::<B::BF>(&cs)
        .map_err(|e| format!("{e:?}"))?;
    let t = b.mul(r, x);
    let e2 = b.public_input();
    b.connect(t, e2);
    let xv = tag::<B>(6);
    let xc: Vec<B::BF> = xv.as_basis_coefficients_slice().to_vec();
    let emb = |v: B::BF| {
        let mut c = vec![B::BF::ZERO; B::D];
        c[0] = v;
        B::EF::from_basis_coefficients_slice(&c).unwrap()
    };
    let mut sv = emb(xc[0]);
    for c in xc.iter().skip(1) {
        sv = sv * emb(xc[1]) + emb(*c);
    }
    let cv: Vec<u64> = (0..B::D as u64).map(|i| 31 + 5 * i).collect();
    let rv = ext::<B>(&cv);
    let mut public = vec![xv, sv];
    public.extend(cv.iter().map(|c| bf::<B>(*c)));
    public.push(rv * xv);
    finish::<B>(name, b, Inputs { public, private: vec![], siblings: vec![] }, packing)
}

/// The D>1 challenger pattern (what `CircuitChallenger::duplexing_ext` emits), twice:
/// 16 base-field state slots → 4 `recompose` rows → permutation (4 CTL inputs, rate outputs
/// exposed, capacity outputs returned but NOT on the bus) → 4 decompositions (hint +
/// `recompose` + connect) → next state. First state = 8 observed publics + zero capacity;
/// second duplexing overwrites the rate with 8 new observations. The sampled element
/// (state[0] after the second permutation) is connected to a public.
fn challenger<B: Backend>(name: &'static str, packing: TablePacking, duplexings: usize) -> Result<Box<dyn Case>, String> {
    let cfg = B::poseidon_config().ok_or("backend has no permutation")?;
    let d = B::D;
    let mut b = B::new_builder();
    let zero = b.define_const(B::EF::ZERO);
    let mut state: Vec<ExprId> = vec![zero; 16];
    let mut state_v: [B::BF; 16] = [B::BF::ZERO; 16];
    let mut public = vec![];
    let rate = 8usize;
    for round in 0..duplexings {
        for i in 0..rate {
            state[i] = b.public_input();
            let v = 100 + 10 * round as u64 + i as u64;
            state_v[i] = B::BF::from_u64(v);
            public.push(bf::<B>(v));
        }
        let mut ext_in = vec![];
        for l in 0..16 / d {
            ext_in.push(
                b.recompose_base_coeffs_to_ext::<B::BF>(&state[l * d..(l + 1) * d])
                    .map_err(|e| format!("{e:?}"))?,
            );
        }
        let outs = b
            .add_poseidon2_perm_for_challenger(cfg, &ext_in)
            .map_err(|e| format!("{e:?}"))?;
        state_v = B::perm16(state_v);
        for (l, o) in outs.iter().enumerate() {
            let cs = b.decompose_ext_to_base_coeffs::<B::BF>(*o).map_err(|e| format!("{e:?}"))?;
            for (i, c) in cs.into_iter().enumerate() {
                state[l * d + i] = c;
            }
        }
    }
    // sample: last rate element, used in a little arithmetic and exposed
    let sample = state[rate - 1];
    let k = b.define_const(tag::<B>(2));
    let y = b.mul(sample, k);
    let e = b.public_input();
    b.connect(y, e);
    let emb = {
        let mut c = vec![B::BF::ZERO; d];
        c[0] = state_v[rate - 1];
        B::EF::from_basis_coefficients_slice(&c).unwrap()
    };
    public.push(emb * tag::<B>(2));
    finish::<B>(name, b, Inputs { public, private: vec![], siblings: vec![] }, packing)
}

fn limbs_of<B: Backend>(st: &[B::BF; 16]) -> Vec<B::EF> {
    (0..16 / B::D)
        .map(|l| B::EF::from_basis_coefficients_slice(&st[l * B::D..(l + 1) * B::D]).unwrap())
        .collect()
}

/// Sponge chain in extension mode: a `new_start` row with 4 CTL inputs, then two rows that
/// inherit the full state from the previous row (no inputs), the last one exposing its rate.
fn sponge_chain<B: Backend>(name: &'static str, packing: TablePacking) -> Result<Box<dyn Case>, String> {
    let cfg = B::poseidon_config().ok_or("backend has no permutation")?;
    let mut b = B::new_builder();
    let ins: Vec<ExprId> = (0..4).map(|_| b.public_input()).collect();
    let e0 = b.public_input();
    let e1 = b.public_input();
    let mut st = [B::BF::ZERO; 16];
    for (i, s) in st.iter_mut().enumerate() {
        *s = B::BF::from_u64(3 + 2 * i as u64);
    }
    let mut public = limbs_of::<B>(&st);
    for row in 0..3 {
        let last = row == 2;
        let (_id, outs) = b
            .add_poseidon2_perm(&Poseidon2PermCall {
                config: cfg,
                new_start: row == 0,
                merkle_path: false,
                mmcs_bit: None,
                mmcs_bit2: None,
                inputs: if row == 0 { ins.iter().map(|x| Some(*x)).collect() } else { vec![None; 4] },
                out_ctl: vec![last, last],
                return_all_outputs: false,
                mmcs_index_sum: None,
            })
            .map_err(|e| format!("{e:?}"))?;
        st = B::perm16(st);
        if last {
            b.connect(outs[0].ok_or("out0")?, e0);
            b.connect(outs[1].ok_or("out1")?, e1);
        }
    }
    let o = limbs_of::<B>(&st);
    public.push(o[0]);
    public.push(o[1]);
    finish::<B>(name, b, Inputs { public, private: vec![], siblings: vec![] }, packing)
}

/// Sponge chain with PARTIAL absorbs (overwrite mode): a `new_start` row with 4 CTL inputs, then
/// a chained row that feeds rate limb 0 only (limb 1 and the capacity are inherited), then a
/// chained row that feeds rate limb 1 only, exposing its rate.
fn sponge_partial<B: Backend>(name: &'static str, packing: TablePacking) -> Result<Box<dyn Case>, String> {
    sponge_partial_n::<B>(name, packing, 4)
}

/// `start_fed` < 4: the `new_start` row feeds only its first `start_fed` limbs, the others are
/// un-fed (zero), as in a hash whose first chunk is shorter than the state.
fn sponge_partial_n<B: Backend>(name: &'static str, packing: TablePacking, start_fed: usize) -> Result<Box<dyn Case>, String> {
    let cfg = B::poseidon_config().ok_or("backend has no permutation")?;
    let d = B::D;
    let mut b = B::new_builder();
    let ins: Vec<ExprId> = (0..start_fed).map(|_| b.public_input()).collect();
    let x1 = b.public_input();
    let x2 = b.public_input();
    let e0 = b.public_input();
    let e1 = b.public_input();
    let mut st = [B::BF::ZERO; 16];
    for (i, s) in st.iter_mut().enumerate() {
        *s = if i < start_fed * d { B::BF::from_u64(5 + 3 * i as u64) } else { B::BF::ZERO };
    }
    let mut public: Vec<B::EF> = limbs_of::<B>(&st).into_iter().take(start_fed).collect();
    let fed: [Vec<B::BF>; 2] = [
        (0..d).map(|i| B::BF::from_u64(101 + i as u64)).collect(),
        (0..d).map(|i| B::BF::from_u64(211 + 2 * i as u64)).collect(),
    ];
    public.push(B::EF::from_basis_coefficients_slice(&fed[0]).unwrap());
    public.push(B::EF::from_basis_coefficients_slice(&fed[1]).unwrap());
    for row in 0..3 {
        let last = row == 2;
        let inputs = match row {
            0 => (0..4).map(|l| ins.get(l).copied()).collect(),
            1 => vec![Some(x1), None, None, None],
            _ => vec![None, Some(x2), None, None],
        };
        // overwrite-mode absorb: the fed limb replaces the inherited one
        if row == 1 {
            st[..d].copy_from_slice(&fed[0]);
        } else if row == 2 {
            st[d..2 * d].copy_from_slice(&fed[1]);
        }
        let (_id, outs) = b
            .add_poseidon2_perm(&Poseidon2PermCall {
                config: cfg,
                new_start: row == 0,
                merkle_path: false,
                mmcs_bit: None,
                mmcs_bit2: None,
                inputs,
                out_ctl: vec![last, last],
                return_all_outputs: false,
                mmcs_index_sum: None,
            })
            .map_err(|e| format!("{e:?}"))?;
        st = B::perm16(st);
        if last {
            b.connect(outs[0].ok_or("out0")?, e0);
            b.connect(outs[1].ok_or("out1")?, e1);
        }
    }
    let o = limbs_of::<B>(&st);
    public.push(o[0]);
    public.push(o[1]);
    finish::<B>(name, b, Inputs { public, private: vec![], siblings: vec![] }, packing)
}

/// Arity-2 Merkle path of three rows: leaf row (4 CTL inputs, direction bit 0), then two
/// chained rows whose sibling comes from private data, direction bits 1 and 0, the index
/// accumulator exposed on the last row, the root connected to publics.
fn merkle<B: Backend>(name: &'static str, packing: TablePacking) -> Result<Box<dyn Case>, String> {
    let cfg = B::poseidon_config().ok_or("backend has no permutation")?;
    let d = B::D;
    let mut b = B::new_builder();
    let leaf: Vec<ExprId> = (0..4).map(|_| b.public_input()).collect();
    let bitsx: Vec<ExprId> = (0..3).map(|_| b.public_input()).collect();
    let root0 = b.public_input();
    let root1 = b.public_input();
    let idx = b.public_input();
    let bit_vals = [0u64, 1, 0];
    let mut st = [B::BF::ZERO; 16];
    for (i, s) in st.iter_mut().enumerate() {
        *s = B::BF::from_u64(1 + i as u64);
    }
    let mut public = limbs_of::<B>(&st);
    public.extend(bit_vals.iter().map(|v| bf::<B>(*v)));
    let mut siblings = vec![];
    let mut out = B::perm16(st);
    let mut ids: Vec<NonPrimitiveOpId> = vec![];
    for row in 0..3 {
        let last = row == 2;
        let (id, outs) = b
            .add_poseidon2_perm(&Poseidon2PermCall {
                config: cfg,
                new_start: row == 0,
                merkle_path: true,
                mmcs_bit: Some(bitsx[row]),
                mmcs_bit2: None,
                inputs: if row == 0 { leaf.iter().map(|x| Some(*x)).collect() } else { vec![None; 4] },
                out_ctl: vec![last, last],
                return_all_outputs: false,
                mmcs_index_sum: if last { Some(idx) } else { None },
            })
            .map_err(|e| format!("{e:?}"))?;
        ids.push(id);
        if row > 0 {
            // sibling = 2 limbs; previous digest = out[0..2d]
            let sib: Vec<B::BF> = (0..2 * d).map(|i| B::BF::from_u64(50 + 20 * row as u64 + i as u64)).collect();
            let mut s2 = [B::BF::ZERO; 16];
            if bit_vals[row] == 1 {
                s2[..2 * d].copy_from_slice(&sib);
                s2[2 * d..4 * d].copy_from_slice(&out[..2 * d]);
            } else {
                s2[..2 * d].copy_from_slice(&out[..2 * d]);
                s2[2 * d..4 * d].copy_from_slice(&sib);
            }
            out = B::perm16(s2);
            let sl: Vec<B::EF> = (0..2)
                .map(|l| B::EF::from_basis_coefficients_slice(&sib[l * d..(l + 1) * d]).unwrap())
                .collect();
            siblings.push((id, sl));
        }
        if last {
            b.connect(outs[0].ok_or("out0")?, root0);
            b.connect(outs[1].ok_or("out1")?, root1);
        }
    }
    let o = limbs_of::<B>(&out);
    public.push(o[0]);
    public.push(o[1]);
    public.push(bf::<B>(2)); // index bits (row1 = 1, row2 = 0) -> binary 10
    finish::<B>(name, b, Inputs { public, private: vec![], siblings }, packing)
}

/// Arity-2 Merkle path whose SIBLING is witness-fed (logical input positions 2, 3 of the call)
/// instead of coming from private data: leaf row, then a chained row with direction bit 1 — the
/// executor swaps the halves, so the committed row is [sibling, running digest] and only the
/// chaining constraint ties the upper half to the previous row's output.
fn merkle_wfed<B: Backend>(name: &'static str, packing: TablePacking) -> Result<Box<dyn Case>, String> {
    let cfg = B::poseidon_config().ok_or("backend has no permutation")?;
    let d = B::D;
    let mut b = B::new_builder();
    let leaf: Vec<ExprId> = (0..4).map(|_| b.public_input()).collect();
    let bitsx: Vec<ExprId> = (0..2).map(|_| b.public_input()).collect();
    let sibx: Vec<ExprId> = (0..2).map(|_| b.public_input()).collect();
    let root0 = b.public_input();
    let root1 = b.public_input();
    let bit_vals = [0u64, 1];
    let mut st = [B::BF::ZERO; 16];
    for (i, s) in st.iter_mut().enumerate() {
        *s = B::BF::from_u64(2 + 3 * i as u64);
    }
    let mut public = limbs_of::<B>(&st);
    public.extend(bit_vals.iter().map(|v| bf::<B>(*v)));
    let mut out = B::perm16(st);
    b.add_poseidon2_perm(&Poseidon2PermCall {
        config: cfg,
        new_start: true,
        merkle_path: true,
        mmcs_bit: Some(bitsx[0]),
        mmcs_bit2: None,
        inputs: leaf.iter().map(|x| Some(*x)).collect(),
        out_ctl: vec![false, false],
        return_all_outputs: false,
        mmcs_index_sum: None,
    })
    .map_err(|e| format!("{e:?}"))?;
    let (_id1, outs1) = b
        .add_poseidon2_perm(&Poseidon2PermCall {
            config: cfg,
            new_start: false,
            merkle_path: true,
            mmcs_bit: Some(bitsx[1]),
            mmcs_bit2: None,
            inputs: vec![None, None, Some(sibx[0]), Some(sibx[1])],
            out_ctl: vec![true, true],
            return_all_outputs: false,
            mmcs_index_sum: None,
        })
        .map_err(|e| format!("{e:?}"))?;
    let sib: Vec<B::BF> = (0..2 * d).map(|i| B::BF::from_u64(70 + i as u64)).collect();
    public.extend((0..2).map(|l| B::EF::from_basis_coefficients_slice(&sib[l * d..(l + 1) * d]).unwrap()));
    let mut s2 = [B::BF::ZERO; 16];
    s2[..2 * d].copy_from_slice(&sib);
    s2[2 * d..4 * d].copy_from_slice(&out[..2 * d]);
    out = B::perm16(s2);
    b.connect(outs1[0].ok_or("out0")?, root0);
    b.connect(outs1[1].ok_or("out1")?, root1);
    let o = limbs_of::<B>(&out);
    public.push(o[0]);
    public.push(o[1]);
    finish::<B>(name, b, Inputs { public, private: vec![], siblings: vec![] }, packing)
}

/// D = 1 permutation inside a higher-degree circuit (quintic): sponge `new_start` row with
/// two CTL inputs followed by a chained row, rate outputs exposed. `connect`: the two checked
/// outputs are connected to publics (a forged trace can re-choose them, see
/// `Deviation::adapt_publics`) instead of `assert_zero(out - public)`.
fn sponge_base<B: Backend>(name: &'static str, packing: TablePacking, connect: bool) -> Result<Box<dyn Case>, String> {
    let cfg = B::poseidon_config().ok_or("backend has no permutation")?;
    let mut b = B::new_builder();
    let a = b.public_input();
    let c = b.public_input();
    let mut i0: [Option<ExprId>; 16] = [None; 16];
    i0[0] = Some(a);
    i0[1] = Some(c);
    b.add_poseidon2_perm_base(&Poseidon2PermCallBase {
        config: cfg,
        new_start: true,
        inputs: i0,
        out_ctl: [false; 8],
        return_all_outputs: false,
        absorb_len: 0,
    })
    .map_err(|e| format!("{e:?}"))?;
    let (_id, outs) = b
        .add_poseidon2_perm_base(&Poseidon2PermCallBase {
            config: cfg,
            new_start: false,
            inputs: [None; 16],
            out_ctl: [true; 8],
            return_all_outputs: false,
            absorb_len: 0,
        })
        .map_err(|e| format!("{e:?}"))?;
    let e0 = b.public_input();
    let e1 = b.public_input();
    if connect {
        b.connect(outs[0].ok_or("o0")?, e0);
        b.connect(outs[1].ok_or("o1")?, e1);
    } else {
        let d0 = b.sub(outs[0].ok_or("o0")?, e0);
        let d1 = b.sub(outs[1].ok_or("o1")?, e1);
        b.assert_zero(d0);
        b.assert_zero(d1);
    }
    let mut st = [B::BF::ZERO; 16];
    st[0] = B::BF::from_u64(11);
    st[1] = B::BF::from_u64(13);
    let o = B::perm16(B::perm16(st));
    let emb = |v: B::BF| {
        let mut c = vec![B::BF::ZERO; B::D];
        c[0] = v;
        B::EF::from_basis_coefficients_slice(&c).unwrap()
    };
    let public = vec![bf::<B>(11), bf::<B>(13), emb(o[0]), emb(o[1])];
    finish::<B>(name, b, Inputs { public, private: vec![], siblings: vec![] }, packing)
}

/// The D = 1 challenger pattern inside a higher-degree circuit (what `duplexing_base`,
/// `observe_ext` and `sample_ext` emit for the quintic configuration): a `new_start` sponge row
/// absorbing 8 publics (length tag bound in the AIR), an extension value observed through
/// `decompose_ext_to_base_coeffs` with coefficient lookups (hint + `recompose/coeff` row that
/// CREATES the coefficients on the bus), a chained second row, and an extension sample
/// recomposed from 5 rate outputs.
fn challenger_base<B: Backend>(name: &'static str, packing: TablePacking) -> Result<Box<dyn Case>, String> {
    let cfg = B::poseidon_config().ok_or("backend has no permutation")?;
    if cfg.d() != 1 {
        return Err("challenger_base needs a D=1 permutation".into());
    }
    let d = B::D;
    let emb = |v: B::BF| {
        let mut c = vec![B::BF::ZERO; d];
        c[0] = v;
        B::EF::from_basis_coefficients_slice(&c).unwrap()
    };
    let mut b = B::new_builder();
    b.set_recompose_coeff_ctl_for_decompose_links(true);
    let mut public = vec![];
    let mut st = [B::BF::ZERO; 16];
    // round 0
    let mut ins: [Option<ExprId>; 16] = [None; 16];
    for i in 0..8 {
        ins[i] = Some(b.public_input());
        st[i] = B::BF::from_u64(200 + i as u64);
        public.push(emb(st[i]));
    }
    b.add_poseidon2_perm_for_challenger_base(cfg, true, ins, 8)
        .map_err(|e| format!("{e:?}"))?;
    st[8] += B::BF::from_u64(8);
    st = B::perm16(st);
    // round 1: observe an extension element (d coefficients) + publics up to the rate
    let x = b.public_input();
    let xv = tag::<B>(17);
    public.push(xv);
    let coeffs = b.decompose_ext_to_base_coeffs::<B::BF>(x).map_err(|e| format!("{e:?}"))?;
    let mut ins: [Option<ExprId>; 16] = [None; 16];
    for i in 0..8 {
        if i < d.min(8) {
            ins[i] = Some(coeffs[i]);
            st[i] = xv.as_basis_coefficients_slice()[i];
        } else {
            ins[i] = Some(b.public_input());
            st[i] = B::BF::from_u64(300 + i as u64);
            public.push(emb(st[i]));
        }
    }
    let outs = b
        .add_poseidon2_perm_for_challenger_base(cfg, false, ins, 8)
        .map_err(|e| format!("{e:?}"))?;
    st[8] += B::BF::from_u64(8);
    st = B::perm16(st);
    // sample_ext
    let e = b
        .recompose_base_coeffs_to_ext::<B::BF>(&outs[..d])
        .map_err(|e| format!("{e:?}"))?;
    let k = b.define_const(tag::<B>(2));
    let y = b.mul(e, k);
    let exp = b.public_input();
    b.connect(y, exp);
    let ev = B::EF::from_basis_coefficients_slice(&st[..d]).unwrap();
    public.push(ev * tag::<B>(2));
    finish::<B>(name, b, Inputs { public, private: vec![], siblings: vec![] }, packing)
}

macro_rules! spec {
    ($name:literal, $b:ty, $covers:literal, $f:expr) => {
        Spec {
            name: $name,
            backend: <$b as Backend>::NAME,
            covers: $covers,
            build: || {
                let f: fn(&'static str) -> Result<Box<dyn Case>, String> = $f;
                f($name)
            },
        }
    };
}

/// The whole catalogue; `quick` marks the three circuits of the quick tier.
pub fn catalogue() -> Vec<Spec> {
    let p11 = TablePacking::default;
    vec![
        spec!("bb1-arith", BbD1, "const, public, private input, ALU Add/Mul (forward+backward)/MulAdd/BoolCheck; D=1", |n| arith::<BbD1>(n, TablePacking::default())),
        spec!("bb1-alias", BbD1, "ops whose ports share a slot (x*y+x, x*x+y, x+x, y*y, Horner with aliased operands); D=1", |n| alias::<BbD1>(n, TablePacking::default())),
        spec!("bb1-rowalias", BbD1, "Const/Public rows sharing a slot (public~const, public~public, two publics on one constant); D=1", |n| row_alias::<BbD1>(n, TablePacking::default())),
        spec!("bb4-rowalias-l2", BbD4, "the same over the quartic extension with two public lanes", |n| row_alias::<BbD4>(n, TablePacking::new(2, 1))),
        spec!("bb1-horner", BbD1, "HornerAcc chain (packed pair + single step), zero accumulator; D=1", |n| horner::<BbD1>(n, TablePacking::default())),
        spec!("bb1-horner-k3", BbD1, "3-step chain as one packed row of arity 3 = K_max", |n| horner::<BbD1>(n, TablePacking::new(1, 1).with_horner_pack_k(3))),
        spec!("bb1-horner-k4", BbD1, "3-step chain as one packed row of arity 3 < K_max = 4", |n| horner::<BbD1>(n, TablePacking::new(1, 1).with_horner_pack_k(4))),
        spec!("bb1-horner7-k4", BbD1, "7-step chain under K_max = 4: rows of arity 4 and 3", |n| horner_n::<BbD1>(n, TablePacking::new(1, 1).with_horner_pack_k(4), 7)),
        spec!("bb1-horner7-k5", BbD1, "7-step chain under K_max = 5: rows of arity 5 and 2", |n| horner_n::<BbD1>(n, TablePacking::new(1, 1).with_horner_pack_k(5), 7)),
        spec!("bb1-horner7-k3-l2", BbD1, "7-step chain under K_max = 3, two ALU lanes", |n| horner_n::<BbD1>(n, TablePacking::new(1, 2).with_horner_pack_k(3), 7)),
        spec!("bb1-bits", BbD1, "decompose_to_bits hint, BoolCheck, reconstruction; D=1", |n| bits::<BbD1>(n, TablePacking::default())),
        spec!("bb4-boolpriv", BbD4, "private input first used by assert_bool (BoolCheck row creates the slot, `a` duplicates `out` off the bus); D=4", |n| bool_priv::<BbD4>(n, TablePacking::default())),
        spec!("bb1-boolpriv", BbD1, "the same over the base field", |n| bool_priv::<BbD1>(n, TablePacking::default())),
        spec!("bb4-bits", BbD4, "decompose_to_bits hint, BoolCheck, reconstruction; D=4", |n| bits::<BbD4>(n, TablePacking::default())),
        spec!("bb4-arith", BbD4, "ALU kinds over the binomial quartic extension", |n| arith::<BbD4>(n, TablePacking::default())),
        spec!("bb4-horner", BbD4, "HornerAcc chain over the quartic extension", |n| horner::<BbD4>(n, TablePacking::default())),
        spec!("bb4-recompose", BbD4, "ext decomposition hint, plain recompose table, recompose/coeff table; D=4", |n| recompose::<BbD4>(n, TablePacking::default())),
        spec!("bb4-challenger", BbD4, "Poseidon2 D4 permutation as the challenger uses it (recompose in, hidden capacity out, decompose), one duplexing", |n| challenger::<BbD4>(n, TablePacking::default(), 1)),
        spec!("bb4-challenger2", BbD4, "two duplexings: capacity of permutation 0 feeds permutation 1", |n| challenger::<BbD4>(n, TablePacking::default(), 2)),
        spec!("bb4-sponge-chain", BbD4, "Poseidon2 D4 sponge rows chained inside the table", |n| sponge_chain::<BbD4>(n, TablePacking::default())),
        spec!("bb4-merkle", BbD4, "Poseidon2 D4 arity-2 Merkle rows: direction bits, private siblings, index accumulator", |n| merkle::<BbD4>(n, TablePacking::default())),
        spec!("bb1-arith-l2", BbD1, "public lanes 2, ALU lanes 2", |n| arith::<BbD1>(n, TablePacking::new(2, 2))),
        spec!("bb4-horner-l2k3", BbD4, "ALU lanes 2, Horner pack 3", |n| horner::<BbD4>(n, TablePacking::new(2, 2).with_horner_pack_k(3))),
        spec!("kb4-arith", KbD4, "KoalaBear quartic ALU", |n| arith::<KbD4>(n, TablePacking::default())),
        spec!("kb4-challenger", KbD4, "KoalaBear D4 challenger pattern", |n| challenger::<KbD4>(n, TablePacking::default(), 1)),
        spec!("kb4-merkle-wfed", KbD4, "arity-2 Merkle rows with a WITNESS-FED sibling: chained row, direction bit 1 (committed row = [sibling, running digest])", |n| merkle_wfed::<KbD4>(n, TablePacking::default())),
        spec!("bb4-merkle-wfed", BbD4, "the same over BabyBear", |n| merkle_wfed::<BbD4>(n, TablePacking::default())),
        spec!("kb4-merkle", KbD4, "KoalaBear D4 Merkle rows", |n| merkle::<KbD4>(n, TablePacking::default())),
        spec!("kb5-arith", KbD5, "quintic trinomial ALU", |n| arith::<KbD5>(n, TablePacking::default())),
        spec!("kb5-horner", KbD5, "quintic trinomial Horner chain", |n| horner::<KbD5>(n, TablePacking::default())),
        spec!("kb5-recompose", KbD5, "recompose + recompose/coeff tables; D=5", |n| recompose::<KbD5>(n, TablePacking::default())),
        spec!("kb5-challenger-base", KbD5, "D=1 challenger pattern in a D=5 circuit: absorb_len tag, chained capacity, recompose/coeff as creator of observed coefficients, sample_ext", |n| challenger_base::<KbD5>(n, TablePacking::default())),
        spec!("kb4-sponge-partial", KbD4, "KoalaBear D4 sponge rows with partial absorbs (one rate limb fed, the other inherited)", |n| sponge_partial::<KbD4>(n, TablePacking::default())),
        spec!("kb4-sponge-start-partial", KbD4, "same, and the new_start row feeds only its two rate limbs (un-fed capacity = zero)", |n| sponge_partial_n::<KbD4>(n, TablePacking::default(), 2)),
        spec!("kb4-sponge-start-rate1", KbD4, "same, the new_start row feeds only rate limb 0 (un-fed rate limb 1 and capacity = zero)", |n| sponge_partial_n::<KbD4>(n, TablePacking::default(), 1)),
        spec!("bb4-sponge-partial", BbD4, "BabyBear D4 sponge rows with partial absorbs", |n| sponge_partial::<BbD4>(n, TablePacking::default())),
        spec!("kb4-sponge-chain", KbD4, "KoalaBear D4 sponge rows chained inside the table", |n| sponge_chain::<KbD4>(n, TablePacking::default())),
        spec!("kb5-sponge-d1", KbD5, "D=1 Poseidon2 table in a D=5 circuit: sponge new_start + chained row", |n| sponge_base::<KbD5>(n, TablePacking::default(), false)),
        spec!("kb5-sponge-d1-connect", KbD5, "same, checked outputs connected to publics: a new_start row with un-fed rate limbs whose deviation can reach the public outputs", |n| sponge_base::<KbD5>(n, TablePacking::default(), true)),
    ]
}

/// Circuits of the quick tier, cheapest first (the budget cuts from the end).
pub const QUICK: [&str; 13] =
    ["bb1-arith", "bb1-alias", "bb1-rowalias", "bb4-boolpriv", "kb4-merkle-wfed", "bb1-horner", "bb1-horner-k4", "bb1-horner7-k4", "bb4-recompose", "bb4-challenger", "kb4-sponge-partial", "bb1-bits", "bb4-merkle"];
