//! Decoding of main-trace matrix cells by *differential execution of the repository's own
//! trace→matrix code* (no layout knowledge of the AIRs is re-implemented here).
//!
//! Three proofs are generated with the tamper hook used as a probe: the honest traces, and
//! the honest traces with EVERY numeric scalar `s_i` of `Traces` shifted by `d1(i)` resp.
//! `d2(i)` (all shifts pairwise different). A cell `x` is the *primary cell* of scalar `i`
//! iff `M0[x] = s_i`, `M1[x] = s_i + d1(i)` and `M2[x] = s_i + d2(i)`: the cell is a verbatim
//! copy of that scalar. Cells that are computed from scalars (Poseidon round states, packed
//! Horner intermediates, `b²`) change by unrelated amounts and match no scalar; cells of
//! padding rows never change.
//!
//! Permutation *output* cells (not scalars of `Traces`: the table computes them) are found by
//! value: a column of the Poseidon matrix is output element `j` iff in every real row it holds
//! `perm(inputs of that row)[j]`.

use std::collections::{BTreeMap, HashMap};

use p3_circuit::Traces;
use p3_circuit_prover::TablePacking;
use p3_field::PrimeCharacteristicRing;
use p3_matrix::dense::RowMajorMatrix;

use crate::backend::{Backend, accept_with};
use crate::fields::{self, Loc};

pub type Cell = (usize, usize, usize); // (table, row, col)

pub struct CellMap<BF> {
    /// honest main-trace matrices as handed to `prove_batch`
    pub honest: Vec<RowMajorMatrix<BF>>,
    /// cell -> the scalar it copies
    pub primary: HashMap<Cell, Loc>,
    /// scalar -> its cells (empty = the scalar never reaches a matrix: not committed)
    pub cells_of: BTreeMap<Loc, Vec<Cell>>,
    /// permutation output cells: cell -> (perm row, output element j)
    pub pos_out: HashMap<Cell, (usize, usize)>,
    /// table names per matrix index
    pub tables: Vec<String>,
}

impl<BF> CellMap<BF> {
    pub fn committed(&self, loc: &Loc) -> bool {
        self.cells_of.get(loc).is_some_and(|c| !c.is_empty())
    }
    pub fn total_cells(&self) -> usize
    where
        BF: Clone + Send + Sync,
    {
        self.honest.iter().map(|m| m.values.len()).sum()
    }
}

fn is_flag(l: &Loc) -> bool {
    matches!(l, Loc::PosFlag { .. })
}

pub fn build<B: Backend>(
    prepared: &B::Prepared,
    packing: &TablePacking,
    honest: &Traces<B::EF>,
) -> Result<CellMap<B::BF>, String> {
    let run0 = accept_with::<B>(prepared, packing, honest, &[], true);
    if !run0.verdict.accepted() {
        return Err(format!("honest traces not accepted: {}", run0.verdict.long()));
    }
    let m0 = run0.matrices.ok_or("no matrices captured (hook not compiled in?)")?;

    let locs: Vec<Loc> = fields::all_locs::<B>(honest)
        .into_iter()
        .filter(|l| !is_flag(l))
        .collect();
    let n = locs.len() as u64;
    let d1 = |i: usize| B::BF::from_u64(1 + i as u64);
    let d2 = |i: usize| B::BF::from_u64(n + 11 + 3 * i as u64);
    let mut t1 = honest.clone();
    let mut t2 = honest.clone();
    for (i, l) in locs.iter().enumerate() {
        fields::add::<B>(&mut t1, l, d1(i));
        fields::add::<B>(&mut t2, l, d2(i));
    }
    let m1 = accept_with::<B>(prepared, packing, &t1, &[], true)
        .matrices
        .ok_or("probe 1: no matrices")?;
    let m2 = accept_with::<B>(prepared, packing, &t2, &[], true)
        .matrices
        .ok_or("probe 2: no matrices")?;
    if m1.len() != m0.len() || m2.len() != m0.len() {
        return Err("probe changed the number of tables".into());
    }

    // index scalars by (honest value, shifted value) for O(1) matching
    let mut by_vals: HashMap<(B::BF, B::BF, B::BF), Vec<usize>> = HashMap::new();
    for (i, l) in locs.iter().enumerate() {
        let v = fields::get::<B>(honest, l).ok_or("loc vanished")?;
        by_vals
            .entry((v, v + d1(i), v + d2(i)))
            .or_default()
            .push(i);
    }
    let mut primary: HashMap<Cell, Loc> = HashMap::new();
    let mut cells_of: BTreeMap<Loc, Vec<Cell>> = locs.iter().map(|l| (l.clone(), vec![])).collect();
    for (t, m) in m0.iter().enumerate() {
        if m1[t].values.len() != m.values.len() || m2[t].values.len() != m.values.len() {
            return Err(format!("probe changed the shape of table {t}"));
        }
        for (k, v0) in m.values.iter().enumerate() {
            let key = (*v0, m1[t].values[k], m2[t].values[k]);
            if key.0 == key.1 {
                continue; // cell did not move: not a copy of any scalar
            }
            if let Some(is) = by_vals.get(&key) {
                if is.len() != 1 {
                    return Err(format!("cell ({t},{k}) matches {} scalars", is.len()));
                }
                let cell = (t, k / m.width, k % m.width);
                let l = locs[is[0]].clone();
                cells_of.get_mut(&l).unwrap().push(cell);
                primary.insert(cell, l);
            }
        }
    }

    // table names: fixed for the primitives, by landing scalars for the rest
    let mut tables: Vec<String> = (0..m0.len())
        .map(|t| match t {
            0 => "const".to_string(),
            1 => "public".to_string(),
            2 => "alu".to_string(),
            _ => format!("npo{t}"),
        })
        .collect();
    for ((t, _, _), l) in &primary {
        if *t >= 3 {
            tables[*t] = l.table().to_string();
        }
        let expect = l.table();
        if *t < 3 && tables[*t] != expect {
            return Err(format!("scalar {l:?} landed in table {t}"));
        }
    }

    // permutation outputs by value
    let mut pos_out = HashMap::new();
    if let Some(p) = fields::poseidon_rows::<B>(honest) {
        let mut tix = None;
        let mut mrow_of = vec![None; p.operations.len()];
        for ((t, r, _), l) in &primary {
            if let Loc::PosIn { row, j: 0 } = l {
                tix = Some(*t);
                mrow_of[*row] = Some(*r);
            }
        }
        if let Some(t) = tix {
            let m = &m0[t];
            let outs: Vec<[B::BF; 16]> = p
                .operations
                .iter()
                .map(|op| {
                    let mut x = [B::BF::ZERO; 16];
                    for (k, v) in op.input_values.iter().take(16).enumerate() {
                        x[k] = *v;
                    }
                    B::perm16(x)
                })
                .collect();
            if mrow_of.iter().all(|r| r.is_some()) && !outs.is_empty() {
                for c in 0..m.width {
                    for j in 0..16 {
                        let all = (0..outs.len())
                            .all(|r| m.values[mrow_of[r].unwrap() * m.width + c] == outs[r][j]);
                        if all {
                            for r in 0..outs.len() {
                                pos_out.insert((t, mrow_of[r].unwrap(), c), (r, j));
                            }
                        }
                    }
                }
            }
        }
    }

    Ok(CellMap {
        honest: m0,
        primary,
        cells_of,
        pos_out,
        tables,
    })
}
