//! `forge`: re-execution of `Circuit::ops` WITHOUT the runner's conflict checks.
//!
//! The executor mirrors `CircuitRunner::execute_all` op by op, but
//!  * a slot keeps the FIRST value written to it; a later writer that computes a different
//!    value simply records its own value in its own row (no `WitnessConflict`),
//!  * every table row is filled from the row's own relation applied to the values the row
//!    reads (so a deviation propagates forward),
//!  * deviations chosen by the caller are applied on the way:
//!      - `slot`  (fault class F2): the value stored in a slot at its definition (public /
//!        private input, constant, hint output, ALU result, NPO output — exposed or not) is
//!        replaced; the defining row carries the replaced value, everything downstream is
//!        recomputed from it,
//!      - `port`  (fault class F4): ONE port of ONE op reads `value + delta` while every
//!        other row keeps the shared value; the op's result is computed from the deviated
//!        value and propagated,
//!      - `sibling` : private data of a non-primitive op (Merkle sibling limbs),
//!      - `inherited` (fault class F5): ONE input limb of ONE permutation row that is NOT fed
//!        from a witness slot (it inherits the previous row's output inside the table) takes a
//!        value chosen by the prover; the row is computed by the repository's executor from
//!        that value, its outputs go to the chain state (following rows inherit them), to the
//!        slots fed by `out_ctl` and from there to every dependent op.
//!  * real NPO executors are called through the public `ExecutionContext` on a scratch
//!    view of the witness, and real trace generators build the NPO traces, so NPO rows are
//!    recorded by the repository's own code.

use std::collections::BTreeMap;

use hashbrown::HashMap;
use p3_circuit::ops::{ExecutionContext, NpoPrivateData, NpoTypeId, Op, Poseidon2PermPrivateData};
use p3_circuit::tables::{AluTrace, ConstTrace, NonPrimitiveTrace, PublicTrace, WitnessTrace};
use p3_circuit::{AluOpKind, Circuit, NonPrimitiveOpId, Traces, WitnessId};
use p3_field::Field;

/// Inputs of one execution.
#[derive(Clone, Debug, Default)]
pub struct Inputs<F> {
    pub public: Vec<F>,
    pub private: Vec<F>,
    /// Merkle-mode private data: (op id, sibling limbs)
    pub siblings: Vec<(NonPrimitiveOpId, Vec<F>)>,
}

#[derive(Clone, Copy, Debug, PartialEq, Eq)]
pub enum Change<F> {
    Add(F),
    Set(F),
}

impl<F: Field> Change<F> {
    pub fn apply(&self, v: F) -> F {
        match self {
            Change::Add(d) => v + *d,
            Change::Set(x) => *x,
        }
    }
}

/// A port of an op as the op list names it.
#[derive(Clone, Copy, Debug, PartialEq, Eq, Hash, PartialOrd, Ord)]
pub enum Port {
    A,
    B,
    C,
    Out,
    /// accumulator of a HornerAcc op (`intermediate_out`)
    Acc,
    /// NPO input: group g, element e of `inputs`
    In(usize, usize),
}

/// Element index that marks `Port::In(limb, INHERITED)`: the input limb `limb` of a permutation
/// row that has NO witness slot (empty input group) — the value the row inherits from the
/// previous row of its chain. (A marker instead of a new `Port` variant: check crates match
/// `Port` and `Fault` exhaustively.)
pub const INHERITED: usize = usize::MAX;

impl Port {
    pub fn name(&self) -> String {
        match self {
            Port::A => "a".into(),
            Port::B => "b".into(),
            Port::C => "c".into(),
            Port::Out => "out".into(),
            Port::Acc => "acc".into(),
            Port::In(g, e) if *e == INHERITED => format!("in{g}.inherited"),
            Port::In(g, e) => format!("in{g}.{e}"),
        }
    }
}

#[derive(Clone, Debug, Default)]
pub struct Deviation<F> {
    /// slot -> change applied when the slot is defined (first write)
    pub slots: Vec<(WitnessId, Change<F>)>,
    /// (index into `circuit.ops`, port) -> change of the value this op reads there
    pub ports: Vec<(usize, Port, Change<F>)>,
    /// (op id, limb index) -> change of a private sibling limb
    pub siblings: Vec<(NonPrimitiveOpId, usize, Change<F>)>,
    /// (index into `circuit.ops`, input limb, value): the slot-less input limb (empty input
    /// group) of this permutation op takes `value` instead of what the row would inherit from
    /// its chain (or instead of the zero of a `new_start` row). Limb = index into the op's
    /// `inputs`, i.e. the executor's state position BEFORE a Merkle direction swap.
    /// Carried out by handing the executor a scratch slot holding `value` for that limb: the
    /// repository's own code overwrites the inherited state element, permutes, records the row,
    /// writes the outputs and advances the chain. The recorded row then names the scratch slot
    /// (`in_ctl`, `input_indices`); callers restore those two fields from the honest row (they
    /// feed preprocessed columns, which the verifier fixes from the circuit anyway).
    pub inherited: Vec<(usize, usize, F)>,
    /// Let the propagation reach *public outputs*: a public input slot that a later op also
    /// computes (`connect(result, public)`) is re-chosen by the prover to equal the computed
    /// value (the verifier is not given public values: they are committed by the prover
    /// like everything else). Implemented by re-execution until no public slot conflicts.
    pub adapt_publics: bool,
}

impl<F> Deviation<F> {
    pub fn none() -> Self {
        Deviation {
            slots: vec![],
            ports: vec![],
            siblings: vec![],
            inherited: vec![],
            adapt_publics: false,
        }
    }
}

/// Everything an execution produced.
pub struct Executed<F> {
    pub traces: Traces<F>,
    /// final slot values (None = never written)
    pub witness: Vec<Option<F>>,
    /// writers that computed a value different from the one already stored
    pub conflicts: usize,
    /// inputs actually used (public values possibly adapted, see `Deviation::adapt_publics`)
    pub inputs: Inputs<F>,
}

struct St<'a, F> {
    w: Vec<Option<F>>,
    dev: &'a Deviation<F>,
    conflicts: usize,
    /// (slot, value computed by a later writer)
    late: Vec<(WitnessId, F)>,
}

impl<'a, F: Field> St<'a, F> {
    /// First writer wins (with the slot deviation applied); returns the value the writing
    /// row records: the stored value if this call defined the slot, else its own `v`.
    fn define(&mut self, s: WitnessId, v: F) -> F {
        let i = s.0 as usize;
        if i >= self.w.len() {
            self.w.resize(i + 1, None);
        }
        match self.w[i] {
            None => {
                let mut x = v;
                for (ws, ch) in &self.dev.slots {
                    if *ws == s {
                        x = ch.apply(x);
                    }
                }
                self.w[i] = Some(x);
                x
            }
            Some(old) => {
                if old != v {
                    self.conflicts += 1;
                    self.late.push((s, v));
                }
                v
            }
        }
    }
    fn get(&self, s: WitnessId) -> Option<F> {
        self.w.get(s.0 as usize).copied().flatten()
    }
    fn port_change(&self, op: usize, p: Port) -> Option<Change<F>> {
        self.dev
            .ports
            .iter()
            .find(|(o, q, _)| *o == op && *q == p)
            .map(|(_, _, c)| *c)
    }
    /// value op `op` reads at port `p` (slot `s`), with the port deviation applied
    fn read(&self, op: usize, p: Port, s: WitnessId) -> Result<F, String> {
        let v = self
            .get(s)
            .ok_or_else(|| format!("slot w{} unset at op {op} port {}", s.0, p.name()))?;
        Ok(match self.port_change(op, p) {
            Some(c) => c.apply(v),
            None => v,
        })
    }
}

/// Executes the circuit. `Err` = the deviation cannot be carried out (e.g. a division by
/// zero appears, an executor refuses its inputs): the fault is *inapplicable*, not a verdict.
pub fn execute<F: Field>(
    circuit: &Circuit<F>,
    inputs: &Inputs<F>,
    dev: &Deviation<F>,
) -> Result<Executed<F>, String> {
    let mut inputs = inputs.clone();
    for _round in 0..6 {
        let (ex, late) = execute_once(circuit, &inputs, dev)?;
        if !dev.adapt_publics {
            return Ok(ex);
        }
        let mut changed = false;
        for (slot, v) in &late {
            if let Some(i) = circuit.public_rows.iter().position(|s| s == slot) {
                // undo the slot deviation (it is re-applied on the next round)
                let mut target = *v;
                for (ws, ch) in &dev.slots {
                    if ws == slot {
                        target = match ch {
                            Change::Add(d) => target - *d,
                            Change::Set(_) => target,
                        };
                    }
                }
                if inputs.public[i] != target {
                    inputs.public[i] = target;
                    changed = true;
                }
            }
        }
        if !changed {
            return Ok(ex);
        }
    }
    let (ex, _) = execute_once(circuit, &inputs, dev)?;
    Ok(ex)
}

fn execute_once<F: Field>(
    circuit: &Circuit<F>,
    inputs: &Inputs<F>,
    dev: &Deviation<F>,
) -> Result<(Executed<F>, Vec<(WitnessId, F)>), String> {
    if inputs.public.len() != circuit.public_flat_len
        || circuit.public_rows.len() != circuit.public_flat_len
    {
        return Err("public input length mismatch".into());
    }
    if inputs.private.len() != circuit.private_flat_len
        || circuit.private_input_rows.len() != circuit.private_flat_len
    {
        return Err("private input length mismatch".into());
    }
    let mut st = St {
        w: vec![None; circuit.witness_count as usize],
        dev,
        conflicts: 0,
        late: vec![],
    };
    for (i, v) in inputs.public.iter().enumerate() {
        st.define(circuit.public_rows[i], *v);
    }
    for (i, v) in inputs.private.iter().enumerate() {
        st.define(circuit.private_input_rows[i], *v);
    }

    // private data table indexed by op id (as the runner keeps it)
    let n_ids = circuit
        .ops
        .iter()
        .filter_map(|op| match op {
            Op::NonPrimitiveOpWithExecutor { op_id, .. } => Some(op_id.0 as usize + 1),
            _ => None,
        })
        .max()
        .unwrap_or(0);
    let mut private_data: Vec<Option<NpoPrivateData>> = Vec::new();
    private_data.resize_with(n_ids, || None);
    for (id, sib) in &inputs.siblings {
        let mut sib = sib.clone();
        for (did, limb, ch) in &dev.siblings {
            if did == id && *limb < sib.len() {
                sib[*limb] = ch.apply(sib[*limb]);
            }
        }
        if (id.0 as usize) < n_ids {
            private_data[id.0 as usize] =
                Some(NpoPrivateData::new(Poseidon2PermPrivateData { sibling: sib }));
        }
    }
    let mut op_states = BTreeMap::new();

    let mut const_index = vec![];
    let mut const_values = vec![];
    let mut public_index = vec![];
    let mut public_values = vec![];
    let mut alu_kind = vec![];
    let mut alu_values: Vec<[F; 4]> = vec![];
    let mut alu_indices: Vec<[WitnessId; 4]> = vec![];

    for (oi, op) in circuit.ops.iter().enumerate() {
        match op {
            Op::Const { out, val } => {
                let rec = st.define(*out, *val);
                const_index.push(*out);
                const_values.push(rec);
            }
            Op::Public { out, .. } => {
                let v = st
                    .get(*out)
                    .ok_or_else(|| format!("public slot w{} unset", out.0))?;
                public_index.push(*out);
                public_values.push(v);
            }
            Op::Alu {
                kind,
                a,
                b,
                c,
                out,
                intermediate_out,
            } => {
                let c_index = c.unwrap_or(WitnessId(0));
                let rec: [F; 4] = match kind {
                    AluOpKind::Add | AluOpKind::Mul => {
                        let av = st.read(oi, Port::A, *a)?;
                        if st.get(*b).is_some() {
                            let bv = st.read(oi, Port::B, *b)?;
                            let r = if *kind == AluOpKind::Add {
                                av + bv
                            } else {
                                av * bv
                            };
                            let o = st.define(*out, r);
                            [av, bv, F::ZERO, o]
                        } else {
                            // backward form: `out` is given, the row solves for b
                            let ov = st.read(oi, Port::Out, *out)?;
                            let r = if *kind == AluOpKind::Add {
                                ov - av
                            } else {
                                ov * av.try_inverse().ok_or("division by zero")?
                            };
                            let bv = st.define(*b, r);
                            [av, bv, F::ZERO, ov]
                        }
                    }
                    AluOpKind::BoolCheck => {
                        let av = st.read(oi, Port::A, *a)?;
                        let o = st.define(*out, av);
                        [av, F::ZERO, av, o]
                    }
                    AluOpKind::MulAdd => {
                        let av = st.read(oi, Port::A, *a)?;
                        let bv = st.read(oi, Port::B, *b)?;
                        let ab = av * bv;
                        if let Some(io) = intermediate_out {
                            st.define(*io, ab);
                        }
                        let cv = match c {
                            Some(cid) => st.read(oi, Port::C, *cid)?,
                            None => F::ZERO,
                        };
                        let o = st.define(*out, ab + cv);
                        [av, bv, cv, o]
                    }
                    AluOpKind::HornerAcc => {
                        let acc_id = intermediate_out.ok_or("HornerAcc without acc")?;
                        let cid = c.ok_or("HornerAcc without c")?;
                        let accv = st.read(oi, Port::Acc, acc_id)?;
                        let av = st.read(oi, Port::A, *a)?;
                        let bv = st.read(oi, Port::B, *b)?;
                        let cv = st.read(oi, Port::C, cid)?;
                        let o = st.define(*out, accv * bv + cv - av);
                        [av, bv, cv, o]
                    }
                };
                alu_kind.push(*kind);
                alu_values.push(rec);
                alu_indices.push([*a, *b, c_index, *out]);
            }
            Op::Hint {
                inputs: hin,
                outputs: hout,
                executor,
            } => {
                for s in hin {
                    if st.get(*s).is_none() {
                        return Err(format!("hint input w{} unset", s.0));
                    }
                }
                // run on a scratch copy with the outputs cleared (executors refuse to overwrite)
                let mut scratch = st.w.clone();
                for s in hout {
                    if (s.0 as usize) < scratch.len() {
                        scratch[s.0 as usize] = None;
                    }
                }
                executor
                    .execute(hin, hout, &mut scratch)
                    .map_err(|e| format!("hint: {e:?}"))?;
                for s in hout {
                    if let Some(v) = scratch.get(s.0 as usize).copied().flatten() {
                        st.define(*s, v);
                    }
                }
            }
            Op::NonPrimitiveOpWithExecutor {
                inputs: nin,
                outputs: nout,
                executor,
                op_id,
            } => {
                let mut scratch = st.w.clone();
                for (g, grp) in nin.iter().enumerate() {
                    for (e, s) in grp.iter().enumerate() {
                        // the release-profile context reads with `unwrap_unchecked`
                        let v = st
                            .get(*s)
                            .ok_or_else(|| format!("NPO input w{} unset", s.0))?;
                        if let Some(ch) = st.port_change(oi, Port::In(g, e)) {
                            scratch[s.0 as usize] = Some(ch.apply(v));
                        }
                    }
                }
                for grp in nout {
                    for s in grp {
                        if (s.0 as usize) < scratch.len() {
                            scratch[s.0 as usize] = None;
                        }
                    }
                }
                // F5: a slot-less limb takes a prover-chosen value through a scratch slot
                let mut nin_dev: Option<Vec<Vec<WitnessId>>> = None;
                for (o, limb, v) in &st.dev.inherited {
                    if *o != oi {
                        continue;
                    }
                    if !nin.get(*limb).is_some_and(|g| g.is_empty()) {
                        return Err(format!("op {oi}: input limb {limb} is not slot-less"));
                    }
                    let id = WitnessId(scratch.len() as u32);
                    scratch.push(Some(*v));
                    nin_dev.get_or_insert_with(|| nin.clone())[*limb] = vec![id];
                }
                let nin: &Vec<Vec<WitnessId>> = nin_dev.as_ref().unwrap_or(nin);
                {
                    let mut ctx = ExecutionContext::new(
                        &mut scratch,
                        &private_data,
                        &circuit.enabled_ops,
                        *op_id,
                        &mut op_states,
                    );
                    executor
                        .execute(nin, nout, &mut ctx)
                        .map_err(|e| format!("npo {}: {e:?}", executor.op_type()))?;
                }
                for grp in nout {
                    for s in grp {
                        if let Some(v) = scratch.get(s.0 as usize).copied().flatten() {
                            st.define(*s, v);
                        }
                    }
                }
            }
        }
    }

    // slots dropped by ALU de-duplication are filled from their canonical slot
    if let Some(rewrite) = &circuit.witness_rewrite {
        for (dup, canon) in rewrite {
            let mut cur = *canon;
            let mut guard = 0;
            while let Some(n) = rewrite.get(&cur) {
                cur = *n;
                guard += 1;
                if guard > rewrite.len() + 1 {
                    break;
                }
            }
            if let Some(v) = st.get(cur) {
                st.define(*dup, v);
            }
        }
    }

    if alu_kind.is_empty() {
        // the runner's dummy row
        alu_kind.push(AluOpKind::Add);
        alu_values.push([F::ZERO; 4]);
        alu_indices.push([WitnessId(0); 4]);
    }

    let mut non_primitive_traces: HashMap<NpoTypeId, Box<dyn NonPrimitiveTrace<F>>> =
        HashMap::new();
    for op_type in &circuit.non_primitive_trace_generator_order {
        let generator = &circuit.non_primitive_trace_generators[op_type];
        if let Some(t) = generator(&op_states).map_err(|e| format!("trace gen: {e:?}"))? {
            non_primitive_traces.insert(t.op_type(), t);
        }
    }

    let witness_trace =
        WitnessTrace::new(st.w.iter().map(|v| v.unwrap_or(F::ZERO)).collect::<Vec<_>>());
    let late = std::mem::take(&mut st.late);
    Ok((Executed {
        traces: Traces {
            witness_trace,
            const_trace: ConstTrace {
                index: const_index,
                values: const_values,
            },
            public_trace: PublicTrace {
                index: public_index,
                values: public_values,
            },
            alu_trace: AluTrace {
                op_kind: alu_kind,
                values: alu_values,
                indices: alu_indices,
            },
            non_primitive_traces,
            tag_to_witness: circuit.tag_to_witness.clone(),
        },
        witness: st.w,
        conflicts: st.conflicts,
        inputs: inputs.clone(),
    }, late))
}

/// The repository's own runner (honest execution; errors as strings).
pub fn run_real<F: Field>(circuit: &Circuit<F>, inputs: &Inputs<F>) -> Result<Traces<F>, String> {
    let mut r = circuit.runner();
    r.set_public_inputs(&inputs.public)
        .map_err(|e| format!("{e:?}"))?;
    r.set_private_inputs(&inputs.private)
        .map_err(|e| format!("{e:?}"))?;
    for (id, sib) in &inputs.siblings {
        r.set_private_data(
            *id,
            NpoPrivateData::new(Poseidon2PermPrivateData {
                sibling: sib.clone(),
            }),
        )
        .map_err(|e| format!("{e:?}"))?;
    }
    r.run().map_err(|e| format!("{e:?}"))
}
