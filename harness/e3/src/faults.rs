//! Single faults of classes F1–F5 on a fixture: exhaustive enumeration, application,
//! classification (table / role for keys and histograms) and evaluation
//! (`violation ⇔ accepted ∧ ¬reference-predicate`).

use p3_circuit::ops::Op;
use p3_circuit::{AluOpKind, NonPrimitiveOpId, Traces, WitnessId};
use p3_field::{BasedVectorSpace, PrimeCharacteristicRing};
use serde_json::{Value, json};

use crate::backend::{Backend, CellEdit, Verdict};
use crate::exec::{Change, Deviation, INHERITED, Inputs, Port};
use crate::fields::{self, Loc};
use crate::fixture::{Definer, Fixture};
use crate::predicate::{Pred, alu_used_ports};

#[derive(Clone, Debug, PartialEq, Eq)]
pub enum Fault {
    /// one main-trace matrix cell += 1 (hook H4)
    F1 { table: usize, row: usize, col: usize },
    /// slot value changed at its definition, everything downstream recomputed.
    /// `unit` = basis element the +1 is applied to (0 = the base-field unit);
    /// `unit >= BUS_ONLY`: bus-visible form, see `F3`
    F2 { slot: u32, unit: usize },
    /// private sibling limb of a Merkle-mode permutation changed, downstream recomputed
    F2Sibling { op_id: u32, limb: usize },
    /// slot value +1 in every row scalar that mentions it, nothing recomputed.
    ///
    /// `unit >= BUS_ONLY` is the *bus-visible* form (unit = `unit - BUS_ONLY`): input ports of
    /// an ALU row that name the same slot as the row's own `out` keep their honest value.
    /// Such a port duplicates `out` inside the row; when the row creates the slot the
    /// duplicate is off the bus, so only the row's own constraints tie it to the witness.
    F3 { slot: u32, unit: usize },
    /// one input port of one op reads value+1; the op's result is recomputed and propagated.
    ///
    /// Class **F5** is carried by this variant with `port = Port::In(limb, INHERITED)` (see
    /// [`Fault::f5`]; a marker rather than a new variant because check crates match `Fault`
    /// exhaustively): input limb `limb` of permutation op `op` has NO witness slot — the row
    /// inherits it from the previous row of its chain inside the table (sponge: every un-fed
    /// limb of a chained row; arity-2 Merkle: the running digest; `new_start` sponge rows: the
    /// zero of an un-fed limb). The limb takes value+1 (coefficient `unit`), the row is
    /// re-executed by the repository's executor from the deviated state, and its outputs are
    /// propagated: rows that inherit from it, slots fed by `out_ctl`, dependent ops.
    F4 { op: usize, port: Port, unit: usize },
}

/// marker added to the unit of an F3 fault for its bus-visible form
pub const BUS_ONLY: usize = 1000;
/// marker of the *compensated* form of F2 on an ALU result: `unit = COMP + 100*port + 10*neg + u`.
/// The slot takes value + unit(u) with everything downstream recomputed, and the UNUSED operand
/// cell `port` of the defining ALU row (a cell the op kind does not read: off the bus, meant to
/// be irrelevant) takes honest ± unit(u). The defining row's relation is violated either way;
/// a sound AIR must not let an unused cell absorb the difference.
pub const COMP: usize = 2000;

impl Fault {
    /// class F5: slot-less (inherited) input limb `limb` of permutation op `op` += basis unit
    pub fn f5(op: usize, limb: usize, unit: usize) -> Fault {
        Fault::F4 { op, port: Port::In(limb, INHERITED), unit }
    }
    /// `(op, limb, unit)` if this is a class-F5 fault
    pub fn as_f5(&self) -> Option<(usize, usize, usize)> {
        match self {
            Fault::F4 { op, port: Port::In(limb, e), unit } if *e == INHERITED => Some((*op, *limb, *unit)),
            _ => None,
        }
    }
    pub fn class(&self) -> &'static str {
        if self.as_f5().is_some() {
            return "F5";
        }
        match self {
            Fault::F1 { .. } => "F1",
            Fault::F2 { .. } | Fault::F2Sibling { .. } => "F2",
            Fault::F3 { .. } => "F3",
            Fault::F4 { .. } => "F4",
        }
    }
    pub fn to_json(&self) -> Value {
        if let Some((op, limb, unit)) = self.as_f5() {
            return json!({"class":"F5","op":op,"limb":limb,"unit":unit});
        }
        match self {
            Fault::F1 { table, row, col } => json!({"class":"F1","table":table,"row":row,"col":col}),
            Fault::F2 { slot, unit } => json!({"class":"F2","slot":slot,"unit":unit}),
            Fault::F2Sibling { op_id, limb } => json!({"class":"F2S","op_id":op_id,"limb":limb}),
            Fault::F3 { slot, unit } => json!({"class":"F3","slot":slot,"unit":unit}),
            Fault::F4 { op, port, unit } => {
                let (p, g, e) = match port {
                    Port::A => ("a", 0, 0),
                    Port::B => ("b", 0, 0),
                    Port::C => ("c", 0, 0),
                    Port::Out => ("out", 0, 0),
                    Port::Acc => ("acc", 0, 0),
                    Port::In(g, e) => ("in", *g, *e),
                };
                json!({"class":"F4","op":op,"port":p,"g":g,"e":e,"unit":unit})
            }
        }
    }
    pub fn from_json(v: &Value) -> Option<Fault> {
        let u = |k: &str| v.get(k).and_then(|x| x.as_u64()).map(|x| x as usize);
        Some(match v.get("class")?.as_str()? {
            "F1" => Fault::F1 {
                table: u("table")?,
                row: u("row")?,
                col: u("col")?,
            },
            "F2" => Fault::F2 {
                slot: u("slot")? as u32,
                unit: u("unit")?,
            },
            "F2S" => Fault::F2Sibling {
                op_id: u("op_id")? as u32,
                limb: u("limb")?,
            },
            "F3" => Fault::F3 {
                slot: u("slot")? as u32,
                unit: u("unit")?,
            },
            "F5" => Fault::f5(u("op")?, u("limb")?, u("unit")?),
            "F4" => Fault::F4 {
                op: u("op")?,
                port: match v.get("port")?.as_str()? {
                    "a" => Port::A,
                    "b" => Port::B,
                    "c" => Port::C,
                    "out" => Port::Out,
                    "acc" => Port::Acc,
                    "in" => Port::In(u("g")?, u("e")?),
                    _ => return None,
                },
                unit: u("unit")?,
            },
            _ => return None,
        })
    }
}

/// Coarse, stable description of where a fault sits: used for keys and histograms.
#[derive(Clone, Debug, PartialEq, Eq)]
pub struct Site {
    pub class: &'static str,
    /// table / op kind: `const`, `public`, `alu`, `recompose`, `recompose/coeff`,
    /// `poseidon2_perm/<variant>`, `hint`, `private-input`
    pub table: String,
    /// port role, e.g. `value`, `MulAdd.out`, `HornerAcc.acc`, `coeff-input`, `hidden-output`
    pub role: String,
}

impl Site {
    /// canonical key of a violation at this site
    pub fn key(&self) -> String {
        format!(
            "accepted:{}:{}:{}",
            self.class,
            crate::backend::key_table(&self.table),
            self.role
        )
    }
}

#[derive(Clone, Debug)]
pub struct Outcome {
    pub site: Site,
    /// None: the fault could not be applied (executor refused); not a verdict
    pub verdict: Option<Verdict>,
    pub pred: Pred,
    /// the forged traces are scalar-identical to the honest ones (nothing to prove)
    pub noop: bool,
    pub note: String,
}

impl Outcome {
    /// violation ⇔ accepted ∧ ¬predicate
    pub fn violation(&self) -> bool {
        self.verdict.as_ref().is_some_and(|v| v.accepted()) && self.pred.fails()
    }
    /// canonical key of this outcome as a violation: site + the clause that is false
    pub fn key(&self) -> String {
        match &self.pred {
            Pred::Fails(c) => format!("{}:{}", self.site.key(), c.kind),
            _ => self.site.key(),
        }
    }
}

fn unit<B: Backend>(u: usize) -> B::EF {
    let mut c = vec![B::BF::ZERO; B::D];
    c[u.min(B::D - 1)] = B::BF::ONE;
    B::EF::from_basis_coefficients_slice(&c).expect("limbs")
}

fn alu_kind_name(k: AluOpKind) -> &'static str {
    match k {
        AluOpKind::Add => "Add",
        AluOpKind::Mul => "Mul",
        AluOpKind::BoolCheck => "BoolCheck",
        AluOpKind::MulAdd => "MulAdd",
        AluOpKind::HornerAcc => "HornerAcc",
    }
}

impl<B: Backend> Fixture<B> {
    fn op_table(&self, oi: usize) -> String {
        match &self.circuit.ops[oi] {
            Op::Const { .. } => "const".into(),
            Op::Public { .. } => "public".into(),
            Op::Alu { .. } => "alu".into(),
            Op::Hint { .. } => "hint".into(),
            Op::NonPrimitiveOpWithExecutor { executor, .. } => executor.op_type().as_str().to_string(),
        }
    }

    /// Row of the permutation table that op `oi` produces (rows are recorded in op order).
    fn perm_row_of_op(&self, oi: usize) -> Option<usize> {
        let Op::NonPrimitiveOpWithExecutor { executor, .. } = self.circuit.ops.get(oi)? else {
            return None;
        };
        if Some(executor.op_type()) != crate::backend::poseidon_op_type::<B>().as_ref() {
            return None;
        }
        Some(
            self.circuit.ops[..oi]
                .iter()
                .filter(|o| matches!(o, Op::NonPrimitiveOpWithExecutor { executor: e, .. } if e.op_type() == executor.op_type()))
                .count(),
        )
    }

    /// Slot-less input limbs of permutation op `oi` whose value the TABLE must fix (class F5):
    /// `(limb, committed position, role)`. `limb` indexes the op's `inputs` (executor state
    /// before a Merkle direction swap), `position` the limb of the committed row.
    ///  * chained sponge row: every un-fed limb inherits the previous output (rate and capacity),
    ///  * chained arity-2 Merkle row: un-fed limbs below `rate_ext` are the running digest; the
    ///    other half is the private sibling (class F2, a free choice of the prover) — skipped,
    ///  * `new_start` sponge row: an un-fed limb is zero (plus the absorb-length tag on D=1 rows),
    ///  * `new_start` Merkle rows and arity-4 shapes (not in any backend): none.
    fn slotless_limbs(&self, oi: usize) -> Vec<(usize, usize, &'static str)> {
        let Some(row) = self.perm_row_of_op(oi) else {
            return vec![];
        };
        let (Some(cfg), Some(r)) = (
            B::poseidon_config(),
            fields::poseidon_rows::<B>(&self.honest).and_then(|p| p.operations.get(row)),
        ) else {
            return vec![];
        };
        let Op::NonPrimitiveOpWithExecutor { inputs, .. } = &self.circuit.ops[oi] else {
            return vec![];
        };
        if cfg.is_arity4_shape() || (r.merkle_path && r.new_start) {
            return vec![];
        }
        let (we, re) = (cfg.width_ext(), cfg.rate_ext());
        let limbs = if cfg.d() == 1 { cfg.width() } else { we };
        let mut v = vec![];
        for l in 0..limbs.min(inputs.len()) {
            if !inputs[l].is_empty() {
                continue;
            }
            if r.merkle_path {
                if l >= re {
                    continue;
                }
                let pos = if r.mmcs_bit && we == 2 * re { l + re } else { l };
                v.push((l, pos, "inherited-input[merkle]"));
            } else if r.new_start {
                // three designs: nothing ties an un-fed rate limb of a chain start to zero but a
                // dedicated assertion; the capacity assertion of the D=1 table is a transition
                // constraint, which the first table row has no predecessor for
                v.push((
                    l,
                    l,
                    if l < re {
                        "unfed-input[sponge-start,rate]"
                    } else if row == 0 {
                        "unfed-input[sponge-start,capacity@row0]"
                    } else {
                        "unfed-input[sponge-start,capacity]"
                    },
                ));
            } else {
                v.push((l, l, "inherited-input[sponge]"));
            }
        }
        v
    }

    /// Limb `pos` of committed permutation row `row` as a circuit-field element.
    fn perm_limb_value(t: &Traces<B::EF>, row: usize, pos: usize) -> Option<B::EF> {
        let pd = B::poseidon_config()?.d();
        let r = fields::poseidon_rows::<B>(t)?.operations.get(row)?;
        let mut c = vec![B::BF::ZERO; B::D];
        for (i, x) in r.input_values.get(pos * pd..(pos + 1) * pd)?.iter().enumerate() {
            *c.get_mut(i)? = *x;
        }
        B::EF::from_basis_coefficients_slice(&c)
    }

    /// Class F5: every slot-less limb of every permutation row × every basis unit in `units`
    /// (a D = 1 permutation has one coefficient per limb).
    pub fn enumerate_f5(&self, units: &[usize]) -> Vec<Fault> {
        let pd = B::poseidon_config().map(|c| c.d()).unwrap_or(1);
        let mut v = vec![];
        for oi in 0..self.circuit.ops.len() {
            for (limb, _, _) in self.slotless_limbs(oi) {
                let mut seen = vec![];
                for &u in units {
                    let u = u.min(pd - 1);
                    if !seen.contains(&u) {
                        seen.push(u);
                        v.push(Fault::f5(oi, limb, u));
                    }
                }
            }
        }
        v
    }

    /// Every single fault of every class: F5 (a handful) first, then F2, F3, F4, F1.
    pub fn enumerate_all(&self, units: &[usize]) -> Vec<Fault> {
        let mut v = self.enumerate_f5(units);
        v.extend(self.enumerate(units));
        v
    }

    /// n-th ALU row -> index into `circuit.ops`
    fn alu_op_index(&self, row: usize) -> Option<usize> {
        self.circuit
            .ops
            .iter()
            .enumerate()
            .filter(|(_, op)| matches!(op, Op::Alu { .. }))
            .nth(row)
            .map(|(i, _)| i)
    }

    fn slot_site(&self, class: &'static str, slot: u32) -> Site {
        let (table, role) = match self.definers.get(slot as usize).cloned().flatten() {
            None => ("none".to_string(), "undefined".to_string()),
            Some(Definer::PublicInput) => ("public".into(), "value".into()),
            Some(Definer::PrivateInput) => ("private-input".into(), "value".into()),
            Some(Definer::Const(_)) => ("const".into(), "value".into()),
            Some(Definer::Hint(_)) => ("hint".into(), "output".into()),
            Some(Definer::Rewrite) => ("rewrite".into(), "duplicate".into()),
            Some(Definer::Alu(oi, p)) => {
                let k = match &self.circuit.ops[oi] {
                    Op::Alu { kind, .. } => alu_kind_name(*kind),
                    _ => "?",
                };
                let pn = match p {
                    Port::Acc => "intermediate".to_string(),
                    Port::B => "b-solved".to_string(),
                    other => other.name(),
                };
                ("alu".into(), format!("{k}.{pn}"))
            }
            Some(Definer::Npo(oi, _, exposed)) => (
                self.op_table(oi),
                if exposed { "exposed-output" } else { "hidden-output" }.to_string(),
            ),
        };
        Site { class, table, role }
    }

    fn loc_role(&self, l: &Loc) -> String {
        match l {
            Loc::Const { .. } | Loc::Public { .. } => "value".into(),
            Loc::Alu { row, port, .. } => {
                let k = self
                    .alu_op_index(*row)
                    .and_then(|oi| match &self.circuit.ops[oi] {
                        Op::Alu { kind, a, b, c, out, .. } => {
                            let used = alu_used_ports(*kind, *a, *b, *c, *out)
                                .iter()
                                .any(|(p, _)| p == port);
                            Some((alu_kind_name(*kind), used))
                        }
                        _ => None,
                    });
                let pn = ["a", "b", "c", "out"][*port];
                let bus = self.alu_bus.get(*row).map(|r| r[*port]).unwrap_or("?");
                match k {
                    Some((k, true)) => format!("{k}.{pn}[{bus}]"),
                    Some((k, false)) => format!("{k}.{pn}(unused)"),
                    None => format!("dummy.{pn}"),
                }
            }
            Loc::Recompose { .. } => "coeff-input".into(),
            Loc::PosIn { .. } => "input".into(),
            Loc::PosIndexSum { .. } => "index-sum".into(),
            Loc::PosFlag { .. } => "flag".into(),
        }
    }

    pub fn site(&self, f: &Fault) -> Site {
        match f {
            Fault::F1 { table, row, col } => {
                let cell = (*table, *row, *col);
                let tname = {
                    let t = self.cellmap.tables.get(*table).cloned().unwrap_or_default();
                    if t == "poseidon2" {
                        crate::backend::poseidon_op_type::<B>()
                            .map(|t| t.as_str().to_string())
                            .unwrap_or(t)
                    } else {
                        t
                    }
                };
                let role = if let Some(l) = self.cellmap.primary.get(&cell) {
                    self.loc_role(l)
                } else if self.cellmap.pos_out.contains_key(&cell) {
                    "output".into()
                } else {
                    "aux-or-padding".into()
                };
                Site {
                    class: "F1",
                    table: tname,
                    role,
                }
            }
            Fault::F2 { slot, .. } => self.slot_site("F2", *slot),
            Fault::F3 { slot, .. } => self.slot_site("F3", *slot),
            Fault::F2Sibling { op_id, .. } => {
                let table = self
                    .circuit
                    .ops
                    .iter()
                    .find_map(|op| match op {
                        Op::NonPrimitiveOpWithExecutor { op_id: id, executor, .. }
                            if id.0 == *op_id =>
                        {
                            Some(executor.op_type().as_str().to_string())
                        }
                        _ => None,
                    })
                    .unwrap_or_default();
                Site {
                    class: "F2",
                    table,
                    role: "private-sibling".into(),
                }
            }
            Fault::F4 { op, .. } if f.as_f5().is_some() => {
                let limb = f.as_f5().map(|x| x.1).unwrap_or(0);
                let role = self
                    .slotless_limbs(*op)
                    .into_iter()
                    .find(|(l, _, _)| *l == limb)
                    .map(|(_, _, r)| r)
                    .unwrap_or("not-slotless");
                Site {
                    class: "F5",
                    table: self.circuit.ops.get(*op).map(|_| self.op_table(*op)).unwrap_or_default(),
                    role: role.into(),
                }
            }
            Fault::F4 { op, port, .. } => {
                let table = self.op_table(*op);
                let role = match &self.circuit.ops[*op] {
                    Op::Alu { kind, .. } => {
                        let row = self.circuit.ops[..*op]
                            .iter()
                            .filter(|o| matches!(o, Op::Alu { .. }))
                            .count();
                        let bus = match port {
                            Port::A => self.alu_bus.get(row).map(|r| r[0]),
                            Port::B => self.alu_bus.get(row).map(|r| r[1]),
                            Port::C => self.alu_bus.get(row).map(|r| r[2]),
                            Port::Out => self.alu_bus.get(row).map(|r| r[3]),
                            _ => Some("row-chained"),
                        }
                        .unwrap_or("?");
                        format!("{}.{}[{bus}]", alu_kind_name(*kind), port.name())
                    }
                    Op::NonPrimitiveOpWithExecutor { executor, inputs, .. } => {
                        let t = executor.op_type().as_str().to_string();
                        if t.starts_with("recompose") {
                            "coeff-input".to_string()
                        } else if let Port::In(g, _) = port {
                            // permutation: limb groups first, then index accumulator, then bits
                            let n = inputs.len();
                            let ext = B::poseidon_config().is_some_and(|c| c.d() > 1);
                            let we = B::poseidon_config().map(|c| c.width_ext()).unwrap_or(0);
                            if ext && *g == we {
                                "index-sum-input".to_string()
                            } else if ext && *g > we && *g < n {
                                "direction-bit-input".to_string()
                            } else {
                                // mode of the row this op produces
                                let row = self.circuit.ops[..*op]
                                    .iter()
                                    .filter(|o| matches!(o, Op::NonPrimitiveOpWithExecutor { executor: e, .. } if e.op_type() == executor.op_type()))
                                    .count();
                                match fields::poseidon_rows::<B>(&self.honest)
                                    .and_then(|p| p.operations.get(row))
                                {
                                    Some(r) if r.merkle_path => "input[merkle]".to_string(),
                                    Some(_) => "input[sponge]".to_string(),
                                    None => "input".to_string(),
                                }
                            }
                        } else {
                            "input".to_string()
                        }
                    }
                    _ => port.name(),
                };
                Site {
                    class: "F4",
                    table,
                    role,
                }
            }
        }
    }

    /// Every single fault of every class. `units` = basis elements a +1 is applied to for
    /// the slot/port classes (F1 always covers every limb cell by construction).
    pub fn enumerate(&self, units: &[usize]) -> Vec<Fault> {
        let mut v = vec![];
        // F2 / F3: every slot that has a first writer
        for (s, d) in self.definers.iter().enumerate() {
            if d.is_none() {
                continue;
            }
            for &u in units {
                v.push(Fault::F2 { slot: s as u32, unit: u });
            }
        }
        for (id, sib) in &self.inputs.siblings {
            for limb in 0..sib.len() {
                v.push(Fault::F2Sibling { op_id: id.0, limb });
            }
        }
        for (s, d) in self.definers.iter().enumerate() {
            if d.is_none() {
                continue;
            }
            for &u in units {
                v.push(Fault::F3 { slot: s as u32, unit: u });
            }
            if let Some(Definer::Alu(oi, _)) = d {
                if let Some(Op::Alu { kind, a, b, c, out, .. }) = self.circuit.ops.get(*oi) {
                    let used: Vec<usize> = alu_used_ports(*kind, *a, *b, *c, *out).into_iter().map(|(p, _)| p).collect();
                    let both: Vec<usize> = if B::D > 1 { vec![0, B::D - 1] } else { vec![0] };
                    for port in 0..3usize {
                        if used.contains(&port) {
                            continue;
                        }
                        for neg in 0..2usize {
                            for &u in &both {
                                v.push(Fault::F2 { slot: s as u32, unit: COMP + 100 * port + 10 * neg + u });
                            }
                        }
                    }
                }
            }
            if !self.out_duplicates(WitnessId(s as u32)).is_empty() {
                // few sites: the lowest and the highest coefficient in every tier
                let both: Vec<usize> = if B::D > 1 { vec![0, B::D - 1] } else { vec![0] };
                for &u in &both {
                    v.push(Fault::F2 { slot: s as u32, unit: BUS_ONLY + u });
                    v.push(Fault::F3 { slot: s as u32, unit: BUS_ONLY + u });
                }
            }
        }
        // F4: every input port of every row-producing op
        for (oi, op) in self.circuit.ops.iter().enumerate() {
            let mut ports: Vec<Port> = vec![];
            match op {
                Op::Alu { kind, b, .. } => {
                    let backward = matches!(kind, AluOpKind::Add | AluOpKind::Mul)
                        && matches!(
                            self.definers.get(b.0 as usize).cloned().flatten(),
                            Some(Definer::Alu(o, Port::B)) if o == oi
                        );
                    match kind {
                        AluOpKind::Add | AluOpKind::Mul => {
                            ports.push(Port::A);
                            ports.push(if backward { Port::Out } else { Port::B });
                        }
                        AluOpKind::BoolCheck => ports.push(Port::A),
                        AluOpKind::MulAdd => ports.extend([Port::A, Port::B, Port::C]),
                        AluOpKind::HornerAcc => {
                            ports.extend([Port::A, Port::B, Port::C, Port::Acc])
                        }
                    }
                }
                Op::NonPrimitiveOpWithExecutor { inputs, .. } => {
                    for (g, grp) in inputs.iter().enumerate() {
                        for e in 0..grp.len() {
                            ports.push(Port::In(g, e));
                        }
                    }
                }
                _ => {}
            }
            for p in ports {
                for &u in units {
                    v.push(Fault::F4 { op: oi, port: p, unit: u });
                }
            }
        }
        // F1 last (the bulk): every cell of every matrix (padding included)
        for (t, m) in self.cellmap.honest.iter().enumerate() {
            let h = m.values.len() / m.width.max(1);
            for row in 0..h {
                for col in 0..m.width {
                    v.push(Fault::F1 { table: t, row, col });
                }
            }
        }
        v
    }

    /// The matrix cell that physically holds the accumulator of HornerAcc op `op` (limb `u`):
    /// `out` columns of lane 0 in the row before the one that holds the op's own `a` operand.
    /// `None` for steps packed inside a row (their accumulator is not a cell) or when the op
    /// cannot be located.
    fn horner_acc_cell(&self, op: usize, u: usize) -> Option<CellEdit> {
        let row = self.circuit.ops[..op]
            .iter()
            .filter(|o| matches!(o, Op::Alu { .. }))
            .count();
        let cells = self.cellmap.cells_of.get(&Loc::Alu { row, port: 0, limb: 0 })?;
        let (t, mrow, col) = *cells.first()?;
        let d = B::D;
        if col != 0 {
            return None; // not the first step of a lane-0 schedule entry
        }
        let m = self.cellmap.honest.get(t)?;
        let h = m.values.len() / m.width.max(1);
        let prev = (mrow + h - 1) % h;
        Some(CellEdit {
            table: t,
            row: prev,
            col: 3 * d + u.min(d - 1),
            delta: 1,
        })
    }

    /// Row scalars that mention `slot` (ports the row's relation uses).
    /// `(alu row, port)` of every ALU input port that names `slot` in a row whose `out` is
    /// `slot` too (the port duplicates the row's output cell)
    fn out_duplicates(&self, slot: WitnessId) -> Vec<(usize, usize)> {
        let mut v = vec![];
        let mut ai = 0usize;
        for op in &self.circuit.ops {
            if let Op::Alu { kind, a, b, c, out, .. } = op {
                if *out == slot {
                    for (port, s) in alu_used_ports(*kind, *a, *b, *c, *out) {
                        if s == slot && port != 3 {
                            v.push((ai, port));
                        }
                    }
                }
                ai += 1;
            }
        }
        v
    }

    fn locs_of_slot(&self, slot: WitnessId) -> Vec<(Loc, bool /*base-field scalar*/)> {
        let mut v = vec![];
        let (mut ci, mut pi, mut ai) = (0usize, 0usize, 0usize);
        let mut nrow: std::collections::BTreeMap<String, usize> = Default::default();
        for op in &self.circuit.ops {
            match op {
                Op::Const { out, .. } => {
                    if *out == slot {
                        v.push((Loc::Const { row: ci, limb: 0 }, false));
                    }
                    ci += 1;
                }
                Op::Public { out, .. } => {
                    if *out == slot {
                        v.push((Loc::Public { row: pi, limb: 0 }, false));
                    }
                    pi += 1;
                }
                Op::Alu { kind, a, b, c, out, .. } => {
                    for (port, s) in alu_used_ports(*kind, *a, *b, *c, *out) {
                        if s == slot {
                            v.push((Loc::Alu { row: ai, port, limb: 0 }, false));
                        }
                    }
                    ai += 1;
                }
                Op::Hint { .. } => {}
                Op::NonPrimitiveOpWithExecutor { inputs, executor, .. } => {
                    let ty = executor.op_type().as_str().to_string();
                    let row = {
                        let e = nrow.entry(ty.clone()).or_insert(0);
                        *e += 1;
                        *e - 1
                    };
                    if ty.starts_with("recompose") {
                        let coeff = ty == "recompose/coeff";
                        for (j, s) in inputs.first().map(|g| g.as_slice()).unwrap_or(&[]).iter().enumerate() {
                            if *s == slot {
                                v.push((Loc::Recompose { coeff, row, j }, true));
                            }
                        }
                    } else if let Some(p) = fields::poseidon_rows::<B>(&self.honest)
                        && let Some(r) = p.operations.get(row)
                    {
                        // permutation inputs: limb group g feeds base cells [g*d, (g+1)*d) of the
                        // state; an arity-2 Merkle row with direction bit 1 swaps the halves
                        let cfg = B::poseidon_config().unwrap();
                        let d = cfg.d();
                        let we = cfg.width_ext();
                        let re = cfg.rate_ext();
                        let limbs = if d == 1 { cfg.width() } else { we };
                        for (g, grp) in inputs.iter().enumerate().take(limbs) {
                            if grp.first() == Some(&slot) {
                                let mut pos = g;
                                if r.merkle_path && r.mmcs_bit && we == 2 * re {
                                    pos = if g < re { g + re } else { g - re };
                                }
                                v.push((Loc::PosIn { row, j: pos * d.max(1) }, d == 1));
                            }
                        }
                        if d > 1 && inputs.get(we).and_then(|g| g.first()) == Some(&slot) {
                            v.push((Loc::PosIndexSum { row }, true));
                        }
                    }
                }
            }
        }
        v
    }

    /// The forged object of a fault: traces (+ private data) and/or a cell edit.
    pub fn apply(
        &self,
        f: &Fault,
    ) -> Result<(Traces<B::EF>, Inputs<B::EF>, Vec<CellEdit>, Traces<B::EF>), String> {
        // returns (traces to prove, inputs used, cell edits, committed view for the predicate)
        match f {
            Fault::F1 { table, row, col } => {
                let t = self.honest.0.clone();
                let mut committed = self.honest.0.clone();
                if let Some(l) = self.cellmap.primary.get(&(*table, *row, *col)) {
                    fields::add::<B>(&mut committed, l, B::BF::ONE);
                }
                Ok((
                    t,
                    self.inputs.clone(),
                    vec![CellEdit {
                        table: *table,
                        row: *row,
                        col: *col,
                        delta: 1,
                    }],
                    committed,
                ))
            }
            Fault::F2 { slot, unit: u } if *u >= COMP => {
                let code = *u - COMP;
                let (port, neg, uu) = (code / 100, (code / 10) % 10 == 1, code % 10);
                let Some(Some(Definer::Alu(oi, _))) = self.definers.get(*slot as usize) else {
                    return Err("slot is not defined by an ALU row".into());
                };
                let row = self.circuit.ops[..*oi].iter().filter(|o| matches!(o, Op::Alu { .. })).count();
                let dev = Deviation {
                    slots: vec![(WitnessId(*slot), Change::Add(unit::<B>(uu)))],
                    adapt_publics: true,
                    ..Deviation::none()
                };
                let mut t = self.forge(&dev)?.traces;
                let cell = &mut t.alu_trace.values.get_mut(row).ok_or("no forged ALU row")?[port.min(2)];
                if neg {
                    *cell -= unit::<B>(uu);
                } else {
                    *cell += unit::<B>(uu);
                }
                Ok((t.clone(), self.inputs.clone(), vec![], t))
            }
            Fault::F2 { slot, unit: u } if *u >= BUS_ONLY => {
                // bus-visible form: the new value everywhere downstream, but the in-row
                // duplicates of `out` keep the honest value
                let dev = Deviation {
                    slots: vec![(WitnessId(*slot), Change::Add(unit::<B>(*u - BUS_ONLY)))],
                    adapt_publics: true,
                    ..Deviation::none()
                };
                let mut t = self.forge(&dev)?.traces;
                let dups = self.out_duplicates(WitnessId(*slot));
                if dups.is_empty() {
                    return Err("slot has no in-row duplicate of an output cell".into());
                }
                for (row, port) in dups {
                    let h = self.honest.0.alu_trace.values.get(row).ok_or("no honest ALU row")?[port];
                    t.alu_trace.values.get_mut(row).ok_or("no forged ALU row")?[port] = h;
                }
                Ok((t.clone(), self.inputs.clone(), vec![], t))
            }
            Fault::F2 { slot, unit: u } => {
                let dev = Deviation {
                    slots: vec![(WitnessId(*slot), Change::Add(unit::<B>(*u)))],
                    adapt_publics: true,
                    ..Deviation::none()
                };
                let ex = self.forge(&dev)?;
                Ok((ex.traces.clone(), self.inputs.clone(), vec![], ex.traces))
            }
            Fault::F2Sibling { op_id, limb } => {
                let dev = Deviation {
                    siblings: vec![(NonPrimitiveOpId(*op_id), *limb, Change::Add(unit::<B>(0)))],
                    adapt_publics: true,
                    ..Deviation::none()
                };
                let ex = self.forge(&dev)?;
                let mut inp = self.inputs.clone();
                for (id, sib) in inp.siblings.iter_mut() {
                    if id.0 == *op_id && *limb < sib.len() {
                        sib[*limb] += unit::<B>(0);
                    }
                }
                Ok((ex.traces.clone(), inp, vec![], ex.traces))
            }
            Fault::F3 { slot, unit: u } => {
                let mut t = self.honest.0.clone();
                let locs = self.locs_of_slot(WitnessId(*slot));
                if locs.is_empty() {
                    return Err("slot is mentioned by no row scalar".into());
                }
                let (u, skip) = if *u >= BUS_ONLY {
                    (&(*u - BUS_ONLY), self.out_duplicates(WitnessId(*slot)))
                } else {
                    (u, vec![])
                };
                for (l, base_only) in locs {
                    if let Loc::Alu { row, port, .. } = &l {
                        if skip.contains(&(*row, *port)) {
                            continue;
                        }
                    }
                    let l = match (l, base_only) {
                        (l, true) => {
                            if *u != 0 {
                                continue; // base-field scalar: only the base unit applies
                            }
                            l
                        }
                        (Loc::Const { row, .. }, false) => Loc::Const { row, limb: *u },
                        (Loc::Public { row, .. }, false) => Loc::Public { row, limb: *u },
                        (Loc::Alu { row, port, .. }, false) => Loc::Alu { row, port, limb: *u },
                        (Loc::PosIn { row, j }, false) => Loc::PosIn { row, j: j + *u },
                        (l, false) => l,
                    };
                    fields::add::<B>(&mut t, &l, B::BF::ONE);
                }
                Ok((t.clone(), self.inputs.clone(), vec![], t))
            }
            Fault::F4 { op, unit: u, .. } if f.as_f5().is_some() => {
                let limb = f.as_f5().map(|x| x.1).unwrap_or(0);
                let row = self.perm_row_of_op(*op).ok_or("not a permutation op")?;
                let (_, pos, _) = self
                    .slotless_limbs(*op)
                    .into_iter()
                    .find(|(l, _, _)| *l == limb)
                    .ok_or("limb is fed from a slot or is private data")?;
                let honest_row = fields::poseidon_rows::<B>(&self.honest)
                    .and_then(|p| p.operations.get(row))
                    .cloned()
                    .ok_or("no honest row")?;
                let target = Self::perm_limb_value(&self.honest, row, pos).ok_or("no honest limb")?
                    + unit::<B>(*u);
                // The executor may add a fixed term on top of the value it is handed (the
                // absorb-length tag on the first capacity element of a D=1 sponge row): the value
                // handed over is corrected once so that the COMMITTED limb is honest + unit.
                let mut handed = target;
                for attempt in 0..2 {
                    let dev = Deviation {
                        inherited: vec![(*op, limb, handed)],
                        adapt_publics: true,
                        ..Deviation::none()
                    };
                    let mut traces = self.forge(&dev)?.traces;
                    // the recorded row names the scratch slot: restore the bookkeeping fields
                    // (preprocessed data, fixed by the circuit) of the honest row
                    fields::edit_poseidon::<B>(&mut traces, |p| {
                        if let Some(r) = p.operations.get_mut(row) {
                            r.in_ctl = honest_row.in_ctl.clone();
                            r.input_indices = honest_row.input_indices.clone();
                        }
                    });
                    let got = Self::perm_limb_value(&traces, row, pos).ok_or("no forged limb")?;
                    if got == target || attempt == 1 {
                        return Ok((traces.clone(), self.inputs.clone(), vec![], traces));
                    }
                    handed = handed - (got - target);
                }
                unreachable!()
            }
            Fault::F4 { op, port, unit: u } => {
                let dev = Deviation {
                    ports: vec![(*op, *port, Change::Add(unit::<B>(*u)))],
                    adapt_publics: true,
                    ..Deviation::none()
                };
                let ex = self.forge(&dev)?;
                // The accumulator of a HornerAcc row is not a cell of that row: the AIR reads
                // it from the `out` cells of the PREVIOUS matrix row (same lane 0). A prover who
                // deviates the accumulator row-locally must therefore also put the deviated
                // value there — possible exactly when that row is inactive (separator / padding)
                // or its `out` is off the bus. The cell edit goes through hook H4.
                let mut edits = vec![];
                if *port == Port::Acc
                    && let Some(cell) = self.horner_acc_cell(*op, *u)
                {
                    edits.push(cell);
                }
                Ok((ex.traces.clone(), self.inputs.clone(), edits, ex.traces))
            }
        }
    }

    /// Apply, judge with the reference predicate, prove + verify.
    pub fn evaluate(&self, f: &Fault) -> Outcome {
        let site = self.site(f);
        let (traces, inputs, edits, committed) = match self.apply(f) {
            Ok(x) => x,
            Err(e) => {
                return Outcome {
                    site,
                    verdict: None,
                    pred: Pred::Unknown("inapplicable".into()),
                    noop: false,
                    note: e,
                };
            }
        };
        // F1 on a permutation output cell: the committed row's output differs from the
        // function of its (unchanged) inputs by construction
        let pred = if let Fault::F1 { table, row, col } = f
            && let Some((r, j)) = self.cellmap.pos_out.get(&(*table, *row, *col))
        {
            Pred::Fails(crate::predicate::Clause {
                kind: format!(
                    "npo-row({}.output)",
                    crate::backend::poseidon_op_type::<B>()
                        .map(|t| crate::backend::key_table(t.as_str()))
                        .unwrap_or_default()
                ),
                detail: format!(
                    "permutation row {r}: committed output element {j} is not perm(inputs)[{j}]"
                ),
            })
        } else {
            self.predicate(&inputs, &committed)
        };
        let noop = edits.is_empty() && fields::same_scalars::<B>(&traces, &self.honest).is_ok();
        if noop {
            // identical to the honest object: nothing new to prove
            return Outcome {
                site,
                verdict: Some(Verdict::Accepted),
                pred,
                noop: true,
                note: "forged traces equal the honest traces".into(),
            };
        }
        let verdict = self.accept(&traces, &edits);
        Outcome {
            site,
            verdict: Some(verdict),
            pred,
            noop: false,
            note: String::new(),
        }
    }
}
