//! Addressing of the scalar (base-field) data items of `Traces` that the prover turns into
//! main-trace cells, and in-place edits of them (fault class F3 and the decoding of F1).

use p3_circuit::ops::{NpoTypeId, Poseidon2Trace, RecomposeTrace};
use p3_circuit::tables::NonPrimitiveTrace;
use p3_circuit::Traces;
use p3_field::{BasedVectorSpace, Field};

use crate::backend::Backend;

/// One base-field scalar inside `Traces`.
#[derive(Clone, Debug, PartialEq, Eq, Hash, PartialOrd, Ord)]
pub enum Loc {
    Const { row: usize, limb: usize },
    Public { row: usize, limb: usize },
    /// port: 0 a, 1 b, 2 c, 3 out
    Alu { row: usize, port: usize, limb: usize },
    /// coefficient `j` of row `row` of table `recompose` (coeff = false) / `recompose/coeff`
    Recompose { coeff: bool, row: usize, j: usize },
    /// base-field input cell `j` (0..16) of permutation row `row`
    PosIn { row: usize, j: usize },
    PosIndexSum { row: usize },
    /// 0 mmcs_bit, 1 mmcs_bit2, 2 new_start, 3 merkle_path (toggled, not incremented)
    PosFlag { row: usize, which: usize },
}

impl Loc {
    pub fn table(&self) -> &'static str {
        match self {
            Loc::Const { .. } => "const",
            Loc::Public { .. } => "public",
            Loc::Alu { .. } => "alu",
            Loc::Recompose { coeff: false, .. } => "recompose",
            Loc::Recompose { coeff: true, .. } => "recompose/coeff",
            Loc::PosIn { .. } | Loc::PosIndexSum { .. } | Loc::PosFlag { .. } => "poseidon2",
        }
    }
}

fn limb_add<B: Backend>(x: &mut B::EF, limb: usize, d: B::BF) {
    let mut c: Vec<B::BF> = x.as_basis_coefficients_slice().to_vec();
    c[limb] += d;
    *x = B::EF::from_basis_coefficients_slice(&c).expect("limb count");
}

pub fn limb<B: Backend>(x: &B::EF, limb: usize) -> B::BF {
    x.as_basis_coefficients_slice()[limb]
}

pub fn recompose_type(coeff: bool) -> NpoTypeId {
    if coeff {
        NpoTypeId::recompose_with_coeff_lookups()
    } else {
        NpoTypeId::recompose()
    }
}

pub fn poseidon_rows<'a, B: Backend>(
    t: &'a Traces<B::EF>,
) -> Option<&'a Poseidon2Trace<B::BF>> {
    let ty = crate::backend::poseidon_op_type::<B>()?;
    t.non_primitive_traces
        .get(&ty)?
        .as_any()
        .downcast_ref::<Poseidon2Trace<B::BF>>()
}

pub fn recompose_rows<'a, B: Backend>(
    t: &'a Traces<B::EF>,
    coeff: bool,
) -> Option<&'a RecomposeTrace<B::BF>> {
    t.non_primitive_traces
        .get(&recompose_type(coeff))?
        .as_any()
        .downcast_ref::<RecomposeTrace<B::BF>>()
}

/// Replace the Poseidon2 trace by an edited copy.
pub fn edit_poseidon<B: Backend>(
    t: &mut Traces<B::EF>,
    f: impl FnOnce(&mut Poseidon2Trace<B::BF>),
) -> bool {
    let Some(ty) = crate::backend::poseidon_op_type::<B>() else {
        return false;
    };
    let Some(mut copy) = poseidon_rows::<B>(t).cloned() else {
        return false;
    };
    f(&mut copy);
    let boxed: Box<dyn NonPrimitiveTrace<B::EF>> = Box::new(copy);
    t.non_primitive_traces.insert(ty, boxed);
    true
}

pub fn edit_recompose<B: Backend>(
    t: &mut Traces<B::EF>,
    coeff: bool,
    f: impl FnOnce(&mut RecomposeTrace<B::BF>),
) -> bool {
    let Some(mut copy) = recompose_rows::<B>(t, coeff).cloned() else {
        return false;
    };
    f(&mut copy);
    let boxed: Box<dyn NonPrimitiveTrace<B::EF>> = Box::new(copy);
    t.non_primitive_traces.insert(recompose_type(coeff), boxed);
    true
}

/// Every scalar of `t`, in a fixed order.
pub fn all_locs<B: Backend>(t: &Traces<B::EF>) -> Vec<Loc> {
    let d = B::D;
    let mut v = vec![];
    for row in 0..t.const_trace.values.len() {
        for limb in 0..d {
            v.push(Loc::Const { row, limb });
        }
    }
    for row in 0..t.public_trace.values.len() {
        for limb in 0..d {
            v.push(Loc::Public { row, limb });
        }
    }
    for row in 0..t.alu_trace.values.len() {
        for port in 0..4 {
            for limb in 0..d {
                v.push(Loc::Alu { row, port, limb });
            }
        }
    }
    for coeff in [false, true] {
        if let Some(r) = recompose_rows::<B>(t, coeff) {
            for (row, op) in r.operations.iter().enumerate() {
                for j in 0..op.values.len() {
                    v.push(Loc::Recompose { coeff, row, j });
                }
            }
        }
    }
    if let Some(p) = poseidon_rows::<B>(t) {
        for (row, op) in p.operations.iter().enumerate() {
            for j in 0..op.input_values.len() {
                v.push(Loc::PosIn { row, j });
            }
            v.push(Loc::PosIndexSum { row });
            for which in 0..4 {
                v.push(Loc::PosFlag { row, which });
            }
        }
    }
    v
}

/// Current value of a scalar (flags as 0/1).
pub fn get<B: Backend>(t: &Traces<B::EF>, loc: &Loc) -> Option<B::BF> {
    use p3_field::PrimeCharacteristicRing;
    Some(match loc {
        Loc::Const { row, limb: l } => limb::<B>(t.const_trace.values.get(*row)?, *l),
        Loc::Public { row, limb: l } => limb::<B>(t.public_trace.values.get(*row)?, *l),
        Loc::Alu { row, port, limb: l } => limb::<B>(&t.alu_trace.values.get(*row)?[*port], *l),
        Loc::Recompose { coeff, row, j } => {
            *recompose_rows::<B>(t, *coeff)?.operations.get(*row)?.values.get(*j)?
        }
        Loc::PosIn { row, j } => *poseidon_rows::<B>(t)?.operations.get(*row)?.input_values.get(*j)?,
        Loc::PosIndexSum { row } => poseidon_rows::<B>(t)?.operations.get(*row)?.mmcs_index_sum,
        Loc::PosFlag { row, which } => {
            let r = poseidon_rows::<B>(t)?.operations.get(*row)?;
            B::BF::from_bool(match which {
                0 => r.mmcs_bit,
                1 => r.mmcs_bit2,
                2 => r.new_start,
                _ => r.merkle_path,
            })
        }
    })
}

/// `loc += d` (flags: toggled whenever `d != 0`). Returns false if `loc` does not exist.
pub fn add<B: Backend>(t: &mut Traces<B::EF>, loc: &Loc, d: B::BF) -> bool {
    match loc {
        Loc::Const { row, limb } => match t.const_trace.values.get_mut(*row) {
            Some(x) => limb_add::<B>(x, *limb, d),
            None => return false,
        },
        Loc::Public { row, limb } => match t.public_trace.values.get_mut(*row) {
            Some(x) => limb_add::<B>(x, *limb, d),
            None => return false,
        },
        Loc::Alu { row, port, limb } => match t.alu_trace.values.get_mut(*row) {
            Some(x) => limb_add::<B>(&mut x[*port], *limb, d),
            None => return false,
        },
        Loc::Recompose { coeff, row, j } => {
            let mut ok = false;
            let done = edit_recompose::<B>(t, *coeff, |r| {
                if let Some(v) = r.operations.get_mut(*row).and_then(|o| o.values.get_mut(*j)) {
                    *v += d;
                    ok = true;
                }
            });
            return done && ok;
        }
        Loc::PosIn { row, j } => {
            let mut ok = false;
            let done = edit_poseidon::<B>(t, |p| {
                if let Some(v) = p
                    .operations
                    .get_mut(*row)
                    .and_then(|o| o.input_values.get_mut(*j))
                {
                    *v += d;
                    ok = true;
                }
            });
            return done && ok;
        }
        Loc::PosIndexSum { row } => {
            let mut ok = false;
            let done = edit_poseidon::<B>(t, |p| {
                if let Some(o) = p.operations.get_mut(*row) {
                    o.mmcs_index_sum += d;
                    ok = true;
                }
            });
            return done && ok;
        }
        Loc::PosFlag { row, which } => {
            let mut ok = false;
            let done = edit_poseidon::<B>(t, |p| {
                if let Some(o) = p.operations.get_mut(*row) {
                    let f = match which {
                        0 => &mut o.mmcs_bit,
                        1 => &mut o.mmcs_bit2,
                        2 => &mut o.new_start,
                        _ => &mut o.merkle_path,
                    };
                    if !d.is_zero() {
                        *f = !*f;
                    }
                    ok = true;
                }
            });
            return done && ok;
        }
    }
    true
}

/// Structural equality of two trace sets on every scalar (and on the row counts).
pub fn same_scalars<B: Backend>(a: &Traces<B::EF>, b: &Traces<B::EF>) -> Result<(), String> {
    let la = all_locs::<B>(a);
    let lb = all_locs::<B>(b);
    if la != lb {
        return Err(format!("shape differs: {} vs {} scalars", la.len(), lb.len()));
    }
    for l in &la {
        if get::<B>(a, l) != get::<B>(b, l) {
            return Err(format!("{l:?}: {:?} vs {:?}", get::<B>(a, l), get::<B>(b, l)));
        }
    }
    Ok(())
}
