//! A `Fixture` = compiled circuit + satisfying inputs + prover data + honest traces + the
//! decoded cell map, validated at construction:
//!   * the repository's runner accepts the inputs,
//!   * the forging executor without deviation reproduces the runner's traces scalar by scalar,
//!   * the honest traces prove and verify,
//!   * the reference predicate holds on the honest traces.
//! Any failure here is a machinery error of the harness (or a fixture outside the part of the
//! circuit space that proves at all — see C10), never a verdict.

use p3_circuit::ops::Op;
use p3_circuit::{Circuit, Traces, WitnessId};
use p3_circuit_prover::TablePacking;

use crate::backend::{Backend, CellEdit, Run, Verdict, accept_with};
use crate::cellmap::{self, CellMap};
use crate::exec::{self, Deviation, Executed, Inputs, Port};
use crate::fields::Loc;
use crate::predicate::{Pred, predicate};

/// `Circuit` holds boxed executors whose traits do not require `Send + Sync`. The executors
/// the repository ships (Poseidon, recompose, the two decomposition hints) are plain data +
/// `Arc<dyn Fn + Send + Sync>` and are only used through `&self`; fixtures are read-only
/// after construction. Fixtures built from *foreign* executors must uphold the same.
pub struct Shared<T>(pub T);
unsafe impl<T> Sync for Shared<T> {}
unsafe impl<T> Send for Shared<T> {}
impl<T> std::ops::Deref for Shared<T> {
    type Target = T;
    fn deref(&self) -> &T {
        &self.0
    }
}

/// Who wrote a slot first.
#[derive(Clone, Debug, PartialEq, Eq)]
pub enum Definer {
    PublicInput,
    PrivateInput,
    Const(usize),
    Hint(usize),
    /// (op index, port: Out or B (backward form) or Acc=intermediate_out of MulAdd)
    Alu(usize, Port),
    /// (op index, output group, exposed on the bus?)
    Npo(usize, usize, bool),
    Rewrite,
}

pub struct Fixture<B: Backend> {
    pub name: String,
    pub circuit: Shared<Circuit<B::EF>>,
    pub inputs: Inputs<B::EF>,
    pub packing: TablePacking,
    pub prepared: B::Prepared,
    pub honest: Shared<Traces<B::EF>>,
    pub cellmap: CellMap<B::BF>,
    /// first writer of every slot in the honest execution
    pub definers: Vec<Option<Definer>>,
    /// per ALU row: bus role of the ports a, b, c, out as the circuit's preprocessed columns
    /// fix it (`skip` = not on the bus, `reader`, `creator`)
    pub alu_bus: Vec<[&'static str; 4]>,
}

/// Bus roles of ALU ports, read from `Circuit::generate_preprocessed_columns` (the role flags
/// do not depend on the extension degree, so D = 1 indexing is used for every field).
pub fn alu_bus_roles<F: p3_field::Field>(circuit: &Circuit<F>) -> Vec<[&'static str; 4]> {
    let Ok(Ok(prep)) = vpcore::quiet_catch(|| circuit.generate_preprocessed_columns::<1>()) else {
        return vec![];
    };
    let alu = &prep.primitive[p3_circuit::ops::PrimitiveOpType::Alu as usize];
    let three = |x: F| {
        if x == F::ZERO {
            "skip"
        } else if x == F::ONE {
            "reader"
        } else {
            "creator"
        }
    };
    let two = |x: F| if x == F::ZERO { "reader" } else { "creator" };
    alu.chunks_exact(12)
        .map(|c| [three(c[8]), two(c[9]), three(c[10]), two(c[11])])
        .collect()
}

/// First writer of each slot, by walking the op list the way the runner does.
pub fn definers<F: p3_field::Field>(circuit: &Circuit<F>) -> Vec<Option<Definer>> {
    let mut d: Vec<Option<Definer>> = vec![None; circuit.witness_count as usize];
    let mut def = |s: WitnessId, who: Definer, d: &mut Vec<Option<Definer>>| {
        let i = s.0 as usize;
        if i >= d.len() {
            d.resize(i + 1, None);
        }
        if d[i].is_none() {
            d[i] = Some(who);
        }
    };
    for s in &circuit.public_rows {
        def(*s, Definer::PublicInput, &mut d);
    }
    for s in &circuit.private_input_rows {
        def(*s, Definer::PrivateInput, &mut d);
    }
    for (oi, op) in circuit.ops.iter().enumerate() {
        match op {
            Op::Const { out, .. } => def(*out, Definer::Const(oi), &mut d),
            Op::Public { .. } => {}
            Op::Alu {
                kind,
                b,
                out,
                intermediate_out,
                ..
            } => {
                use p3_circuit::AluOpKind as K;
                let b_set = d.get(b.0 as usize).is_some_and(|x| x.is_some());
                match kind {
                    K::Add | K::Mul if !b_set => def(*b, Definer::Alu(oi, Port::B), &mut d),
                    K::MulAdd => {
                        if let Some(io) = intermediate_out {
                            def(*io, Definer::Alu(oi, Port::Acc), &mut d);
                        }
                        def(*out, Definer::Alu(oi, Port::Out), &mut d)
                    }
                    _ => def(*out, Definer::Alu(oi, Port::Out), &mut d),
                }
            }
            Op::Hint { outputs, .. } => {
                for s in outputs {
                    def(*s, Definer::Hint(oi), &mut d);
                }
            }
            Op::NonPrimitiveOpWithExecutor {
                outputs, executor, ..
            } => {
                let n_exposed = executor.num_exposed_outputs().unwrap_or(outputs.len());
                for (g, grp) in outputs.iter().enumerate() {
                    for s in grp {
                        def(*s, Definer::Npo(oi, g, g < n_exposed), &mut d);
                    }
                }
            }
        }
    }
    if let Some(rw) = &circuit.witness_rewrite {
        for dup in rw.keys() {
            def(*dup, Definer::Rewrite, &mut d);
        }
    }
    d
}

impl<B: Backend> Fixture<B> {
    pub fn new(
        name: &str,
        circuit: Circuit<B::EF>,
        inputs: Inputs<B::EF>,
        packing: TablePacking,
    ) -> Result<Self, String> {
        let honest = exec::run_real(&circuit, &inputs).map_err(|e| format!("{name}: runner: {e}"))?;
        let mine = exec::execute(&circuit, &inputs, &Deviation::none())
            .map_err(|e| format!("{name}: forge executor: {e}"))?;
        crate::fields::same_scalars::<B>(&honest, &mine.traces)
            .map_err(|e| format!("{name}: forge executor disagrees with the runner: {e}"))?;
        if mine.conflicts != 0 {
            return Err(format!("{name}: honest execution has conflicting writers"));
        }
        let prepared = match vpcore::quiet_catch(|| B::prepare(&circuit, &packing)) {
            Ok(Ok(p)) => p,
            Ok(Err(e)) => return Err(format!("{name}: prepare: {e}")),
            Err(p) => return Err(format!("{name}: prepare panicked: {p}")),
        };
        let cellmap = cellmap::build::<B>(&prepared, &packing, &honest)
            .map_err(|e| format!("{name}: cell map: {e}"))?;
        let definers = definers(&circuit);
        let alu_bus = alu_bus_roles(&circuit);
        let fx = Fixture {
            name: name.to_string(),
            circuit: Shared(circuit),
            inputs,
            packing,
            prepared,
            honest: Shared(honest),
            cellmap,
            definers,
            alu_bus,
        };
        match fx.predicate(&fx.inputs, &fx.honest) {
            Pred::Holds => {}
            other => return Err(format!("{name}: reference predicate on honest traces: {other:?}")),
        }
        Ok(fx)
    }

    /// Reference predicate on a set of traces committed together with private data `inputs`.
    pub fn predicate(&self, inputs: &Inputs<B::EF>, traces: &Traces<B::EF>) -> Pred {
        let cm = &self.cellmap;
        match vpcore::quiet_catch(|| predicate::<B>(&self.circuit, inputs, traces, &|l: &Loc| cm.committed(l))) {
            Ok(p) => p,
            Err(p) => Pred::Unknown(format!("predicate panicked: {p}")),
        }
    }

    /// Forging executor on this fixture's circuit and inputs.
    pub fn forge(&self, dev: &Deviation<B::EF>) -> Result<Executed<B::EF>, String> {
        match vpcore::quiet_catch(|| exec::execute(&self.circuit, &self.inputs, dev)) {
            Ok(r) => r,
            Err(p) => Err(format!("executor panicked: {p}")),
        }
    }

    /// Real prover + verifier on `traces`, optional cell edits (hook H4).
    pub fn accept(&self, traces: &Traces<B::EF>, edits: &[CellEdit]) -> Verdict {
        accept_with::<B>(&self.prepared, &self.packing, traces, edits, false).verdict
    }

    pub fn accept_capture(&self, traces: &Traces<B::EF>, edits: &[CellEdit]) -> Run<B::BF> {
        accept_with::<B>(&self.prepared, &self.packing, traces, edits, true)
    }
}
