//! E3 — adversarial trace forging + acceptance oracle (DESIGN.md §3 E3).
//!
//! * [`backend`]   field/table configurations, `Verdict`, `accept*` (real prove + verify,
//!                 release, under `quiet_catch`, optional cell edits through hook H4)
//! * [`exec`]      forging executor: `Circuit::ops` re-executed without conflict checks, with
//!                 slot / port / private-data deviations propagated forward (F2, F4)
//! * [`fields`]    addressing and editing of the scalars of `Traces` (F3)
//! * [`cellmap`]   matrix cell ↔ trace scalar decoding by differential probing (F1)
//! * [`predicate`] the reference predicate "the committed values are one satisfying assignment"
//! * [`fixture`]   circuit + inputs + prover data + honest traces, validated
//! * [`faults`]    single faults F1–F4: enumeration, application, site keys, evaluation
//! * [`catalogue`] small circuits covering every table and mode, type-erased as [`case::Case`]

pub mod backend;
pub mod case;
pub mod catalogue;
pub mod cellmap;
pub mod exec;
pub mod faults;
pub mod fields;
pub mod fixture;
pub mod predicate;

pub use backend::{
    Backend, BbD1, BbD4, CellEdit, KbD4, KbD5, Verdict, accept, accept_circuit, accept_with, prove_with,
    verify_proof,
};
pub use case::Case;
pub use exec::{Change, Deviation, Executed, Inputs, Port, execute, run_real};
pub use faults::{Fault, Outcome, Site};
pub use fixture::Fixture;
pub use predicate::{Pred, predicate};
