//! E3 — adversarial trace forging + acceptance oracle (DESIGN.md §3 E3).
//!
//! * [`backend`]   field/table configurations, `Verdict`, `accept*` (real prove + verify,
//!                 release, under `quiet_catch`, optional cell edits through hook H4)
//! * [`exec`]      forging executor: `Circuit::ops` re-executed without conflict checks, with
//!                 slot / port / private-data / inherited-limb deviations propagated forward
//!                 (F2, F4, F5)
//! * [`fields`]    addressing and editing of the scalars of `Traces` (F3)
//! * [`cellmap`]   matrix cell ↔ trace scalar decoding by differential probing (F1)
//! * [`predicate`] the reference predicate "the committed values are one satisfying assignment"
//! * [`fixture`]   circuit + inputs + prover data + honest traces, validated
//! * [`faults`]    single faults F1–F5: enumeration, application, site keys, evaluation
//!                 (`enumerate` = F1–F4, `enumerate_f5` = slot-less permutation input limbs,
//!                 `enumerate_all` = both)
//! * [`catalogue`] small circuits covering every table and mode, type-erased as [`case::Case`]

//!
//! ## Typical use from a check (C06 / C12 / C16)
//! ```ignore
//! use vpe3::{Backend, BbD4, Fixture, Inputs, Deviation, Change, Port, Pred};
//! let mut b = BbD4::new_builder();             // Poseidon2 D4 W16 + recompose(+coeff) enabled
//! /* ... build the circuit with the real CircuitBuilder / CircuitChallenger ... */
//! let fx = Fixture::<BbD4>::new("name", b.build()?, Inputs { public, private, siblings: vec![] },
//!                               TablePacking::default())?;   // validates: runner, forge == runner,
//!                                                             // honest proof accepted, predicate holds
//! // a deviation with forward propagation (hint output := other witness, public outputs adapted)
//! let dev = Deviation { slots: vec![(wid, Change::Set(v))], adapt_publics: true, ..Deviation::none() };
//! let ex = fx.forge(&dev)?;                     // ex.traces, ex.witness (final slot values), ex.inputs
//! let verdict = fx.accept(&ex.traces, &[]);     // real prove_all_tables + verify_all_tables
//! let pred = fx.predicate(&ex.inputs, &ex.traces);            // C04's reference predicate
//! // every single fault of classes F1-F4 with site keys:
//! for f in fx.enumerate(&[0]) { let o = fx.evaluate(&f); if o.violation() { /* o.key() */ } }
//! // proof object for metadata alterations (C16):
//! let proof = vpe3::prove_with::<BbD4>(&fx.prepared, &fx.packing, &ex.traces, &[])?;   // BatchStarkProof<BabyBearConfig>
//! let v = vpe3::verify_proof::<BbD4>(&fx.packing, &proof);
//! ```

pub mod backend;
pub mod case;
pub mod catalogue;
pub mod cellmap;
pub mod exec;
pub mod faults;
pub mod fields;
pub mod fixture;
pub mod predicate;

pub use backend::{
    Backend, BbD1, BbD4, CellEdit, KbD4, KbD5, Verdict, accept, accept_circuit, accept_with, prove_with,
    verify_proof,
};
pub use case::Case;
pub use exec::{Change, Deviation, Executed, Inputs, Port, execute, run_real};
pub use faults::{Fault, Outcome, Site};
pub use fixture::Fixture;
pub use predicate::{Pred, predicate};
