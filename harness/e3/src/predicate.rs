//! The reference predicate of C04 (and of every "accepted ⇒ …" check built on E3):
//!
//!   the values committed by the prover form ONE global assignment of the witness slots
//!   that satisfies every op relation of the compiled circuit, carries the circuit's
//!   constants, and every non-primitive row is the true function of its inputs.
//!
//! Input: the (forged) `Traces`, the circuit, the private data the forger used, and the set
//! of scalars that really reach a main-trace matrix (`committed`, from the cell map).
//!
//! 1. *Claims.* Every committed port of every row claims `(slot, value)`: constant rows,
//!    public rows, the ports an ALU row's relation uses (Add/Mul: a, b, out; BoolCheck: a,
//!    out; MulAdd/HornerAcc: a, b, c, out), recompose rows (each coefficient input, and the
//!    output = recomposition of the committed coefficients). Two different values for one
//!    slot ⇒ no global assignment ⇒ predicate false.
//! 2. *Constants.* A committed constant row must hold the value of its `Op::Const`.
//! 3. *Relations.* Walk `circuit.ops` in order over the assignment: a slot nobody claims is
//!    existentially quantified (defined by the op that produces it); every other op is a check
//!    (`opsem`, as in E1: Add, Mul, BoolCheck (and out = a), MulAdd (nothing about
//!    `intermediate_out`), HornerAcc with the accumulator *slot*, Hint: nothing).
//! 4. *Non-primitive ops.* Each is re-executed by the repository's own executor (honest
//!    permutation) on the assignment's input values: every output slot — exposed on the bus or
//!    not — must hold the computed value, and the row the executor records must equal the
//!    committed row on every committed scalar (inputs incl. chained / private positions,
//!    index accumulator, direction bits).
//!
//! `Unknown` is returned (never `Fails`) when a step cannot be evaluated; callers treat it
//! as "holds" for the verdict rule, so an imprecision here can only hide, never create, an
//! alarm.

use std::collections::BTreeMap;

use p3_circuit::ops::{ExecutionContext, NpoPrivateData, Op, Poseidon2PermPrivateData};
use p3_circuit::{AluOpKind, Circuit, Traces, WitnessId};
use p3_field::{BasedVectorSpace, Field, PrimeCharacteristicRing};

use crate::backend::Backend;
use crate::exec::Inputs;
use crate::fields::{self, Loc};

/// Why the predicate is false: a short stable `kind` (part of violation keys) and a
/// human-readable `detail` (values, rows).
#[derive(Clone, Debug, PartialEq, Eq)]
pub struct Clause {
    pub kind: String,
    pub detail: String,
}

fn clause(kind: impl Into<String>, detail: impl Into<String>) -> Clause {
    Clause {
        kind: kind.into(),
        detail: compact(&detail.into()),
    }
}

/// `ExtField { value: [a, b, c, d], _phantom: PhantomData<...> }` -> `[a, b, c, d]`
/// (the `Debug` form of p3 extension elements is unreadable in reports).
pub fn compact(s: &str) -> String {
    let mut out = String::with_capacity(s.len());
    let mut rest = s;
    const OPEN: &str = " { value: [";
    while let Some(i) = rest.find(OPEN) {
        // drop the type name in front of " { value: ["
        let head = &rest[..i];
        let cut = head
            .rfind(|c: char| !(c.is_alphanumeric() || c == '_'))
            .map(|k| k + 1)
            .unwrap_or(0);
        out.push_str(&head[..cut]);
        let after = &rest[i + OPEN.len()..];
        let Some(j) = after.find(']') else {
            out.push_str(&rest[cut..]);
            return out;
        };
        out.push('[');
        out.push_str(&after[..j]);
        out.push(']');
        // skip ", _phantom: PhantomData<...> }" with balanced angle brackets
        let tail = &after[j + 1..];
        let mut depth = 0i32;
        let mut end = None;
        for (k, c) in tail.char_indices() {
            match c {
                '<' => depth += 1,
                '>' => {
                    depth -= 1;
                    if depth == 0 {
                        end = Some(k + 1);
                        break;
                    }
                }
                '}' if depth == 0 => {
                    end = Some(k);
                    break;
                }
                _ => {}
            }
        }
        match end {
            Some(e) => {
                let t = &tail[e..];
                rest = t.strip_prefix(" }").unwrap_or(t.strip_prefix("}").unwrap_or(t));
            }
            None => {
                rest = "";
            }
        }
    }
    out.push_str(rest);
    out
}

#[derive(Clone, Debug, PartialEq, Eq)]
pub enum Pred {
    Holds,
    /// clause that failed
    Fails(Clause),
    /// could not be decided (reason); treated as "holds" by verdict rules
    Unknown(String),
}

impl Pred {
    pub fn fails(&self) -> bool {
        matches!(self, Pred::Fails(_))
    }
    pub fn short(&self) -> &'static str {
        match self {
            Pred::Holds => "holds",
            Pred::Fails(_) => "fails",
            Pred::Unknown(_) => "unknown",
        }
    }
}

struct Claims<F> {
    /// (value, origin kind, origin text)
    w: Vec<Option<(F, &'static str, String)>>,
    fail: Option<Clause>,
}

impl<F: Field> Claims<F> {
    /// `kind`: coarse origin for keys (`const`, `public`, `alu`, `recompose.coeff`, ...)
    fn claim(&mut self, s: WitnessId, v: F, kind: &'static str, origin: impl FnOnce() -> String) {
        let i = s.0 as usize;
        if i >= self.w.len() {
            self.w.resize(i + 1, None);
        }
        match &self.w[i] {
            None => self.w[i] = Some((v, kind, origin())),
            Some((old, k, o)) => {
                // keep the conflict with the smallest kind: the reported clause must not depend
                // on the order in which rows are visited
                let (x, y) = if *k <= kind { (*k, kind) } else { (kind, *k) };
                let this_kind = format!("claims({x} vs {y})");
                if *old != v && self.fail.as_ref().is_none_or(|f| this_kind < f.kind) {
                    self.fail = Some(clause(
                        this_kind,
                        format!(
                            "no global assignment: slot w{} is {:?} in {} but {:?} in {}",
                            s.0,
                            old,
                            o,
                            v,
                            origin()
                        ),
                    ));
                }
            }
        }
    }
}

/// ports of an ALU op that its relation uses: (port index in the row, slot)
pub fn alu_used_ports(
    kind: AluOpKind,
    a: WitnessId,
    b: WitnessId,
    c: Option<WitnessId>,
    out: WitnessId,
) -> Vec<(usize, WitnessId)> {
    match kind {
        AluOpKind::Add | AluOpKind::Mul => vec![(0, a), (1, b), (3, out)],
        AluOpKind::BoolCheck => vec![(0, a), (3, out)],
        AluOpKind::MulAdd | AluOpKind::HornerAcc => {
            let mut v = vec![(0, a), (1, b)];
            if let Some(c) = c {
                v.push((2, c));
            }
            v.push((3, out));
            v
        }
    }
}

fn embed<B: Backend>(x: B::BF) -> B::EF {
    let mut c = vec![B::BF::ZERO; B::D];
    c[0] = x;
    B::EF::from_basis_coefficients_slice(&c).expect("limbs")
}

pub fn recompose_value<B: Backend>(coeffs: &[B::BF]) -> B::EF {
    let mut c = vec![B::BF::ZERO; B::D];
    for (i, v) in coeffs.iter().take(B::D).enumerate() {
        c[i] = *v;
    }
    B::EF::from_basis_coefficients_slice(&c).expect("limbs")
}

pub fn predicate<B: Backend>(
    circuit: &Circuit<B::EF>,
    inputs: &Inputs<B::EF>,
    traces: &Traces<B::EF>,
    committed: &dyn Fn(&Loc) -> bool,
) -> Pred {
    let d = B::D;
    let all_limbs = |mk: &dyn Fn(usize) -> Loc| (0..d).all(|l| committed(&mk(l)));
    let mut cl = Claims::<B::EF> {
        w: vec![None; circuit.witness_count as usize],
        fail: None,
    };
    let mut unknown: Option<String> = None;
    let mut fail: Option<Clause> = None;

    // ---- 1 + 2: claims and constants
    let (mut ci, mut pi, mut ai) = (0usize, 0usize, 0usize);
    let mut npo_row: BTreeMap<String, usize> = BTreeMap::new();
    for op in &circuit.ops {
        match op {
            Op::Const { out, val } => {
                let row = ci;
                ci += 1;
                let Some(v) = traces.const_trace.values.get(row) else {
                    return Pred::Unknown("const trace shorter than op list".into());
                };
                if all_limbs(&|limb| Loc::Const { row, limb }) {
                    if v != val && fail.is_none() {
                        fail = Some(clause(
                            "const!=circuit",
                            format!(
                                "constant row {row} (slot w{}) holds {:?}, the circuit's constant is {:?}",
                                out.0, v, val
                            ),
                        ));
                    }
                    cl.claim(*out, *v, "const", || format!("const[{row}]"));
                }
            }
            Op::Public { out, .. } => {
                let row = pi;
                pi += 1;
                let Some(v) = traces.public_trace.values.get(row) else {
                    return Pred::Unknown("public trace shorter than op list".into());
                };
                if all_limbs(&|limb| Loc::Public { row, limb }) {
                    cl.claim(*out, *v, "public", || format!("public[{row}]"));
                }
            }
            Op::Alu {
                kind, a, b, c, out, ..
            } => {
                let row = ai;
                ai += 1;
                let Some(vals) = traces.alu_trace.values.get(row) else {
                    return Pred::Unknown("alu trace shorter than op list".into());
                };
                for (port, slot) in alu_used_ports(*kind, *a, *b, *c, *out) {
                    if all_limbs(&|limb| Loc::Alu { row, port, limb }) {
                        cl.claim(slot, vals[port], "alu", || {
                            format!("alu[{row}].{}({kind:?})", ["a", "b", "c", "out"][port])
                        });
                    }
                }
            }
            Op::Hint { .. } => {}
            Op::NonPrimitiveOpWithExecutor {
                inputs: nin,
                outputs: nout,
                executor,
                ..
            } => {
                let ty = executor.op_type().as_str().to_string();
                let row = {
                    let e = npo_row.entry(ty.clone()).or_insert(0);
                    *e += 1;
                    *e - 1
                };
                let coeff = match ty.as_str() {
                    "recompose" => Some(false),
                    "recompose/coeff" => Some(true),
                    _ => None,
                };
                if let Some(coeff) = coeff {
                    let Some(r) = fields::recompose_rows::<B>(traces, coeff)
                        .and_then(|t| t.operations.get(row))
                    else {
                        return Pred::Unknown(format!("{ty} trace shorter than op list"));
                    };
                    let mut all = true;
                    for (j, s) in nin.first().map(|g| g.as_slice()).unwrap_or(&[]).iter().enumerate() {
                        if committed(&Loc::Recompose { coeff, row, j }) {
                            if let Some(v) = r.values.get(j) {
                                cl.claim(
                                    *s,
                                    embed::<B>(*v),
                                    if coeff { "recompose/coeff.coeff" } else { "recompose.coeff" },
                                    || format!("{ty}[{row}].coeff{j}"),
                                );
                            }
                        } else {
                            all = false;
                        }
                    }
                    if all && let Some(o) = nout.first().and_then(|g| g.first()) {
                        cl.claim(
                            *o,
                            recompose_value::<B>(&r.values),
                            if coeff { "recompose/coeff.out" } else { "recompose.out" },
                            || format!("{ty}[{row}].out"),
                        );
                    }
                }
                // permutation rows make no direct claims: they are compared after re-execution
            }
        }
    }
    if let Some(f) = cl.fail.take() {
        return Pred::Fails(f);
    }
    if let Some(f) = fail.take() {
        return Pred::Fails(f);
    }

    // ---- 3 + 4: relations over the assignment
    let mut val: Vec<Option<B::EF>> = cl.w.iter().map(|c| c.as_ref().map(|(v, _, _)| *v)).collect();
    let get = |val: &Vec<Option<B::EF>>, s: WitnessId| val.get(s.0 as usize).copied().flatten();
    let set = |val: &mut Vec<Option<B::EF>>, s: WitnessId, v: B::EF| {
        let i = s.0 as usize;
        if i >= val.len() {
            val.resize(i + 1, None);
        }
        val[i] = Some(v);
    };

    let n_ids = circuit
        .ops
        .iter()
        .filter_map(|op| match op {
            Op::NonPrimitiveOpWithExecutor { op_id, .. } => Some(op_id.0 as usize + 1),
            _ => None,
        })
        .max()
        .unwrap_or(0);
    let mut private_data: Vec<Option<NpoPrivateData>> = Vec::new();
    private_data.resize_with(n_ids, || None);
    for (id, sib) in &inputs.siblings {
        if (id.0 as usize) < n_ids {
            private_data[id.0 as usize] = Some(NpoPrivateData::new(Poseidon2PermPrivateData {
                sibling: sib.clone(),
            }));
        }
    }
    let mut op_states = BTreeMap::new();
    let mut npo_complete = true;
    let mut npo_row2: BTreeMap<String, usize> = BTreeMap::new();

    let mut ai = 0usize;
    for (oi, op) in circuit.ops.iter().enumerate() {
        if fail.is_some() {
            break;
        }
        match op {
            Op::Const { out, val: cv } => match get(&val, *out) {
                None => set(&mut val, *out, *cv),
                Some(x) => {
                    if x != *cv {
                        fail = Some(clause(
                            "const!=circuit",
                            format!("slot w{} of Const op {oi} holds {:?}, constant is {:?}", out.0, x, cv),
                        ));
                    }
                }
            },
            Op::Public { .. } | Op::Hint { .. } => {}
            Op::Alu {
                kind,
                a,
                b,
                c,
                out,
                intermediate_out,
            } => {
                let row = ai;
                ai += 1;
                let av = get(&val, *a);
                let bv = get(&val, *b);
                let ov = get(&val, *out);
                let cv = c.map(|c| get(&val, c));
                let mut undecided = |what: &str| {
                    if unknown.is_none() {
                        unknown = Some(format!("alu[{row}] {kind:?}: {what} unassigned"));
                    }
                };
                match kind {
                    AluOpKind::Add | AluOpKind::Mul => {
                        let f = |x: B::EF, y: B::EF| if *kind == AluOpKind::Add { x + y } else { x * y };
                        match (av, bv, ov) {
                            (Some(x), Some(y), Some(z)) => {
                                if f(x, y) != z {
                                    fail = Some(clause(format!("relation({kind:?})"), format!("alu[{row}] {kind:?}: relation violated (a={x:?}, b={y:?}, out={z:?})")));
                                }
                            }
                            (Some(x), Some(y), None) => set(&mut val, *out, f(x, y)),
                            (Some(x), None, Some(z)) => {
                                if *kind == AluOpKind::Add {
                                    set(&mut val, *b, z - x);
                                } else if let Some(inv) = x.try_inverse() {
                                    set(&mut val, *b, z * inv);
                                } else if !z.is_zero() {
                                    fail = Some(clause("relation(Mul)", format!("alu[{row}] Mul: 0 * b = {z:?} unsatisfiable")));
                                }
                            }
                            _ => undecided("operand"),
                        }
                    }
                    AluOpKind::BoolCheck => match av {
                        Some(x) => {
                            if x * (x - B::EF::ONE) != B::EF::ZERO {
                                fail = Some(clause("relation(BoolCheck)", format!("alu[{row}] BoolCheck: a={x:?} not boolean")));
                            } else {
                                match ov {
                                    Some(z) if z != x => {
                                        fail = Some(clause("relation(BoolCheck)", format!("alu[{row}] BoolCheck: out={z:?} != a={x:?}")));
                                    }
                                    None => set(&mut val, *out, x),
                                    _ => {}
                                }
                            }
                        }
                        None => undecided("a"),
                    },
                    AluOpKind::MulAdd => {
                        let cvv = match cv {
                            Some(x) => x,
                            None => Some(B::EF::ZERO),
                        };
                        match (av, bv, cvv) {
                            (Some(x), Some(y), Some(cc)) => {
                                if let Some(io) = intermediate_out
                                    && get(&val, *io).is_none()
                                {
                                    set(&mut val, *io, x * y);
                                }
                                let r = x * y + cc;
                                match ov {
                                    Some(z) => {
                                        if z != r {
                                            fail = Some(clause("relation(MulAdd)", format!("alu[{row}] MulAdd: relation violated (a={x:?}, b={y:?}, c={cc:?}, out={z:?})")));
                                        }
                                    }
                                    None => set(&mut val, *out, r),
                                }
                            }
                            _ => undecided("operand"),
                        }
                    }
                    AluOpKind::HornerAcc => {
                        let accv = intermediate_out.and_then(|s| get(&val, s));
                        let cvv = cv.flatten();
                        match (accv, av, bv, cvv) {
                            (Some(acc), Some(x), Some(y), Some(cc)) => {
                                let r = acc * y + cc - x;
                                match ov {
                                    Some(z) => {
                                        if z != r {
                                            fail = Some(clause("relation(HornerAcc)", format!("alu[{row}] HornerAcc: relation violated (acc={acc:?}, a={x:?}, b={y:?}, c={cc:?}, out={z:?})")));
                                        }
                                    }
                                    None => set(&mut val, *out, r),
                                }
                            }
                            _ => undecided("operand"),
                        }
                    }
                }
            }
            Op::NonPrimitiveOpWithExecutor {
                inputs: nin,
                outputs: nout,
                executor,
                op_id,
            } => {
                // mode of the committed row (part of the clause kind): Merkle rows and sponge
                // rows of the permutation table are different designs
                let ty = executor.op_type().as_str().to_string();
                let row = {
                    let e = npo_row2.entry(ty.clone()).or_insert(0);
                    *e += 1;
                    *e - 1
                };
                let mode = if ty.starts_with("poseidon2_perm/") {
                    match fields::poseidon_rows::<B>(traces).and_then(|p| p.operations.get(row)) {
                        Some(r) if r.merkle_path => ",merkle",
                        Some(_) => ",sponge",
                        None => "",
                    }
                } else {
                    ""
                };
                let ready = nin.iter().flatten().all(|s| get(&val, *s).is_some());
                if !ready || !npo_complete {
                    npo_complete = false;
                    if unknown.is_none() {
                        unknown = Some(format!("npo op {oi}: an input slot is unassigned"));
                    }
                    continue;
                }
                let mut scratch = val.clone();
                for s in nout.iter().flatten() {
                    if (s.0 as usize) < scratch.len() {
                        scratch[s.0 as usize] = None;
                    }
                }
                let r = {
                    let mut ctx = ExecutionContext::new(
                        &mut scratch,
                        &private_data,
                        &circuit.enabled_ops,
                        *op_id,
                        &mut op_states,
                    );
                    executor.execute(nin, nout, &mut ctx)
                };
                if let Err(e) = r {
                    // the executor itself refuses these inputs (e.g. a non-boolean direction
                    // bit): no row can be the function of them
                    fail = Some(clause(
                        format!("npo-rejects({}{mode})", crate::backend::key_table(executor.op_type().as_str())),
                        format!("npo op {oi} ({}): executor rejects the assignment: {e:?}", executor.op_type()),
                    ));
                    continue;
                }
                let n_exposed = executor.num_exposed_outputs().unwrap_or(nout.len());
                for (g, grp) in nout.iter().enumerate() {
                    for s in grp {
                        let Some(computed) = scratch.get(s.0 as usize).copied().flatten() else {
                            continue;
                        };
                        match get(&val, *s) {
                            Some(x) => {
                                if x != computed && fail.is_none() {
                                    fail = Some(clause(
                                        format!(
                                            "npo-output({},{}{mode})",
                                            crate::backend::key_table(executor.op_type().as_str()),
                                            if g < n_exposed { "exposed" } else { "hidden" }
                                        ),
                                        format!(
                                            "npo op {oi} ({}): output slot w{} holds {:?}, the function value is {:?}",
                                            executor.op_type(), s.0, x, computed
                                        ),
                                    ));
                                }
                            }
                            None => set(&mut val, *s, computed),
                        }
                    }
                }
            }
        }
    }
    if let Some(f) = fail {
        return Pred::Fails(f);
    }

    // ---- 4b: recorded rows vs committed rows
    if npo_complete {
        let mut recorded: hashbrown::HashMap<_, Box<dyn p3_circuit::tables::NonPrimitiveTrace<B::EF>>> =
            hashbrown::HashMap::new();
        for op_type in &circuit.non_primitive_trace_generator_order {
            let generator = &circuit.non_primitive_trace_generators[op_type];
            match generator(&op_states) {
                Ok(Some(t)) => {
                    recorded.insert(t.op_type(), t);
                }
                Ok(None) => {}
                Err(e) => return Pred::Unknown(format!("trace generator: {e:?}")),
            }
        }
        let rec = Traces {
            witness_trace: p3_circuit::tables::WitnessTrace::new(vec![]),
            const_trace: p3_circuit::tables::ConstTrace {
                index: vec![],
                values: vec![],
            },
            public_trace: p3_circuit::tables::PublicTrace {
                index: vec![],
                values: vec![],
            },
            alu_trace: p3_circuit::tables::AluTrace {
                op_kind: vec![],
                values: vec![],
                indices: vec![],
            },
            non_primitive_traces: recorded,
            tag_to_witness: Default::default(),
        };
        let is_npo = |l: &Loc| {
            matches!(
                l,
                Loc::Recompose { .. } | Loc::PosIn { .. } | Loc::PosIndexSum { .. } | Loc::PosFlag { .. }
            )
        };
        let lr: Vec<Loc> = fields::all_locs::<B>(&rec).into_iter().filter(is_npo).collect();
        let lc: Vec<Loc> = fields::all_locs::<B>(traces).into_iter().filter(is_npo).collect();
        if lr != lc {
            return Pred::Unknown("recorded NPO rows have a different shape".into());
        }
        for l in &lr {
            let flag = matches!(l, Loc::PosFlag { .. });
            if !flag && !committed(l) {
                continue;
            }
            // The index accumulator cell is meaningful only on rows that expose it through
            // the bus or belong to a Merkle chain; on sponge rows it is an unused cell.
            if let Loc::PosIndexSum { row } = l {
                let used = fields::poseidon_rows::<B>(traces)
                    .and_then(|p| p.operations.get(*row))
                    .is_some_and(|r| r.merkle_path || r.mmcs_ctl_enabled);
                if !used {
                    continue;
                }
            }
            let (x, y) = (fields::get::<B>(&rec, l), fields::get::<B>(traces, l));
            if x != y {
                let what = match l {
                    Loc::Recompose { .. } => "coeff",
                    Loc::PosIn { .. } => "input",
                    Loc::PosIndexSum { .. } => "index-sum",
                    _ => "flag",
                };
                let ty = match l {
                    Loc::Recompose { coeff: false, .. } => "recompose".to_string(),
                    Loc::Recompose { coeff: true, .. } => "recompose/coeff".to_string(),
                    _ => crate::backend::poseidon_op_type::<B>()
                        .map(|t| crate::backend::key_table(t.as_str()))
                        .unwrap_or_default(),
                };
                let mode = match l {
                    Loc::PosIn { row, .. } | Loc::PosIndexSum { row } | Loc::PosFlag { row, .. } => {
                        match fields::poseidon_rows::<B>(traces).and_then(|p| p.operations.get(*row)) {
                            Some(r) if r.merkle_path => ",merkle",
                            Some(_) => ",sponge",
                            None => "",
                        }
                    }
                    _ => "",
                };
                return Pred::Fails(clause(
                    format!("npo-row({ty}.{what}{mode})"),
                    format!("non-primitive row is not the function of the assignment: {l:?} committed {y:?}, function value {x:?}"),
                ));
            }
        }
    }

    match unknown {
        Some(u) => Pred::Unknown(u),
        None => Pred::Holds,
    }
}
