//! Small AIRs for the fixtures. They are the AIRs the repository's own tests use
//! (`p3_circuit::test_utils::FibonacciAir`, `recursion/tests/common::MulAir`,
//! `recursion/tests/preprocessing.rs::{AddAirNoPreprocessed, SubAirPartialPreprocessed,
//! PublicValueAir}`, `zk_aggregation.rs::AddAir`) plus the two lookup AIRs of upstream
//! `p3-batch-stark/tests/simple.rs` (`MulAirLookups` with a local and global lookups,
//! `FibAirLookups` with preprocessed column, public values and the receiving global lookup),
//! re-stated here because test modules cannot be imported. The only deliberate change: `MulAir`'s
//! "random" b-values come from a fixed formula instead of `SmallRng`, which removes the
//! `StandardUniform: Distribution<F>` bound and changes nothing the verifier sees.

use p3_air::{Air, AirBuilder, BaseAir, WindowAccess};
use p3_circuit::test_utils::FibonacciAir;
use p3_field::{Field, PrimeCharacteristicRing, PrimeField64};
use p3_lookup::{Count, InteractionBuilder};
use p3_matrix::dense::RowMajorMatrix;

// ------------------------------------------------------------------------------------------
// generic eval helpers (only need `AirBuilder`)

fn eval_fib<AB: AirBuilder>(b: &mut AB) {
    FibonacciAir {}.eval(b)
}

/// `a^(degree-1) * b = c` per repetition; preprocessed = (a, b) pairs, main = c.
fn eval_mul<AB: AirBuilder>(builder: &mut AB, degree: u64, reps: usize)
where
    AB::F: Field,
{
    let main = builder.main();
    let main_local = main.current_slice();
    let preprocessed = builder.preprocessed().clone();
    let preprocessed_local = preprocessed.current_slice();
    let preprocessed_next = preprocessed.next_slice();
    for (i, c) in main_local.iter().enumerate() {
        let prep_start = i * 2;
        let a = preprocessed_local[prep_start];
        let b = preprocessed_local[prep_start + 1];
        builder.assert_zero(a.into().exp_u64(degree - 1) * b - *c);
        builder.when_first_row().assert_eq(a * a + AB::Expr::ONE, b);
        let next_a = preprocessed_next[prep_start];
        builder
            .when_transition()
            .assert_eq(a + AB::Expr::from_u8(reps as u8), next_a);
    }
}

pub fn mul_traces<F: Field>(degree: u64, rows: usize, reps: usize) -> (RowMajorMatrix<F>, RowMajorMatrix<F>) {
    let mut main = F::zero_vec(rows * reps);
    let mut prep = F::zero_vec(rows * reps * 2);
    for i in 0..rows * reps {
        let row = i / reps;
        let a = F::from_usize(i);
        let b = if row == 0 {
            a.square() + F::ONE
        } else {
            // fixed stand-in for the test's SmallRng values
            F::from_usize(i * i * 7 + 3 * i + 11)
        };
        prep[2 * i] = a;
        prep[2 * i + 1] = b;
        main[i] = a.exp_u64(degree - 1) * b;
    }
    (RowMajorMatrix::new(main, reps), RowMajorMatrix::new(prep, reps * 2))
}

fn eval_add<AB: AirBuilder>(builder: &mut AB) {
    let main = builder.main();
    let l = main.current_slice();
    builder.assert_zero(l[0] + l[1] - l[2]);
}

pub fn add_trace<F: Field>(rows: usize, offset: usize) -> RowMajorMatrix<F> {
    let mut v = F::zero_vec(rows * 3);
    for r in 0..rows {
        let a = F::from_usize(r + offset);
        let b = F::from_usize(r + offset + 1);
        v[3 * r] = a;
        v[3 * r + 1] = b;
        v[3 * r + 2] = a + b;
    }
    RowMajorMatrix::new(v, 3)
}

fn eval_sub<AB: AirBuilder>(builder: &mut AB) {
    let main = builder.main();
    let l = main.current_slice();
    let preprocessed = builder.preprocessed().clone();
    let p = preprocessed.current_slice();
    builder.assert_zero(l[0] - p[0] - l[1]);
}

pub fn sub_traces<F: Field>(rows: usize) -> (RowMajorMatrix<F>, RowMajorMatrix<F>) {
    let mut m = F::zero_vec(rows * 2);
    let mut p = F::zero_vec(rows);
    for r in 0..rows {
        let a = F::from_usize(r + 10);
        let c = F::from_usize(5);
        m[2 * r] = a;
        m[2 * r + 1] = a - c;
        p[r] = c;
    }
    (RowMajorMatrix::new(m, 2), RowMajorMatrix::new(p, 1))
}

fn eval_pubval<AB: AirBuilder>(builder: &mut AB) {
    let main = builder.main();
    let l = main.current_slice();
    let pis = builder.public_values();
    let pi0 = pis[0];
    builder.when_first_row().assert_eq(l[0], pi0);
}

pub fn pubval_trace<F: Field>(rows: usize) -> (RowMajorMatrix<F>, Vec<F>) {
    let mut v = F::zero_vec(rows * 2);
    for r in 0..rows {
        v[2 * r] = F::from_usize(r + 42);
        v[2 * r + 1] = F::from_usize(r + 1);
    }
    let pv = v[0];
    (RowMajorMatrix::new(v, 2), vec![pv])
}

/// upstream `MulAir { reps }` (a*b=c, Fibonacci-linked rows, one extra LUT column)
fn eval_mul_fib<AB: AirBuilder>(builder: &mut AB, reps: usize) {
    let main = builder.main();
    let local = main.current_slice();
    let next = main.next_slice();
    for i in 0..reps {
        let s = i * 3;
        let a = local[s];
        let b = local[s + 1];
        let c = local[s + 2];
        builder.assert_eq(a * b, c);
        builder.when_transition().assert_eq(b, next[s]);
        builder.when_transition().assert_eq(a + b, next[s + 1]);
    }
}

pub fn mul_fib_trace<F: Field>(rows: usize, reps: usize) -> RowMajorMatrix<F> {
    let w = reps * 3 + 1;
    let mut v = F::zero_vec(rows * w);
    let last = w - 1;
    for rep in 0..reps {
        let mut a = F::ZERO;
        let mut b = F::ONE;
        for i in 0..rows {
            let idx = i * w + rep * 3;
            v[idx] = a;
            v[idx + 1] = b;
            v[idx + 2] = v[idx] * v[idx + 1];
            if i != rows - 1 {
                v[i * w + last] = b;
            }
            let t = a + b;
            a = b;
            b = t;
        }
    }
    RowMajorMatrix::new(v, w)
}

/// upstream `FibonacciAir { log_height }`: 2 columns, 3 public values, 1 preprocessed column
fn eval_fib_prep<AB: AirBuilder>(builder: &mut AB) {
    // identical constraints to the repo's FibonacciAir (the preprocessed column is committed
    // and opened but not referenced by a constraint — as upstream)
    eval_fib(builder)
}

pub fn fib_n(n: usize) -> u64 {
    let (mut a, mut b) = (0u64, 1u64);
    for _ in 0..n {
        let t = a + b;
        a = b;
        b = t;
    }
    a
}

pub fn fib_trace<F: PrimeField64>(n: usize) -> RowMajorMatrix<F> {
    p3_circuit::test_utils::generate_trace_rows::<F>(0, 1, n)
}

// ------------------------------------------------------------------------------------------
// uni-STARK AIRs (bound: any AirBuilder)

#[derive(Clone, Debug, PartialEq, Eq)]
pub enum UAir {
    /// repo `FibonacciAir`, n rows, public values (0, 1, F(n))… see `uni_instance`
    Fib,
    /// repo tests' `MulAir` with preprocessed columns
    Mul { degree: u64, rows: usize, reps: usize },
    /// two periodic columns (periods 2 and 4): y = x·p0 + p1 on every row
    Periodic,
    /// a + b = c on every row, declared without next-row access (no `trace_next` opening)
    AddNoNext,
}

pub const PERIODIC_COLS: [&[u64]; 2] = [&[3, 5], &[1, 2, 3, 4]];

fn eval_periodic<AB: AirBuilder>(builder: &mut AB) {
    let main = builder.main();
    let l = main.current_slice();
    let (x, y) = (l[0].clone(), l[1].clone());
    let p = builder.periodic_values();
    let (p0, p1): (AB::Expr, AB::Expr) = (p[0].clone().into(), p[1].clone().into());
    let x: AB::Expr = x.into();
    let y: AB::Expr = y.into();
    builder.assert_zero(y - x * p0 - p1);
}

pub fn periodic_trace<F: Field>(rows: usize) -> RowMajorMatrix<F> {
    let mut v = F::zero_vec(rows * 2);
    for r in 0..rows {
        let x = F::from_usize(r + 1);
        v[2 * r] = x;
        v[2 * r + 1] = x * F::from_u64(PERIODIC_COLS[0][r % 2]) + F::from_u64(PERIODIC_COLS[1][r % 4]);
    }
    RowMajorMatrix::new(v, 2)
}

impl<F: Field> BaseAir<F> for UAir {
    fn main_next_row_columns(&self) -> Vec<usize> {
        match self {
            UAir::AddNoNext => vec![],
            _ => (0..<Self as BaseAir<F>>::width(self)).collect(),
        }
    }
    fn num_periodic_columns(&self) -> usize {
        match self {
            UAir::Periodic => 2,
            _ => 0,
        }
    }
    fn periodic_columns(&self) -> Vec<Vec<F>> {
        match self {
            UAir::Periodic => PERIODIC_COLS.iter().map(|c| c.iter().map(|v| F::from_u64(*v)).collect()).collect(),
            _ => vec![],
        }
    }

    fn width(&self) -> usize {
        match self {
            UAir::Fib | UAir::Periodic => 2,
            UAir::AddNoNext => 3,
            UAir::Mul { reps, .. } => *reps,
        }
    }
    fn num_public_values(&self) -> usize {
        match self {
            UAir::Fib => 3,
            UAir::Mul { .. } | UAir::Periodic | UAir::AddNoNext => 0,
        }
    }
    fn preprocessed_width(&self) -> usize {
        match self {
            UAir::Fib | UAir::Periodic | UAir::AddNoNext => 0,
            UAir::Mul { reps, .. } => reps * 2,
        }
    }
    fn preprocessed_trace(&self) -> Option<RowMajorMatrix<F>> {
        match self {
            UAir::Fib | UAir::Periodic | UAir::AddNoNext => None,
            UAir::Mul { degree, rows, reps } => Some(mul_traces::<F>(*degree, *rows, *reps).1),
        }
    }
}

impl<AB: AirBuilder> Air<AB> for UAir
where
    AB::F: Field,
{
    fn eval(&self, builder: &mut AB) {
        match self {
            UAir::Fib => eval_fib(builder),
            UAir::Mul { degree, reps, .. } => eval_mul(builder, *degree, *reps),
            UAir::Periodic => eval_periodic(builder),
            UAir::AddNoNext => eval_add(builder),
        }
    }
}

// ------------------------------------------------------------------------------------------
// batch-STARK AIRs (bound: InteractionBuilder)

#[derive(Clone, Debug, PartialEq, Eq)]
pub enum BAir {
    Fib,
    Mul { degree: u64, rows: usize, reps: usize },
    Add,
    /// `Add` declaring that it never reads the next row (trace_next opening suppressed)
    AddNoNext,
    Sub { rows: usize },
    PubVal,
    /// upstream MulAirLookups: local lookup (a vs LUT column) and/or global sends on "MulFib"
    MulLk { reps: usize, local: bool, global: bool },
    /// upstream FibAirLookups: preprocessed column, 3 public values, receives `mult` copies on "MulFib"
    FibLk { log_height: usize, global: bool, mult: u64 },
    /// two periodic columns (periods 2 and 4, the same tables whatever the height): y = x·p0 + p1
    Periodic,
}

impl<F: Field> BaseAir<F> for BAir {
    fn num_periodic_columns(&self) -> usize {
        match self {
            BAir::Periodic => 2,
            _ => 0,
        }
    }
    fn periodic_columns(&self) -> Vec<Vec<F>> {
        match self {
            BAir::Periodic => PERIODIC_COLS.iter().map(|c| c.iter().map(|v| F::from_u64(*v)).collect()).collect(),
            _ => vec![],
        }
    }
    fn width(&self) -> usize {
        match self {
            BAir::Fib | BAir::FibLk { .. } | BAir::PubVal | BAir::Sub { .. } | BAir::Periodic => 2,
            BAir::Mul { reps, .. } => *reps,
            BAir::Add | BAir::AddNoNext => 3,
            BAir::MulLk { reps, .. } => reps * 3 + 1,
        }
    }
    fn num_public_values(&self) -> usize {
        match self {
            BAir::Fib | BAir::FibLk { .. } => 3,
            BAir::PubVal => 1,
            _ => 0,
        }
    }
    fn preprocessed_width(&self) -> usize {
        match self {
            BAir::Mul { reps, .. } => reps * 2,
            BAir::Sub { .. } | BAir::FibLk { .. } => 1,
            _ => 0,
        }
    }
    fn preprocessed_trace(&self) -> Option<RowMajorMatrix<F>> {
        match self {
            BAir::Mul { degree, rows, reps } => Some(mul_traces::<F>(*degree, *rows, *reps).1),
            BAir::Sub { rows } => Some(sub_traces::<F>(*rows).1),
            BAir::FibLk { log_height, .. } => {
                let n = 1usize << log_height;
                Some(RowMajorMatrix::new(
                    (0..n).map(|i| F::from_usize(i)).collect(),
                    1,
                ))
            }
            _ => None,
        }
    }
    fn main_next_row_columns(&self) -> Vec<usize> {
        match self {
            BAir::AddNoNext => vec![],
            _ => (0..<Self as BaseAir<F>>::width(self)).collect(),
        }
    }
}

impl<AB: AirBuilder + InteractionBuilder> Air<AB> for BAir
where
    AB::F: Field,
{
    fn eval(&self, builder: &mut AB) {
        match self {
            BAir::Fib => eval_fib(builder),
            BAir::Mul { degree, reps, .. } => eval_mul(builder, *degree, *reps),
            BAir::Add | BAir::AddNoNext => eval_add(builder),
            BAir::Sub { .. } => eval_sub(builder),
            BAir::PubVal => eval_pubval(builder),
            BAir::Periodic => eval_periodic(builder),
            BAir::MulLk { reps, local, global } => {
                eval_mul_fib(builder, *reps);
                let main = builder.main();
                let row = main.current_slice();
                let last_idx = reps * 3;
                let lut = row[last_idx];
                for rep in 0..*reps {
                    let a = row[rep * 3];
                    let b = row[rep * 3 + 1];
                    if *local {
                        builder.push_local_interaction(vec![
                            (vec![a.into()], Count::bounded(AB::Expr::ONE, 1)),
                            (vec![lut.into()], Count::provided(-AB::Expr::ONE)),
                        ]);
                    }
                    if *global {
                        builder.push_interaction("MulFib", [a.into(), b.into()], -1);
                    }
                }
            }
            BAir::FibLk { global, mult, .. } => {
                eval_fib_prep(builder);
                if *global {
                    let main = builder.main();
                    let left = main.current(0).unwrap();
                    let right = main.current(1).unwrap();
                    builder.push_interaction(
                        "MulFib",
                        [left.into(), right.into()],
                        Count::bounded(AB::Expr::from_u64(*mult), *mult as u32),
                    );
                }
            }
        }
    }
}

/// Main trace + public values of a `BAir` instance with `rows` rows.
pub fn bair_instance<F: PrimeField64>(air: &BAir, rows: usize) -> (RowMajorMatrix<F>, Vec<F>) {
    match air {
        BAir::Fib | BAir::FibLk { .. } => (
            fib_trace::<F>(rows),
            vec![F::ZERO, F::ONE, F::from_u64(fib_n(rows))],
        ),
        BAir::Mul { degree, rows: r, reps } => (mul_traces::<F>(*degree, *r, *reps).0, vec![]),
        BAir::Add | BAir::AddNoNext => (add_trace::<F>(rows, 0), vec![]),
        BAir::Sub { rows: r } => (sub_traces::<F>(*r).0, vec![]),
        BAir::PubVal => pubval_trace::<F>(rows),
        BAir::MulLk { reps, .. } => (mul_fib_trace::<F>(rows, *reps), vec![]),
        BAir::Periodic => (periodic_trace::<F>(rows), vec![]),
    }
}

pub fn uair_instance<F: PrimeField64>(air: &UAir, rows: usize) -> (RowMajorMatrix<F>, Vec<F>) {
    match air {
        UAir::Fib => (
            fib_trace::<F>(rows),
            vec![F::ZERO, F::ONE, F::from_u64(fib_n(rows))],
        ),
        UAir::Mul { degree, rows: r, reps } => (mul_traces::<F>(*degree, *r, *reps).0, vec![]),
        UAir::Periodic => (periodic_trace::<F>(rows), vec![]),
        UAir::AddNoNext => (add_trace::<F>(rows, 0), vec![]),
    }
}
