//! The finite configuration list of E4.
//!
//! {BabyBear D4 Poseidon2-W16, KoalaBear D4 Poseidon2-W16, KoalaBear quintic D5 (D1 permutation +
//! recompose/coeff), Goldilocks D2 Poseidon2-W8} × {uni-STARK, batch-STARK (arbitrary AIRs),
//! batch-STARK (circuit tables)} × {TwoAdicFriPcs, HidingFriPcs (ZK)} × {no preprocessed,
//! preprocessed} × {no lookups, local+global lookups, global bus of the circuit tables}
//! × FRI parameter sets. Not every cell of the product exists (e.g. the uni-STARK recursive
//! verifier refuses lookups by design); the list below is what is enumerated, the `desc` of every
//! fixture says which cell it is.

use crate::airs::{BAir, UAir};
use crate::families::*;
use crate::fixture::{Fixture, FixtureSpec, FriSpec};

fn spec(name: String, quick: bool, make: impl Fn() -> Result<Fixture, String> + Send + Sync + 'static) -> FixtureSpec {
    FixtureSpec { name, quick, make: Box::new(make) }
}

fn mul_u() -> UAir {
    UAir::Mul { degree: 2, rows: 8, reps: 3 }
}
fn mixed3() -> (Vec<BAir>, Vec<usize>) {
    // MulAir (preprocessed), AddAirNoPreprocessed, SubAirPartialPreprocessed — three heights
    (
        vec![BAir::Mul { degree: 2, rows: 16, reps: 3 }, BAir::Add, BAir::Sub { rows: 4 }],
        vec![16, 8, 4],
    )
}
/// The preprocessed commitment's tallest matrix (8 rows) is shorter than the tallest main trace
/// (16 rows): the smallest shape showing the known finding "input-batch MMCS path uses the global
/// height" (honest proof accepted natively, `set_fri_mmcs_private_data` fails).
fn prep_shorter_than_main() -> (Vec<BAir>, Vec<usize>) {
    (vec![BAir::Add, BAir::Sub { rows: 8 }], vec![16, 8])
}
/// same AIRs, taller (FRI sets with a long final polynomial need log_min_height > final + blowup)
fn mixed3_tall() -> (Vec<BAir>, Vec<usize>) {
    (
        vec![BAir::Mul { degree: 2, rows: 32, reps: 3 }, BAir::Add, BAir::Sub { rows: 8 }],
        vec![32, 16, 8],
    )
}
fn pubval_nonext() -> (Vec<BAir>, Vec<usize>) {
    (vec![BAir::PubVal, BAir::AddNoNext], vec![8, 8])
}
fn lookups_lg() -> (Vec<BAir>, Vec<usize>) {
    (
        vec![
            BAir::MulLk { reps: 2, local: true, global: true },
            BAir::FibLk { log_height: 3, global: true, mult: 2 },
        ],
        vec![8, 8],
    )
}
fn lookups_lg16() -> (Vec<BAir>, Vec<usize>) {
    (
        vec![
            BAir::MulLk { reps: 2, local: true, global: true },
            BAir::FibLk { log_height: 4, global: true, mult: 2 },
        ],
        vec![16, 16],
    )
}
fn add_zk() -> (Vec<BAir>, Vec<usize>) {
    // zk_aggregation.rs / fibonacci_batch_stark_prover_zk.rs: AddAir
    (vec![BAir::Add], vec![16])
}

macro_rules! uni {
    ($v:ident, $m:ident, $quick:expr, $air:expr, $tag:expr, $rows:expr, $fs:expr) => {{
        let fs: FriSpec = $fs;
        let name = format!("{}/uni/{}/{}/{}", $m::LABEL, $m::PCS_LABEL, $tag, fs.tag);
        $v.push(spec(name, $quick, move || $m::uni_fixture($air, $tag, $rows, fs.clone())));
    }};
}
macro_rules! batch {
    ($v:ident, $m:ident, $quick:expr, $set:expr, $tag:expr, $fs:expr) => {{
        let fs: FriSpec = $fs;
        let name = format!("{}/batch/{}/{}/{}", $m::LABEL, $m::PCS_LABEL, $tag, fs.tag);
        $v.push(spec(name, $quick, move || {
            let (airs, rows) = $set;
            $m::batch_fixture(airs, $tag, rows, fs.clone())
        }));
    }};
}
macro_rules! ct {
    ($v:ident, $m:ident, $base:ident, $d:expr, $n:expr, $quick:expr, $fs:expr) => {{
        let fs: FriSpec = $fs;
        let name = format!("{}/batch/{}/circuit_tables_arith{}_d{}/{}", $base::LABEL, $base::PCS_LABEL, $n, $d, fs.tag);
        $v.push(spec(name, $quick, move || $m::ct_fixture($n, fs.clone())));
    }};
}

/// Every configuration (quick-tier members are flagged; order = family by family).
pub fn catalogue() -> Vec<FixtureSpec> {
    let mut v: Vec<FixtureSpec> = vec![];
    let (t, b1, b2) = (FriSpec::TESTING, FriSpec::B1_ARITY2, FriSpec::B2_ARITY3);
    let c1 = FriSpec::TESTING_CAP1;
    let q = true; // member of the quick tier

    // ---- BabyBear D4, Poseidon2 W16, TwoAdicFriPcs
    uni!(v, bb, q, UAir::Fib, "fib8", 8, t.clone());
    uni!(v, bb, false, UAir::Fib, "fib8", 8, b1.clone());
    uni!(v, bb, q, UAir::Fib, "fib8", 8, b2.clone());
    uni!(v, bb, false, UAir::Fib, "fib8", 8, c1.clone());
    uni!(v, bb, false, UAir::Fib, "fib32", 32, b1.clone());
    uni!(v, bb, false, UAir::Fib, "fib64", 64, t.clone());
    uni!(v, bb, false, mul_u(), "mul_prep", 8, t.clone());
    uni!(v, bb, q, mul_u(), "mul_prep", 8, b1.clone());
    uni!(v, bb, false, UAir::Mul { degree: 3, rows: 8, reps: 20 }, "mul20_deg3_prep", 8, t.clone());
    batch!(v, bb, q, mixed3(), "mixed3_prep", t.clone());
    batch!(v, bb, false, mixed3_tall(), "mixed3_prep_tall", b2.clone());
    batch!(v, bb, q, pubval_nonext(), "pubval_nonext", t.clone());
    batch!(v, bb, false, lookups_lg(), "lookups_local_global", t.clone());
    batch!(v, bb, false, lookups_lg(), "lookups_local_global", b1.clone());
    batch!(v, bb, q, lookups_lg(), "lookups_local_global", c1.clone());
    batch!(v, bb, false, lookups_lg16(), "lookups_local_global16", b2.clone());
    ct!(v, bb_ct, bb, 1, 10, q, t.clone());
    // known finding: input-batch MMCS path depth taken from the global height
    batch!(v, bb, q, prep_shorter_than_main(), "prep_shorter_than_main", t.clone());

    // ---- BabyBear D4, HidingFriPcs (ZK)
    // known finding: uni-STARK circuit does not observe the FRI-level random openings
    uni!(v, bb_zk, q, UAir::Fib, "fib8", 8, t.clone());
    batch!(v, bb_zk, false, add_zk(), "add16", t.clone());
    batch!(v, bb_zk, false, mixed3(), "mixed3_prep", t.clone());
    batch!(v, bb_zk, q, lookups_lg(), "lookups_local_global", t.clone());
    batch!(v, bb_zk, false, pubval_nonext(), "pubval_nonext", b2.clone());

    // ---- KoalaBear D4
    uni!(v, kb, false, UAir::Fib, "fib8", 8, t.clone());
    uni!(v, kb, false, UAir::Fib, "fib8", 8, b1.clone());
    uni!(v, kb, false, UAir::Fib, "fib8", 8, b2.clone());
    uni!(v, kb, false, mul_u(), "mul_prep", 8, b1.clone());
    batch!(v, kb, q, mixed3(), "mixed3_prep", b1.clone());
    batch!(v, kb, false, pubval_nonext(), "pubval_nonext", b2.clone());
    batch!(v, kb, q, lookups_lg(), "lookups_local_global", t.clone());
    batch!(v, kb, false, lookups_lg(), "lookups_local_global", b1.clone());
    batch!(v, kb, false, lookups_lg(), "lookups_local_global", b2.clone());
    ct!(v, kb_ct, kb, 1, 10, false, t.clone());
    batch!(v, kb_zk, false, add_zk(), "add16", t.clone());
    batch!(v, kb_zk, false, lookups_lg(), "lookups_local_global", b2.clone());

    // ---- KoalaBear quintic (D=5, base-field permutation + recompose/coeff)
    uni!(v, kbq, false, UAir::Fib, "fib8", 8, t.clone());
    uni!(v, kbq, false, mul_u(), "mul_prep", 8, b1.clone());
    batch!(v, kbq, q, lookups_lg(), "lookups_local_global", t.clone());
    batch!(v, kbq, false, mixed3(), "mixed3_prep", b1.clone());
    ct!(v, kbq_ct, kbq, 5, 10, false, t.clone());

    // ---- Goldilocks D2, Poseidon2 width 8
    uni!(v, gl, q, UAir::Fib, "fib8", 8, t.clone());
    uni!(v, gl, false, UAir::Fib, "fib8", 8, b1.clone());
    uni!(v, gl, false, UAir::Fib, "fib8", 8, b2.clone());
    uni!(v, gl, false, mul_u(), "mul_prep", 8, t.clone());
    batch!(v, gl, false, mixed3(), "mixed3_prep", t.clone());
    batch!(v, gl, q, lookups_lg(), "lookups_local_global", t.clone());
    batch!(v, gl, false, pubval_nonext(), "pubval_nonext", b1.clone());

    v
}

pub fn find_spec(name: &str) -> Option<FixtureSpec> {
    catalogue().into_iter().find(|s| s.name == name)
}
