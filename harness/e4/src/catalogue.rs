//! The finite configuration list of E4.
//!
//! {BabyBear D4 Poseidon2-W16, KoalaBear D4 Poseidon2-W16, KoalaBear quintic D5 (D1 permutation +
//! recompose/coeff), Goldilocks D2 Poseidon2-W8} × {uni-STARK, batch-STARK (arbitrary AIRs),
//! batch-STARK (circuit tables)} × {TwoAdicFriPcs, HidingFriPcs (ZK)} × {no preprocessed,
//! preprocessed} × {no lookups, local+global lookups, global bus of the circuit tables}
//! × FRI parameter sets. Not every cell of the product exists (e.g. the uni-STARK recursive
//! verifier refuses lookups by design); the list below is what is enumerated, the `desc` of every
//! fixture says which cell it is.

use crate::airs::{BAir, UAir};
use crate::families::*;
use crate::fixture::{Fixture, FixtureSpec, FriSpec};

fn spec(name: String, quick: bool, make: impl Fn() -> Result<Fixture, String> + Send + Sync + 'static) -> FixtureSpec {
    FixtureSpec { name, quick, make: Box::new(make) }
}

fn mul_u() -> UAir {
    UAir::Mul { degree: 2, rows: 8, reps: 3 }
}
fn mixed3() -> (Vec<BAir>, Vec<usize>) {
    // MulAir (preprocessed), AddAirNoPreprocessed, SubAirPartialPreprocessed — three heights
    (
        vec![BAir::Mul { degree: 2, rows: 16, reps: 3 }, BAir::Add, BAir::Sub { rows: 4 }],
        vec![16, 8, 4],
    )
}
/// The preprocessed commitment's tallest matrix (8 rows) is shorter than the tallest main trace
/// (16 rows): the smallest shape showing the known finding "input-batch MMCS path uses the global
/// height" (honest proof accepted natively, `set_fri_mmcs_private_data` fails).
fn prep_shorter_than_main() -> (Vec<BAir>, Vec<usize>) {
    (vec![BAir::Add, BAir::Sub { rows: 8 }], vec![16, 8])
}
/// same AIRs, taller (FRI sets with a long final polynomial need log_min_height > final + blowup)
fn mixed3_tall() -> (Vec<BAir>, Vec<usize>) {
    (
        vec![BAir::Mul { degree: 2, rows: 32, reps: 3 }, BAir::Add, BAir::Sub { rows: 8 }],
        vec![32, 16, 8],
    )
}
fn pubval_nonext() -> (Vec<BAir>, Vec<usize>) {
    (vec![BAir::PubVal, BAir::AddNoNext], vec![8, 8])
}
fn lookups_lg() -> (Vec<BAir>, Vec<usize>) {
    (
        vec![
            BAir::MulLk { reps: 2, local: true, global: true },
            BAir::FibLk { log_height: 3, global: true, mult: 2 },
        ],
        vec![8, 8],
    )
}
/// an instance whose lookups are ALL local (its terminal takes part in no cross-instance bus:
/// only the terminal-sum check makes its local argument balance), next to a plain instance
fn lookups_local_only() -> (Vec<BAir>, Vec<usize>) {
    (vec![BAir::MulLk { reps: 2, local: true, global: false }, BAir::Add], vec![8, 8])
}
/// three instances with the SAME periodic tables at different heights (8, 16, 8) next to a plain one
fn periodic_heights() -> (Vec<BAir>, Vec<usize>) {
    (vec![BAir::Periodic, BAir::Periodic, BAir::Add, BAir::Periodic], vec![8, 16, 8, 8])
}
fn lookups_lg16() -> (Vec<BAir>, Vec<usize>) {
    (
        vec![
            BAir::MulLk { reps: 2, local: true, global: true },
            BAir::FibLk { log_height: 4, global: true, mult: 2 },
        ],
        vec![16, 16],
    )
}
/// Two one-row instances (trace LDE is a constant polynomial, opened at `zeta` and `zeta*g`) next
/// to a 16-row one: their next-row claims are read by no constraint, so only the FRI arithmetic
/// (the "constant polynomial" branch of `open_input`) ties them to the commitment.
fn one_row_instances() -> (Vec<BAir>, Vec<usize>) {
    (vec![BAir::Mul { degree: 2, rows: 16, reps: 3 }, BAir::Sub { rows: 1 }, BAir::Add], vec![16, 1, 1])
}
fn add_zk() -> (Vec<BAir>, Vec<usize>) {
    // zk_aggregation.rs / fibonacci_batch_stark_prover_zk.rs: AddAir
    (vec![BAir::Add], vec![16])
}

macro_rules! uni {
    ($v:ident, $m:ident, $quick:expr, $air:expr, $tag:expr, $rows:expr, $fs:expr) => {{
        let fs: FriSpec = $fs;
        let name = format!("{}/uni/{}/{}/{}", $m::LABEL, $m::PCS_LABEL, $tag, fs.tag);
        $v.push(spec(name, $quick, move || $m::uni_fixture($air, $tag, $rows, fs.clone())));
    }};
}
macro_rules! batch {
    ($v:ident, $m:ident, $quick:expr, $set:expr, $tag:expr, $fs:expr) => {{
        let fs: FriSpec = $fs;
        let name = format!("{}/batch/{}/{}/{}", $m::LABEL, $m::PCS_LABEL, $tag, fs.tag);
        $v.push(spec(name, $quick, move || {
            let (airs, rows) = $set;
            $m::batch_fixture(airs, $tag, rows, fs.clone())
        }));
    }};
}
macro_rules! ct {
    ($v:ident, $m:ident, $base:ident, $d:expr, $n:expr, $quick:expr, $fs:expr) => {{
        let fs: FriSpec = $fs;
        let name = format!("{}/batch/{}/circuit_tables_arith{}_d{}/{}", $base::LABEL, $base::PCS_LABEL, $n, $d, fs.tag);
        $v.push(spec(name, $quick, move || $m::ct_fixture($n, fs.clone())));
    }};
}

/// Names of the quick-tier cross-section: every family, both STARK flavours, both PCS kinds,
/// preprocessed / lookups / public values / suppressed next-row opening / circuit tables, all four
/// FRI parameter sets, and the two known-finding shapes.
const QUICK: &[&str] = &[
    "babybear_d4_p2w16/uni/fri/fib8/fri_testing",
    "babybear_d4_p2w16/uni/fri/fib8/fri_b2_a3_f2",
    "babybear_d4_p2w16/uni/fri/mul_prep/fri_b1_a2_f1",
    "babybear_d4_p2w16/batch/fri/mixed3_prep/fri_testing",
    "babybear_d4_p2w16/batch/fri/pubval_nonext/fri_testing",
    "babybear_d4_p2w16/batch/fri/lookups_local_global/fri_testing_cap1",
    "babybear_d4_p2w16/batch/fri/lookups_local_global/fri_b1_a2_f1",
    "babybear_d4_p2w16/batch/fri/circuit_tables_arith10_d1/fri_testing",
    "babybear_d4_p2w16/batch/fri/prep_shorter_than_main/fri_testing",
    "babybear_d4_p2w16/batch/fri/one_row_instances/fri_testing",
    "babybear_d4_p2w16/uni/fri/periodic8/fri_testing",
    "babybear_d4_p2w16/batch/fri/lookups_local_only/fri_testing",
    "babybear_d4_p2w16/batch/fri/periodic_heights/fri_testing",
    "babybear_d4_p2w16/uni/fri/add_nonext8/fri_testing",
    "babybear_d4_p2w16/uni/hiding_fri/fib8/fri_testing",
    "babybear_d4_p2w16/batch/hiding_fri/lookups_local_global/fri_testing",
    "koalabear_d4_p2w16/uni/fri/mul_prep/fri_testing",
    "koalabear_d4_p2w16/batch/fri/mixed3_prep/fri_b1_a2_f1",
    "koalabear_d4_p2w16/batch/fri/lookups_local_global/fri_testing",
    "koalabear_d4_p2w16/batch/hiding_fri/add16/fri_testing",
    "koalabear_quintic_d5_p2w16d1/uni/fri/fib8/fri_testing",
    "koalabear_quintic_d5_p2w16d1/batch/fri/lookups_local_global/fri_testing",
    "goldilocks_d2_p2w8/uni/fri/fib8/fri_testing",
    "goldilocks_d2_p2w8/batch/fri/mixed3_prep_tall/fri_b2_a3_f2",
    "goldilocks_d2_p2w8/batch/fri/lookups_local_global/fri_testing",
];

/// Every configuration: the cross product family × object kind × FRI set (cells that Plonky3
/// itself cannot prove are left out: blow-up 2 with the hiding PCS; short traces with the long
/// final polynomial use the `_tall` variant), plus the extra shapes at the end.
pub fn catalogue() -> Vec<FixtureSpec> {
    let mut v: Vec<FixtureSpec> = vec![];
    let (t, b1, b2) = (FriSpec::TESTING, FriSpec::B1_ARITY2, FriSpec::B2_ARITY3);
    let c1 = FriSpec::TESTING_CAP1;

    macro_rules! plain_family {
        ($m:ident) => {
            for fs in [t.clone(), b1.clone(), b2.clone(), c1.clone()] {
                let tall = fs.tag == "fri_b2_a3_f2";
                uni!(v, $m, false, UAir::Fib, "fib8", 8, fs.clone());
                uni!(v, $m, false, mul_u(), "mul_prep", 8, fs.clone());
                if tall {
                    batch!(v, $m, false, mixed3_tall(), "mixed3_prep_tall", fs.clone());
                } else {
                    batch!(v, $m, false, mixed3(), "mixed3_prep", fs.clone());
                }
                batch!(v, $m, false, pubval_nonext(), "pubval_nonext", fs.clone());
                batch!(v, $m, false, lookups_lg(), "lookups_local_global", fs.clone());
            }
        };
    }
    macro_rules! zk_family {
        ($m:ident) => {
            for fs in [t.clone(), b2.clone(), c1.clone()] {
                let tall = fs.tag == "fri_b2_a3_f2";
                batch!(v, $m, false, add_zk(), "add16", fs.clone());
                if tall {
                    batch!(v, $m, false, mixed3_tall(), "mixed3_prep_tall", fs.clone());
                } else {
                    batch!(v, $m, false, mixed3(), "mixed3_prep", fs.clone());
                }
                batch!(v, $m, false, pubval_nonext(), "pubval_nonext", fs.clone());
                batch!(v, $m, false, lookups_lg(), "lookups_local_global", fs.clone());
            }
        };
    }

    // ---- BabyBear D4, Poseidon2 W16
    plain_family!(bb);
    uni!(v, bb, false, UAir::Fib, "fib32", 32, b1.clone());
    uni!(v, bb, false, UAir::Fib, "fib64", 64, t.clone());
    uni!(v, bb, false, UAir::Mul { degree: 3, rows: 8, reps: 20 }, "mul20_deg3_prep", 8, t.clone());
    batch!(v, bb, false, lookups_lg16(), "lookups_local_global16", b2.clone());
    ct!(v, bb_ct, bb, 1, 10, false, t.clone());
    // known finding: input-batch MMCS path depth taken from the global height
    batch!(v, bb, false, prep_shorter_than_main(), "prep_shorter_than_main", t.clone());
    // an AIR with periodic columns (periods 2 and 4) under the uni-STARK verifier
    uni!(v, bb, false, UAir::Periodic, "periodic8", 8, t.clone());
    uni!(v, bb, false, UAir::Periodic, "periodic16", 16, b1.clone());
    // an AIR that declares no next-row access under the uni-STARK verifier (no trace_next opening)
    uni!(v, bb, false, UAir::AddNoNext, "add_nonext8", 8, t.clone());
    batch!(v, bb, false, periodic_heights(), "periodic_heights", t.clone());
    batch!(v, bb_zk, false, periodic_heights(), "periodic_heights", t.clone());
    batch!(v, bb, false, lookups_local_only(), "lookups_local_only", t.clone());
    batch!(v, bb_zk, false, lookups_local_only(), "lookups_local_only", t.clone());
    batch!(v, bb, false, one_row_instances(), "one_row_instances", t.clone());
    batch!(v, bb, false, one_row_instances(), "one_row_instances", c1.clone());
    // known finding: uni-STARK circuit does not observe the FRI-level random openings
    uni!(v, bb_zk, false, UAir::Fib, "fib8", 8, t.clone());
    zk_family!(bb_zk);

    // ---- KoalaBear D4
    plain_family!(kb);
    ct!(v, kb_ct, kb, 1, 10, false, t.clone());
    zk_family!(kb_zk);

    // ---- KoalaBear quintic (D=5, base-field permutation + recompose/coeff)
    plain_family!(kbq);
    ct!(v, kbq_ct, kbq, 5, 10, false, t.clone());

    // ---- Goldilocks D2, Poseidon2 width 8
    plain_family!(gl);

    for s in v.iter_mut() {
        s.quick = QUICK.contains(&s.name.as_str());
    }
    debug_assert!(QUICK.iter().all(|q| v.iter().any(|s| s.name == *q)));
    v
}

/// Quick-tier names that do not exist in the catalogue (must be empty; checked by C01 at start-up).
pub fn missing_quick_names() -> Vec<String> {
    let v = catalogue();
    QUICK.iter().filter(|q| !v.iter().any(|s| s.name == **q)).map(|s| s.to_string()).collect()
}

pub fn find_spec(name: &str) -> Option<FixtureSpec> {
    catalogue().into_iter().find(|s| s.name == name)
}
