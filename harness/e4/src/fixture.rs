//! Fixtures: one honest (proof, public values, verifying data) object per configuration,
//! with the two judges of the differential — `native_verify` (Plonky3's own verifier) and
//! `circuit_verify` (the repository's verification circuit, built per tree skeleton with the
//! real API and run with the real runner).
//!
//! Threading model. Several Plonky3 config types are not `Sync` (e.g. `HidingFriPcs` keeps its
//! RNG in a `RefCell`), and `Circuit` holds boxed executors. Every typed object therefore lives
//! in a per-thread *engine* created lazily by the fixture's factory; the fixture itself only
//! holds JSON and the factory and is `Send + Sync`, so fault loops can simply `par_iter`.

use std::cell::RefCell;
use std::collections::HashMap;
use std::sync::Arc;
use std::sync::atomic::{AtomicU64, Ordering};

use serde_json::{Value, json};

#[derive(Clone, Debug, PartialEq, Eq)]
pub enum Verdict {
    /// native: `Ok(())`; circuit: built, inputs set, `runner.run()` returned `Ok`
    Accept,
    /// an `Err` anywhere (kind = stage + error variant, e.g. `run:WitnessConflict`,
    /// `build:InvalidProofShape`, `OodEvaluationMismatch`)
    Reject(String),
    /// a panic (message @ file:line) — for C01 a rejection *if the other side rejects too*;
    /// C15 owns the no-panic clause
    Panic(String),
    /// the tree does not deserialise back into the typed proof
    NotAProof(String),
}

impl Verdict {
    pub fn accepts(&self) -> bool {
        matches!(self, Verdict::Accept)
    }
    /// `Reject` or `Panic`
    pub fn rejects(&self) -> bool {
        matches!(self, Verdict::Reject(_) | Verdict::Panic(_))
    }
    pub fn is_panic(&self) -> bool {
        matches!(self, Verdict::Panic(_))
    }
    pub fn not_a_proof(&self) -> bool {
        matches!(self, Verdict::NotAProof(_))
    }
    /// short histogram tag
    pub fn tag(&self) -> String {
        match self {
            Verdict::Accept => "accept".into(),
            Verdict::Reject(k) => format!("reject:{k}"),
            Verdict::Panic(m) => {
                let loc = m.rsplit(" @ ").next().unwrap_or("");
                format!("panic@{loc}")
            }
            Verdict::NotAProof(_) => "not_a_proof".into(),
        }
    }
    pub fn to_json(&self) -> Value {
        match self {
            Verdict::Accept => json!("accept"),
            Verdict::Reject(k) => json!({"reject": k}),
            Verdict::Panic(m) => json!({"panic": m}),
            Verdict::NotAProof(m) => json!({"not_a_proof": m}),
        }
    }
}

/// Leading identifiers of a `Debug` rendering: `Circuit(WitnessConflict { .. })` →
/// `Circuit/WitnessConflict`.
pub fn err_kind<E: core::fmt::Debug>(e: &E) -> String {
    let s = format!("{e:?}");
    let mut out = String::new();
    let mut it = s.chars().peekable();
    for _level in 0..3 {
        let mut ident = String::new();
        while let Some(&c) = it.peek() {
            if c.is_alphanumeric() || c == '_' {
                ident.push(c);
                it.next();
            } else {
                break;
            }
        }
        if ident.is_empty() {
            break;
        }
        if !out.is_empty() {
            out.push('/');
        }
        out.push_str(&ident);
        match it.peek() {
            Some('(') => {
                it.next();
            }
            _ => break,
        }
    }
    if out.is_empty() { s.chars().take(40).collect() } else { out }
}

/// FRI parameter set of a configuration (everything `FriParameters` and the MMCS take).
#[derive(Clone, Debug, PartialEq, Eq)]
pub struct FriSpec {
    pub tag: &'static str,
    pub log_blowup: usize,
    pub log_final_poly_len: usize,
    pub max_log_arity: usize,
    pub num_queries: usize,
    pub commit_pow_bits: usize,
    pub query_pow_bits: usize,
    pub cap_height: usize,
}

impl FriSpec {
    /// `FriParameters::new_testing(mmcs, 0)` as used by `p3_test_utils::*::make_test_config`
    pub const TESTING: FriSpec = FriSpec {
        tag: "fri_testing",
        log_blowup: 2,
        log_final_poly_len: 0,
        max_log_arity: 1,
        num_queries: 2,
        commit_pow_bits: 1,
        query_pow_bits: 1,
        cap_height: 0,
    };
    /// blow-up 2, longer final polynomial, arity up to 4, three queries, different PoW split
    pub const B1_ARITY2: FriSpec = FriSpec {
        tag: "fri_b1_a2_f1",
        log_blowup: 1,
        log_final_poly_len: 1,
        max_log_arity: 2,
        num_queries: 3,
        commit_pow_bits: 0,
        query_pow_bits: 2,
        cap_height: 0,
    };
    /// arity up to 8, final polynomial of length 4, one query, commit-phase PoW only
    pub const B2_ARITY3: FriSpec = FriSpec {
        tag: "fri_b2_a3_f2",
        log_blowup: 2,
        log_final_poly_len: 2,
        max_log_arity: 3,
        num_queries: 1,
        commit_pow_bits: 2,
        query_pow_bits: 0,
        cap_height: 0,
    };
    /// the testing set with a Merkle cap of height 1 (two cap entries per commitment)
    pub const TESTING_CAP1: FriSpec = FriSpec {
        tag: "fri_testing_cap1",
        log_blowup: 2,
        log_final_poly_len: 0,
        max_log_arity: 1,
        num_queries: 2,
        commit_pow_bits: 1,
        query_pow_bits: 1,
        cap_height: 1,
    };
    pub fn to_json(&self) -> Value {
        json!({"tag": self.tag, "log_blowup": self.log_blowup, "log_final_poly_len": self.log_final_poly_len,
               "max_log_arity": self.max_log_arity, "num_queries": self.num_queries,
               "commit_pow_bits": self.commit_pow_bits, "query_pow_bits": self.query_pow_bits,
               "cap_height": self.cap_height})
    }
}

/// Packed circuit inputs as plain integers (basis coefficients of each extension element),
/// for checks that perturb *positions* of the packed vectors (C14).
#[derive(Clone, Debug, PartialEq, Eq)]
pub struct Packed {
    pub public: Vec<Vec<u64>>,
    pub private: Vec<Vec<u64>>,
}

// ---------------------------------------------------------------------------------------
// C15 additions (behaviour-preserving): entry-point marker + parameter overrides

thread_local! {
    static STAGE: std::cell::Cell<&'static str> = const { std::cell::Cell::new("") };
}

/// Engines call this right before every call into the repository's API (`allocate`,
/// `verify_circuit`, `circuit_build`, `pack_values`, `set_inputs`, `set_mmcs_private_data`, `run`).
pub fn set_stage(s: &'static str) {
    STAGE.with(|c| c.set(s));
}

/// The API entry point this thread's engine entered last — for a `Reject` / `Panic` verdict of
/// `circuit_verify*` this is the entry point that returned the error / panicked.
pub fn last_stage() -> &'static str {
    STAGE.with(|c| c.get())
}

thread_local! {
    static BUILD_SIG: std::cell::Cell<Option<[usize; 4]>> = const { std::cell::Cell::new(None) };
}

/// Engines call this after every successful circuit build: `[ops, mmcs_ops, public_flat_len,
/// private_flat_len]` — number of operations of the built circuit, number of non-primitive ops that
/// need private data (Merkle openings), flattened input lengths.
pub fn set_build_sig(sig: [usize; 4]) {
    BUILD_SIG.with(|c| c.set(Some(sig)));
}

/// Size signature of the circuit this thread built last (`None` after `clear_build_sig` if no
/// build succeeded since).
pub fn last_build_sig() -> Option<[usize; 4]> {
    BUILD_SIG.with(|c| c.get())
}

pub fn clear_build_sig() {
    BUILD_SIG.with(|c| c.set(None));
}

/// The four integers of `FriVerifierParams` plus the MMCS switch (`permutation_config: Some/None`).
#[derive(Clone, Debug, PartialEq, Eq)]
pub struct FvpSpec {
    pub log_blowup: usize,
    pub log_final_poly_len: usize,
    pub commit_pow_bits: usize,
    pub query_pow_bits: usize,
    /// `false` = `FriVerifierParams::unsafe_arithmetic_only_for_tests`
    pub mmcs: bool,
}

impl FvpSpec {
    pub fn of(fs: &FriSpec) -> Self {
        FvpSpec {
            log_blowup: fs.log_blowup,
            log_final_poly_len: fs.log_final_poly_len,
            commit_pow_bits: fs.commit_pow_bits,
            query_pow_bits: fs.query_pow_bits,
            mmcs: true,
        }
    }
}

/// Companion data of a verification other than the proof tree (C15: malformed parameter sets).
/// Everything `None` = the fixture's own parameters.
#[derive(Clone, Debug, Default)]
pub struct ParamOverride {
    /// `FriParameters` + MMCS cap height of the `StarkConfig` used by the NATIVE verifier and
    /// handed to the circuit API as `config`
    pub config: Option<FriSpec>,
    /// `FriVerifierParams` handed to the circuit API
    pub fvp: Option<FvpSpec>,
    /// circuit-table fixtures only: the `BatchStarkProof` JSON whose metadata (everything except
    /// `proof` and `stark_common`, which still come from the tree) replaces the honest one
    pub bsp_json: Option<Value>,
}

/// Typed, per-thread half of a fixture.
pub trait Engine {
    /// Plonky3's native verifier on the tree.
    fn native(&mut self, tree: &Value) -> Verdict;
    /// Build (or fetch from the per-skeleton cache unless `fresh`) the verification circuit for
    /// the tree's shape, pack the tree's values with the inputs builder, set MMCS private data, run.
    fn circuit(&mut self, tree: &Value, fresh: bool) -> Verdict;
    /// `pack_values` of the tree (lengths + values), for C14.
    fn pack(&mut self, tree: &Value) -> Result<Packed, String>;
    /// Run the circuit of `shape_tree`'s skeleton on explicitly given packed vectors; MMCS private
    /// data (Merkle siblings) still come from `shape_tree`.
    fn circuit_packed(&mut self, shape_tree: &Value, packed: &Packed) -> Verdict;
    /// `(public_flat_len, private_flat_len)` of the circuit built for the tree's skeleton.
    fn circuit_io_lens(&mut self, tree: &Value) -> Result<(usize, usize), String>;
    /// C14: pack `tagged` (same skeleton as the honest tree, every field leaf a distinct tag) with the
    /// repository's packing code, load it into the circuit of that skeleton and report where every
    /// value landed next to the hand-written target walk (`crate::placement`).
    fn placement(&mut self, _tagged: &Value) -> Result<crate::placement::Placement, String> {
        Err("this engine does not support placement observation".to_string())
    }
    /// C15: install (`Some`) or remove (`None`) a parameter override. While one is installed only
    /// `native` and `circuit(.., fresh = true)` may be used (the per-skeleton cache does not know
    /// about parameters). Returns `false` if the engine does not support overrides.
    fn set_override(&mut self, _ov: Option<&ParamOverride>) -> bool {
        false
    }
}

#[derive(Default)]
pub struct Stats {
    pub circuit_builds: AtomicU64,
    pub circuit_cache_hits: AtomicU64,
    pub build_errs: AtomicU64,
    pub build_panics: AtomicU64,
    pub engine_resets: AtomicU64,
}

impl Stats {
    pub fn to_json(&self) -> Value {
        json!({
            "circuit_builds": self.circuit_builds.load(Ordering::Relaxed),
            "circuit_cache_hits": self.circuit_cache_hits.load(Ordering::Relaxed),
            "build_errs": self.build_errs.load(Ordering::Relaxed),
            "build_panics": self.build_panics.load(Ordering::Relaxed),
            "engine_resets": self.engine_resets.load(Ordering::Relaxed),
        })
    }
}

pub type Factory = Arc<dyn Fn(Arc<Stats>) -> Box<dyn Engine> + Send + Sync>;

/// A *prover-side* deviation: the real prover is run on a deviated trace / statement, so the
/// resulting object is consistent in every hash-based respect (Merkle openings, Fiat–Shamir
/// transcript, proof of work) and only the algebraic checks (constraint/quotient identity,
/// lookup terminals) can reject it. Complements single-leaf faults, which Fiat–Shamir makes
/// trip a hash-based check first.
#[derive(Clone, Debug, PartialEq, Eq, Hash)]
pub enum Forge {
    /// main-trace cell (instance, row, col) ← cell + 1, then prove
    Cell { instance: usize, row: usize, col: usize },
    /// public value ← value + 1 for prover *and* verifiers (a consistent false statement)
    PublicValue { instance: usize, idx: usize },
}

impl Forge {
    /// row abstracted
    pub fn class(&self) -> String {
        match self {
            Forge::Cell { instance, col, .. } => format!("forged:trace_cell/instance{instance}/col{col}"),
            Forge::PublicValue { instance, idx } => format!("forged:public_value/instance{instance}/{idx}"),
        }
    }
    pub fn show(&self) -> String {
        match self {
            Forge::Cell { instance, row, col } => format!("forged:trace_cell/instance{instance}/row{row}/col{col}"),
            Forge::PublicValue { instance, idx } => format!("forged:public_value/instance{instance}/{idx}"),
        }
    }
    pub fn to_json(&self) -> Value {
        match self {
            Forge::Cell { instance, row, col } => json!({"cell": [instance, row, col]}),
            Forge::PublicValue { instance, idx } => json!({"public_value": [instance, idx]}),
        }
    }
    pub fn from_json(v: &Value) -> Option<Forge> {
        let g = |a: &Value, i: usize| a.get(i).and_then(|x| x.as_u64()).map(|x| x as usize);
        if let Some(a) = v.get("cell") {
            return Some(Forge::Cell { instance: g(a, 0)?, row: g(a, 1)?, col: g(a, 2)? });
        }
        if let Some(a) = v.get("public_value") {
            return Some(Forge::PublicValue { instance: g(a, 0)?, idx: g(a, 1)? });
        }
        None
    }
}

pub type Forger = Arc<dyn Fn(&Forge) -> Result<Value, String> + Send + Sync>;

/// One configuration: honest object + the two judges.
pub struct Fixture {
    /// unique, stable: `<field>/<stark>/<pcs>/<air set>/<fri tag>`
    pub name: String,
    pub desc: Value,
    /// base-field modulus (field leaves wrap inside it)
    pub modulus: u64,
    pub ext_degree: usize,
    /// `{"proof": .., "public_values": .., "preprocessed_commit" | "common": ..}`
    pub honest: Value,
    pub stats: Arc<Stats>,
    /// every prover-side deviation this fixture can produce (empty if none)
    pub forge_space: Vec<Forge>,
    /// further honest companion data as JSON (`Null` if none). Circuit-table fixtures:
    /// `{"bsp_json": <honest BatchStarkProof>}` (C15 enumerates faults of its metadata).
    pub extra: Value,
    forger: Option<Forger>,
    factory: Factory,
}

thread_local! {
    static ENGINES: RefCell<HashMap<String, Box<dyn Engine>>> = RefCell::new(HashMap::new());
}

impl Fixture {
    pub fn new(name: String, desc: Value, modulus: u64, ext_degree: usize, honest: Value, factory: Factory) -> Self {
        Fixture {
            name,
            desc,
            modulus,
            ext_degree,
            honest,
            stats: Arc::new(Stats::default()),
            forge_space: vec![],
            extra: Value::Null,
            forger: None,
            factory,
        }
    }

    pub fn with_extra(mut self, extra: Value) -> Self {
        self.extra = extra;
        self
    }

    pub fn with_forger(mut self, space: Vec<Forge>, forger: Forger) -> Self {
        self.forge_space = space;
        self.forger = Some(forger);
        self
    }

    /// Run the real prover on the deviated trace / statement and return the resulting tree
    /// (same layout as `honest`). `Err` = the prover panicked or the deviation does not apply.
    pub fn forge(&self, f: &Forge) -> Result<Value, String> {
        let forger = self.forger.as_ref().ok_or("this fixture has no forger")?;
        vpcore::quiet_catch(|| forger(f)).and_then(|r| r)
    }

    /// Runs `f` on this thread's engine under `quiet_catch`. The engine is taken out of the
    /// thread-local map while in use; if `f` panics (engines catch the panics of the code under
    /// test themselves, so this is unexpected) the engine is dropped and rebuilt next time.
    fn with_engine<R>(&self, f: impl FnOnce(&mut dyn Engine) -> R) -> Result<R, String> {
        let existing = ENGINES.with(|m| m.borrow_mut().remove(&self.name));
        let mut eng = match existing {
            Some(e) => e,
            None => {
                let stats = self.stats.clone();
                vpcore::quiet_catch(|| (self.factory)(stats)).map_err(|p| format!("engine factory panicked: {p}"))?
            }
        };
        let r = vpcore::quiet_catch(|| f(eng.as_mut()));
        match r {
            Ok(v) => {
                ENGINES.with(|m| m.borrow_mut().insert(self.name.clone(), eng));
                Ok(v)
            }
            Err(p) => {
                self.stats.engine_resets.fetch_add(1, Ordering::Relaxed);
                // leak rather than drop: a half-mutated engine may panic again in Drop
                std::mem::forget(eng);
                Err(p)
            }
        }
    }

    pub fn native_verify(&self, tree: &Value) -> Verdict {
        match self.with_engine(|e| e.native(tree)) {
            Ok(v) => v,
            Err(p) => Verdict::Panic(p),
        }
    }
    pub fn circuit_verify(&self, tree: &Value) -> Verdict {
        match self.with_engine(|e| e.circuit(tree, false)) {
            Ok(v) => v,
            Err(p) => Verdict::Panic(p),
        }
    }
    /// Same as `circuit_verify` but with a circuit built from scratch for exactly this tree
    /// (no skeleton cache). Used to confirm disagreements.
    pub fn circuit_verify_fresh(&self, tree: &Value) -> Verdict {
        match self.with_engine(|e| e.circuit(tree, true)) {
            Ok(v) => v,
            Err(p) => Verdict::Panic(p),
        }
    }
    pub fn pack(&self, tree: &Value) -> Result<Packed, String> {
        self.with_engine(|e| e.pack(tree)).and_then(|r| r)
    }
    pub fn circuit_verify_packed(&self, shape_tree: &Value, packed: &Packed) -> Verdict {
        match self.with_engine(|e| e.circuit_packed(shape_tree, packed)) {
            Ok(v) => v,
            Err(p) => Verdict::Panic(p),
        }
    }
    pub fn circuit_io_lens(&self, tree: &Value) -> Result<(usize, usize), String> {
        self.with_engine(|e| e.circuit_io_lens(tree)).and_then(|r| r)
    }
    /// C14: see `Engine::placement`.
    pub fn placement(&self, tagged: &Value) -> Result<crate::placement::Placement, String> {
        self.with_engine(|e| e.placement(tagged)).and_then(|r| r)
    }
    /// C15: `(native verdict, fresh-circuit verdict, entry point the circuit side stopped in)` of
    /// `tree` under a parameter override. The override is removed again before returning.
    pub fn verify_with_override(&self, tree: &Value, ov: &ParamOverride) -> Result<(Verdict, Verdict, &'static str), String> {
        self.with_engine(|e| {
            if !e.set_override(Some(ov)) {
                return Err("engine does not support parameter overrides".to_string());
            }
            let n = e.native(tree);
            set_stage("");
            let c = e.circuit(tree, true);
            let st = last_stage();
            e.set_override(None);
            Ok((n, c, st))
        })
        .and_then(|r| r)
    }
    /// C15: the native half of `verify_with_override` alone.
    pub fn native_verify_with_override(&self, tree: &Value, ov: &ParamOverride) -> Result<Verdict, String> {
        self.with_engine(|e| {
            if !e.set_override(Some(ov)) {
                return Err("engine does not support parameter overrides".to_string());
            }
            let n = e.native(tree);
            e.set_override(None);
            Ok(n)
        })
        .and_then(|r| r)
    }
    /// C15: the circuit half of `verify_with_override` alone (verdict, entry point it stopped in).
    pub fn circuit_verify_with_override(&self, tree: &Value, ov: &ParamOverride) -> Result<(Verdict, &'static str), String> {
        self.with_engine(|e| {
            if !e.set_override(Some(ov)) {
                return Err("engine does not support parameter overrides".to_string());
            }
            set_stage("");
            clear_build_sig();
            let c = e.circuit(tree, true);
            let st = last_stage();
            e.set_override(None);
            Ok((c, st))
        })
        .and_then(|r| r)
    }
    /// C15: fresh-circuit verdict plus the entry point it stopped in (`run` for Accept).
    pub fn circuit_verify_fresh_staged(&self, tree: &Value) -> (Verdict, &'static str) {
        set_stage("");
        clear_build_sig();
        let v = self.circuit_verify_fresh(tree);
        (v, last_stage())
    }
    /// Drop this thread's engine (frees the circuit cache).
    pub fn release_thread_engine(&self) {
        ENGINES.with(|m| m.borrow_mut().remove(&self.name));
    }
}

/// A configuration that can be turned into a `Fixture` (proving the honest object) on demand.
pub struct FixtureSpec {
    pub name: String,
    /// part of the quick tier
    pub quick: bool,
    pub make: Box<dyn Fn() -> Result<Fixture, String> + Send + Sync>,
}
