//! vpe4 — engine E4: proof-tree fault enumerator + native/circuit differential.
//!
//! * `tree`     — generic JSON proof-tree utilities (leaves, path classes, skeleton = shape key,
//!                value faults, structural faults)
//! * `fixture`  — `Fixture` (honest object + `native_verify` / `circuit_verify`), `Verdict`,
//!                `FriSpec`, per-thread typed `Engine`s
//! * `families` — concrete configurations (field × extension × hash × PCS kind) built against the
//!                repository's real verification-circuit API
//! * `airs`     — the small AIRs the fixtures prove
//! * `catalogue`— the finite configuration list (quick / thorough)

pub mod airs;
pub mod catalogue;
pub mod families;
pub mod placement;
pub mod fixture;
pub mod tree;

pub use catalogue::{catalogue, find_spec};
pub use fixture::{Engine, Fixture, FixtureSpec, Forge, FriSpec, FvpSpec, Packed, ParamOverride, Stats, Verdict, last_build_sig, last_stage, set_stage};
pub use tree::{
    Leaf, LeafKind, Path, Seg, StructFault, ValueFault, apply_struct_fault, class_string, faulted_value, leaves,
    parse_path, path_string, skeleton, struct_faults, with_leaf,
};
