//! C14 support (add-only; nothing here is used by C01/C07/C15): *where does every packed value
//! land, and which allocated target is it meant for?*
//!
//! Two halves, both deliberately boring:
//!
//! * `walk_uni` / `walk_batch` — a hand-written walk over the repository's PUBLIC target
//!   structures (`StarkVerifierInputsBuilder`, `BatchStarkVerifierInputsBuilder`, `ProofTargets`,
//!   `BatchProofTargets`, `CommitmentTargets`, `OpenedValuesTargets(WithLookups)`,
//!   `FriProofTargets`, `HidingFriProofTargets`, `QueryProofTargets`, `BatchOpeningTargets`,
//!   `CommitPhaseProofStepTargets`, `MerkleCapTargets`, `Witness`). It pairs every target it
//!   meets with the JSON path of the proof element the FIELD NAME says it carries. The pairing is
//!   written from the meaning of the fields; it never calls `Recursive::get_values` /
//!   `get_private_values` and knows nothing about allocation order.
//! * `observe` — loads explicitly given packed vectors with the real `set_public_inputs` /
//!   `set_private_inputs` and reads, for every paired target, the witness slot
//!   `circuit.expr_to_widx[target]` straight out of the runner (`CircuitRunner::witness()`).
//!
//! The judging (tags, "every leaf exactly once", violations) is done by the C14 check on plain
//! data; this module only reports what it saw.

use p3_batch_stark::CommonData;
use p3_circuit::Circuit;
use p3_commit::Pcs;
use p3_field::{BasedVectorSpace, ExtensionField, Field, PrimeField64};
use p3_recursion::pcs::fri::{
    BatchOpeningTargets, FriProofTargets, HashProofTargets, HidingFriProofTargets, HidingHashProofTargets,
    MerkleCapTargets, QueryProofTargets, Witness,
};
use p3_recursion::public_inputs::{BatchStarkVerifierInputsBuilder, StarkVerifierInputsBuilder};
use p3_recursion::traits::{Recursive, RecursiveExtensionMmcs, RecursiveMmcs};
use p3_recursion::types::{CommitmentTargets, OpenedValuesTargets, OpenedValuesTargetsWithLookups, ProofTargets};
use p3_recursion::Target;
use p3_uni_stark::StarkGenericConfig;
use serde_json::Value;

use crate::fixture::Packed;

/// How a proof element sits in its (extension-field) target.
#[derive(Clone, Copy, Debug, PartialEq, Eq)]
pub enum Lift {
    /// the JSON leaf is ONE base-field number; the target must hold `(n, 0, .., 0)`
    Base,
    /// the JSON element is `{"value":[c0..c(D-1)]}`; the target must hold exactly these coefficients
    Ext,
}

/// "this target is meant to carry the proof element at `path`"
#[derive(Clone, Debug)]
pub struct Pair {
    pub path: String,
    pub lift: Lift,
    pub target: Target,
}

#[derive(Default)]
pub struct Walk {
    pub pairs: Vec<Pair>,
    /// target structures the walk cannot reach from outside the crate (listed in the evidence)
    pub unreachable: Vec<String>,
}

impl Walk {
    fn base(&mut self, path: String, t: Target) {
        self.pairs.push(Pair { path, lift: Lift::Base, target: t });
    }
    fn ext(&mut self, path: String, t: Target) {
        self.pairs.push(Pair { path, lift: Lift::Ext, target: t });
    }
    fn ext_vec(&mut self, path: &str, ts: &[Target]) {
        for (i, t) in ts.iter().enumerate() {
            self.ext(format!("{path}/{i}"), *t);
        }
    }
    fn base_vec(&mut self, path: &str, ts: &[Target]) {
        for (i, t) in ts.iter().enumerate() {
            self.base(format!("{path}/{i}"), *t);
        }
    }
}

// ------------------------------------------------------------------------------------------
// commitments and MMCS proofs (leaf structures)

/// A commitment's targets as `entries × digest words`.
pub trait CapWords {
    fn cap_words(&self) -> Vec<Vec<Target>>;
}
impl<F, const DIGEST_ELEMS: usize> CapWords for MerkleCapTargets<F, DIGEST_ELEMS> {
    fn cap_words(&self) -> Vec<Vec<Target>> {
        self.cap_targets.iter().map(|e| e.to_vec()).collect()
    }
}

/// `{"cap":[[w0..w7], ..]}` — every digest word is one base-field number.
fn walk_cap<C: CapWords>(w: &mut Walk, path: &str, c: &C) {
    for (e, words) in c.cap_words().iter().enumerate() {
        for (k, t) in words.iter().enumerate() {
            w.base(format!("{path}/cap/{e}/{k}"), *t);
        }
    }
}

/// Targets an MMCS opening proof allocates as circuit inputs.
pub trait MmcsProofWalk {
    fn walk(&self, w: &mut Walk, path: &str);
}
/// `MerkleTreeMmcs` proof = `[[w0..w7], ..]` sibling digests. The repository does NOT allocate them
/// (they are non-primitive-op private data); if it ever does, they are paired here.
impl<F, const DIGEST_ELEMS: usize> MmcsProofWalk for HashProofTargets<F, DIGEST_ELEMS> {
    fn walk(&self, w: &mut Walk, path: &str) {
        for (i, d) in self.hash_proof_targets.iter().enumerate() {
            for (k, t) in d.iter().enumerate() {
                w.base(format!("{path}/{i}/{k}"), *t);
            }
        }
    }
}
/// `MerkleTreeHidingMmcs` proof = `[salts: [[s..], ..], siblings]`; the salts are private inputs.
impl<F, const DIGEST_ELEMS: usize> MmcsProofWalk for HidingHashProofTargets<F, DIGEST_ELEMS> {
    fn walk(&self, w: &mut Walk, path: &str) {
        for (m, salt) in self.salts.iter().enumerate() {
            w.base_vec(&format!("{path}/0/{m}"), salt);
        }
    }
}

// ------------------------------------------------------------------------------------------
// opened values

/// `OpenedValues { trace_local, trace_next?, preprocessed_local?, preprocessed_next?,
/// quotient_chunks[chunk][j], random? }`, every element an extension value.
fn walk_opened_values<SC: StarkGenericConfig>(w: &mut Walk, path: &str, ov: &OpenedValuesTargets<SC>) {
    // exhaustive destructuring (here and below, wherever all fields are public): a field added to
    // the repository's structure stops this file from compiling instead of being silently skipped
    let OpenedValuesTargets {
        trace_local_targets,
        trace_next_targets,
        preprocessed_local_targets,
        preprocessed_next_targets,
        quotient_chunks_targets,
        random_targets,
        _phantom: _,
    } = ov;
    w.ext_vec(&format!("{path}/trace_local"), trace_local_targets);
    w.ext_vec(&format!("{path}/trace_next"), trace_next_targets);
    if let Some(p) = preprocessed_local_targets {
        w.ext_vec(&format!("{path}/preprocessed_local"), p);
    }
    if let Some(p) = preprocessed_next_targets {
        w.ext_vec(&format!("{path}/preprocessed_next"), p);
    }
    for (c, chunk) in quotient_chunks_targets.iter().enumerate() {
        w.ext_vec(&format!("{path}/quotient_chunks/{c}"), chunk);
    }
    if let Some(r) = random_targets {
        w.ext_vec(&format!("{path}/random"), r);
    }
}

fn json_len(v: &Value) -> usize {
    v.as_array().map_or(0, |a| a.len())
}

/// Batch proofs: the per-instance target structures are `pub(crate)`; the public
/// `flattened_opened_values_targets` holds the SAME targets, aggregated field by field over the
/// instances in instance order (`BatchProofTargets::new`). The walk cuts every aggregated vector
/// back into per-instance pieces using the per-instance lengths of the JSON tree: the k-th
/// instance's `trace_local` occupies the next `len(instances[k].trace_local)` targets, and so on;
/// quotient chunks are aggregated chunk by chunk.
fn walk_flattened_batch_opened_values<SC: StarkGenericConfig>(
    w: &mut Walk,
    path: &str,
    fl: &OpenedValuesTargetsWithLookups<SC>,
    tree_instances: &Value,
) {
    let none: Vec<Target> = vec![];
    let OpenedValuesTargetsWithLookups { opened_values_no_lookups: ov, permutation_local_targets, permutation_next_targets } = fl;
    let OpenedValuesTargets {
        trace_local_targets: _,
        trace_next_targets: _,
        preprocessed_local_targets: _,
        preprocessed_next_targets: _,
        quotient_chunks_targets: _,
        random_targets: _,
        _phantom: _,
    } = ov;
    let fields: [(&str, bool, &[Target]); 7] = [
        ("trace_local", true, ov.trace_local_targets.as_slice()),
        ("trace_next", true, ov.trace_next_targets.as_slice()),
        ("preprocessed_local", true, ov.preprocessed_local_targets.as_ref().unwrap_or(&none).as_slice()),
        ("preprocessed_next", true, ov.preprocessed_next_targets.as_ref().unwrap_or(&none).as_slice()),
        ("random", true, ov.random_targets.as_ref().unwrap_or(&none).as_slice()),
        ("permutation_local", false, permutation_local_targets.as_slice()),
        ("permutation_next", false, permutation_next_targets.as_slice()),
    ];
    let n_inst = json_len(tree_instances);
    for (name, in_base, targets) in fields {
        let mut next = 0usize;
        for k in 0..n_inst {
            let inst = &tree_instances[k];
            let (holder, hpath) = if in_base {
                (&inst["base_opened_values"], format!("{path}/{k}/base_opened_values/{name}"))
            } else {
                (inst, format!("{path}/{k}/{name}"))
            };
            let n = json_len(&holder[name]);
            for i in 0..n {
                match targets.get(next) {
                    Some(t) => w.ext(format!("{hpath}/{i}"), *t),
                    None => w.unreachable.push(format!("no aggregated target left for {hpath}/{i}")),
                }
                next += 1;
            }
        }
        for (extra, t) in targets.iter().enumerate().skip(next) {
            // more aggregated targets than proof elements: pair with a path that does not exist
            w.ext(format!("{path}/<surplus {name} #{extra}>"), *t);
        }
    }
    // quotient chunks: one aggregated entry per (instance, chunk) in instance order
    let mut next = 0usize;
    for k in 0..n_inst {
        let chunks = &tree_instances[k]["base_opened_values"]["quotient_chunks"];
        for c in 0..json_len(chunks) {
            match ov.quotient_chunks_targets.get(next) {
                Some(ts) => w.ext_vec(&format!("{path}/{k}/base_opened_values/quotient_chunks/{c}"), ts),
                None => w
                    .unreachable
                    .push(format!("no aggregated target left for {path}/{k}/base_opened_values/quotient_chunks/{c}")),
            }
            next += 1;
        }
    }
    for (extra, ts) in ov.quotient_chunks_targets.iter().enumerate().skip(next) {
        w.ext_vec(&format!("{path}/<surplus quotient chunk #{extra}>"), ts);
    }
}

// ------------------------------------------------------------------------------------------
// PCS opening proof

/// The PCS opening-proof targets of a configuration (plain FRI or hiding FRI).
pub trait OpeningProofWalk {
    fn walk(&self, w: &mut Walk, path: &str);
}

/// `[BatchOpening { opened_values[matrix][col], opening_proof }]` — opened rows are base-field
/// numbers, one target each.
fn walk_input_proof<F, EF, Inner>(w: &mut Walk, path: &str, ip: &[BatchOpeningTargets<F, EF, Inner>])
where
    F: Field,
    EF: ExtensionField<F>,
    Inner: RecursiveMmcs<F, EF>,
    Inner::Proof: MmcsProofWalk,
{
    for (b, bo) in ip.iter().enumerate() {
        let BatchOpeningTargets { opened_values, opening_proof } = bo;
        for (m, row) in opened_values.iter().enumerate() {
            w.base_vec(&format!("{path}/{b}/opened_values/{m}"), row);
        }
        opening_proof.walk(w, &format!("{path}/{b}/opening_proof"));
    }
}

/// `FriProof { commit_phase_commits, commit_pow_witnesses, query_proofs[q]{ input_proof,
/// commit_phase_openings[s]{ log_arity, sibling_values[k], opening_proof } }, final_poly,
/// query_pow_witness }`.
impl<F, EF, RecMmcs, Inner> OpeningProofWalk
    for FriProofTargets<F, EF, RecMmcs, Vec<BatchOpeningTargets<F, EF, Inner>>, Witness<F>>
where
    F: Field,
    EF: ExtensionField<F> + BasedVectorSpace<F>,
    RecMmcs: RecursiveExtensionMmcs<F, EF>,
    RecMmcs::Commitment: CapWords,
    RecMmcs::Proof: MmcsProofWalk,
    Inner: RecursiveMmcs<F, EF>,
    Inner::Proof: MmcsProofWalk,
{
    fn walk(&self, w: &mut Walk, path: &str) {
        // `log_arities` is shape metadata (usize), not a target
        let FriProofTargets { commit_phase_commits, commit_pow_witnesses, query_proofs, final_poly, pow_witness, log_arities: _ } = self;
        for (i, c) in commit_phase_commits.iter().enumerate() {
            walk_cap(w, &format!("{path}/commit_phase_commits/{i}"), c);
        }
        for (i, pw) in commit_pow_witnesses.iter().enumerate() {
            w.base(format!("{path}/commit_pow_witnesses/{i}"), pw.witness);
        }
        for (q, qp) in query_proofs.iter().enumerate() {
            let qpath = format!("{path}/query_proofs/{q}");
            let QueryProofTargets { input_proof, commit_phase_openings } = qp;
            walk_input_proof(w, &format!("{qpath}/input_proof"), input_proof);
            for (s, step) in commit_phase_openings.iter().enumerate() {
                let spath = format!("{qpath}/commit_phase_openings/{s}");
                // sibling k is an extension value; the repository allocates one target per basis
                // coefficient: coefficient c of sibling k  <->  sibling_values/k/value/c
                let d = <EF as BasedVectorSpace<F>>::DIMENSION;
                for (j, t) in step.sibling_coefficients.iter().enumerate() {
                    w.base(format!("{spath}/sibling_values/{}/value/{}", j / d, j % d), *t);
                }
                step.opening_proof.walk(w, &format!("{spath}/opening_proof"));
            }
        }
        w.ext_vec(&format!("{path}/final_poly"), final_poly);
        w.base(format!("{path}/query_pow_witness"), pow_witness.witness);
    }
}

/// `HidingFriPcs` proof = `[random opened values [round][matrix][point][i], FriProof]`.
impl<F, EF, RecMmcs, Inner> OpeningProofWalk
    for HidingFriProofTargets<F, EF, RecMmcs, Vec<BatchOpeningTargets<F, EF, Inner>>, Witness<F>>
where
    F: Field,
    EF: ExtensionField<F> + BasedVectorSpace<F>,
    RecMmcs: RecursiveExtensionMmcs<F, EF>,
    RecMmcs::Commitment: CapWords,
    RecMmcs::Proof: MmcsProofWalk,
    Inner: RecursiveMmcs<F, EF>,
    Inner::Proof: MmcsProofWalk,
{
    fn walk(&self, w: &mut Walk, path: &str) {
        let HidingFriProofTargets { random_opened_values, inner_proof } = self;
        for (r, round) in random_opened_values.rounds.iter().enumerate() {
            for (m, mat) in round.iter().enumerate() {
                for (p, vals) in mat.iter().enumerate() {
                    w.ext_vec(&format!("{path}/0/{r}/{m}/{p}"), vals);
                }
            }
        }
        inner_proof.walk(w, &format!("{path}/1"));
    }
}

// ------------------------------------------------------------------------------------------
// commitments of a (batch) proof

/// `CommitmentTargets { trace_targets, permutation_targets?, quotient_chunks_targets, random_commit? }`
/// `main_name`: the JSON key of the main-trace commitment (`trace` in a uni-STARK proof, `main` in a
/// batch proof).
fn walk_commitments<F: Field, Comm: Recursive<F> + CapWords>(
    w: &mut Walk,
    path: &str,
    main_name: &str,
    c: &CommitmentTargets<F, Comm>,
) {
    let CommitmentTargets { trace_targets, permutation_targets, quotient_chunks_targets, random_commit, _phantom: _ } = c;
    walk_cap(w, &format!("{path}/{main_name}"), trace_targets);
    if let Some(p) = permutation_targets {
        walk_cap(w, &format!("{path}/permutation"), p);
    }
    walk_cap(w, &format!("{path}/quotient_chunks"), quotient_chunks_targets);
    if let Some(r) = random_commit {
        walk_cap(w, &format!("{path}/random"), r);
    }
}

type Com<SC> = <<SC as StarkGenericConfig>::Pcs as Pcs<
    <SC as StarkGenericConfig>::Challenge,
    <SC as StarkGenericConfig>::Challenger,
>>::Commitment;
type PcsProof<SC> = <<SC as StarkGenericConfig>::Pcs as Pcs<
    <SC as StarkGenericConfig>::Challenge,
    <SC as StarkGenericConfig>::Challenger,
>>::Proof;

/// uni-STARK tree `{proof, public_values, preprocessed_commit}`.
pub fn walk_uni<SC, Comm, OP>(inputs: &StarkVerifierInputsBuilder<SC, Comm, OP>) -> Walk
where
    SC: StarkGenericConfig,
    Comm: Recursive<SC::Challenge, Input = Com<SC>> + CapWords,
    OP: Recursive<SC::Challenge, Input = PcsProof<SC>> + OpeningProofWalk,
{
    let mut w = Walk::default();
    let StarkVerifierInputsBuilder { air_public_targets, proof_targets, preprocessed_commit } = inputs;
    w.base_vec("/public_values", air_public_targets);
    let ProofTargets { commitments_targets, opened_values_targets, opening_proof, degree_bits: _ } = proof_targets;
    walk_commitments(&mut w, "/proof/commitments", "trace", commitments_targets);
    walk_opened_values(&mut w, "/proof/opened_values", opened_values_targets);
    opening_proof.walk(&mut w, "/proof/opening_proof");
    if let Some(c) = preprocessed_commit {
        walk_cap(&mut w, "/preprocessed_commit", c);
    }
    w
}

/// batch-STARK tree `{proof, public_values[instance], common}`.
pub fn walk_batch<SC, Comm, OP>(
    inputs: &BatchStarkVerifierInputsBuilder<SC, Comm, OP>,
    common: &CommonData<SC>,
    tree: &Value,
) -> Walk
where
    SC: StarkGenericConfig,
    Comm: Recursive<SC::Challenge, Input = Com<SC>> + CapWords,
    OP: Recursive<SC::Challenge, Input = PcsProof<SC>> + OpeningProofWalk,
{
    let mut w = Walk::default();
    let BatchStarkVerifierInputsBuilder { air_public_targets, proof_targets, common_data: _ } = inputs;
    for (k, ts) in air_public_targets.iter().enumerate() {
        w.base_vec(&format!("/public_values/{k}"), ts);
    }
    // `BatchProofTargets` has a pub(crate) field (per-instance opened values): no exhaustive pattern
    let pt = proof_targets;
    walk_commitments(&mut w, "/proof/commitments", "main", &pt.commitments_targets);
    walk_flattened_batch_opened_values(
        &mut w,
        "/proof/opened_values/instances",
        &pt.flattened_opened_values_targets,
        &tree["proof"]["opened_values"]["instances"],
    );
    pt.opening_proof.walk(&mut w, "/proof/opening_proof");
    for (k, t) in pt.lookup_terminals.iter().enumerate() {
        if let Some(t) = t {
            w.ext(format!("/proof/lookup_terminals/{k}"), *t);
        }
    }
    // `CommonDataTargets::preprocessed` (commitment targets of the global preprocessed data) is
    // `pub(crate)`: not reachable from here. C14 pairs the public-input positions no walked target
    // claims with the words of `/common/preprocessed/commitment` by elimination and says so.
    if common.preprocessed.is_some() {
        w.unreachable
            .push("CommonDataTargets::preprocessed.commitment (pub(crate)): /common/preprocessed/commitment/cap/*/*".into());
    }
    w
}

// ------------------------------------------------------------------------------------------
// observation

#[derive(Clone, Debug)]
pub struct PairObs {
    pub path: String,
    pub lift: Lift,
    /// `ExprId` of the target
    pub expr: u32,
    /// `circuit.expr_to_widx[target]`
    pub widx: Option<u32>,
    /// basis coefficients (serialised form) held by that witness slot after `set_public_inputs` +
    /// `set_private_inputs` (`None`: slot still unset)
    pub value: Option<Vec<u64>>,
}

/// What the real packing + the real input loading did with one (tagged) object.
#[derive(Clone, Debug)]
pub struct Placement {
    /// `pack_values` of the object (the repository's packing code), coefficients in SERIALISED form
    /// (unlike `Fixture::pack`, whose `Packed` holds canonical values)
    pub packed: Packed,
    /// serialised form of the field element 1 (`R mod p` for Montgomery fields): adding it to a JSON
    /// leaf is the canonical "+1"
    pub ser_one: u64,
    pub public_flat_len: usize,
    pub private_flat_len: usize,
    /// `circuit.public_rows` / `circuit.private_input_rows` (witness slot of every position)
    pub public_rows: Vec<u32>,
    pub private_rows: Vec<u32>,
    /// outcome of `set_public_inputs` / `set_private_inputs` on the packed vectors
    pub set_public: Result<(), String>,
    pub set_private: Result<(), String>,
    pub pairs: Vec<PairObs>,
    pub unreachable: Vec<String>,
}

/// Basis coefficients in their SERIALISED form, i.e. exactly the numbers a proof's JSON tree holds
/// (BabyBear / KoalaBear serialise the Montgomery representation, Goldilocks the canonical one).
pub fn ef_coeffs<F: PrimeField64 + serde::Serialize, EF: BasedVectorSpace<F>>(x: &EF) -> Vec<u64> {
    x.as_basis_coefficients_slice()
        .iter()
        .map(|c| serde_json::to_value(c).ok().and_then(|v| v.as_u64()).expect("field element serialises as an unsigned integer"))
        .collect()
}

/// Load `pubs` / `privs` into a fresh runner of `circuit` and read the slot of every walked target.
/// Nothing is executed: the tagged data does not satisfy the circuit, and only the landing place
/// of the inputs is of interest.
pub fn observe<F, EF>(circuit: &Circuit<EF>, pubs: &[EF], privs: &[EF], walk: Walk) -> Placement
where
    F: PrimeField64 + serde::Serialize,
    EF: ExtensionField<F> + BasedVectorSpace<F>,
{
    let mut runner = circuit.runner();
    let set_public = runner.set_public_inputs(pubs).map_err(|e| format!("{e:?}"));
    let set_private = runner.set_private_inputs(privs).map_err(|e| format!("{e:?}"));
    let witness = runner.witness();
    let pairs = walk
        .pairs
        .into_iter()
        .map(|p| {
            let widx = circuit.expr_to_widx.get(&p.target).map(|w| w.0);
            let value = widx
                .and_then(|w| witness.get(w as usize))
                .and_then(|slot| slot.as_ref())
                .map(|v| ef_coeffs::<F, EF>(v));
            PairObs { path: p.path, lift: p.lift, expr: p.target.0, widx, value }
        })
        .collect();
    Placement {
        packed: Packed {
            public: pubs.iter().map(|v| ef_coeffs::<F, EF>(v)).collect(),
            private: privs.iter().map(|v| ef_coeffs::<F, EF>(v)).collect(),
        },
        ser_one: serde_json::to_value(F::ONE).ok().and_then(|v| v.as_u64()).expect("field element serialises as an unsigned integer"),
        public_flat_len: circuit.public_flat_len,
        private_flat_len: circuit.private_flat_len,
        public_rows: circuit.public_rows.iter().map(|w| w.0).collect(),
        private_rows: circuit.private_input_rows.iter().map(|w| w.0).collect(),
        set_public,
        set_private,
        pairs,
        unreachable: walk.unreachable,
    }
}
