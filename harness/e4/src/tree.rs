//! Generic proof-tree utilities over `serde_json::Value`.
//!
//! A "proof tree" is the JSON serialisation of (proof, public values, verifying data).
//! Numeric leaves are either *field leaves* (field element coefficients, digest words, PoW
//! witnesses, public values) or *structural integers* (`degree_bits`, `log_arity`, the
//! preprocessed metadata of batch common data …) which are recognised by the name of the
//! nearest enclosing object key. Everything here is independent of the concrete proof type:
//! the typed side (deserialise back, verify natively / in circuit) lives in `fixture`.

use serde_json::Value;

/// Object keys whose numeric descendants are structural integers, not field elements.
/// (`degree_bits`: uni `usize`, batch `Vec<usize>`, preprocessed metadata; `log_arity`:
/// commit-phase opening; `matrix_index` / `width` / `matrix_to_instance`: batch common data.)
pub const STRUCT_KEYS: &[&str] = &[
    "degree_bits",
    "log_arity",
    "matrix_index",
    "width",
    "matrix_to_instance",
];

#[derive(Clone, Debug, PartialEq, Eq, Hash, PartialOrd, Ord)]
pub enum Seg {
    Key(String),
    Idx(usize),
}

pub type Path = Vec<Seg>;

#[derive(Clone, Copy, Debug, PartialEq, Eq, Hash)]
pub enum LeafKind {
    /// field element coefficient / digest word / witness / public value: faulted modulo p
    Field,
    /// shape-determining integer: faulted as an integer, classified separately
    Structural,
}

#[derive(Clone, Debug)]
pub struct Leaf {
    pub path: Path,
    /// path with array indices abstracted (`*`)
    pub class: String,
    pub kind: LeafKind,
    pub value: u64,
}

/// `/proof/opening_proof/query_proofs/0/input_proof/1/opened_values/0/3`
pub fn path_string(p: &[Seg]) -> String {
    let mut s = String::new();
    for seg in p {
        s.push('/');
        match seg {
            Seg::Key(k) => s.push_str(k),
            Seg::Idx(i) => s.push_str(&i.to_string()),
        }
    }
    s
}

/// Path class: array indices replaced by `*`.
pub fn class_string(p: &[Seg]) -> String {
    let mut s = String::new();
    for seg in p {
        s.push('/');
        match seg {
            Seg::Key(k) => s.push_str(k),
            Seg::Idx(_) => s.push('*'),
        }
    }
    s
}

pub fn parse_path(s: &str) -> Path {
    s.split('/')
        .filter(|x| !x.is_empty())
        .map(|x| match x.parse::<usize>() {
            Ok(i) => Seg::Idx(i),
            Err(_) => Seg::Key(x.to_string()),
        })
        .collect()
}

fn kind_of(path: &[Seg]) -> LeafKind {
    for seg in path.iter().rev() {
        if let Seg::Key(k) = seg {
            return if STRUCT_KEYS.contains(&k.as_str()) {
                LeafKind::Structural
            } else {
                LeafKind::Field
            };
        }
    }
    LeafKind::Field
}

/// All numeric leaves in document order.
pub fn leaves(v: &Value) -> Vec<Leaf> {
    fn rec(v: &Value, path: &mut Path, out: &mut Vec<Leaf>) {
        match v {
            Value::Number(n) => {
                if let Some(u) = n.as_u64() {
                    out.push(Leaf {
                        path: path.clone(),
                        class: class_string(path),
                        kind: kind_of(path),
                        value: u,
                    });
                }
            }
            Value::Array(a) => {
                for (i, x) in a.iter().enumerate() {
                    path.push(Seg::Idx(i));
                    rec(x, path, out);
                    path.pop();
                }
            }
            Value::Object(m) => {
                for (k, x) in m.iter() {
                    path.push(Seg::Key(k.clone()));
                    rec(x, path, out);
                    path.pop();
                }
            }
            _ => {}
        }
    }
    let mut out = vec![];
    rec(v, &mut vec![], &mut out);
    out
}

pub fn get<'a>(v: &'a Value, path: &[Seg]) -> Option<&'a Value> {
    let mut cur = v;
    for seg in path {
        cur = match seg {
            Seg::Key(k) => cur.get(k.as_str())?,
            Seg::Idx(i) => cur.get(*i)?,
        };
    }
    Some(cur)
}

pub fn get_mut<'a>(v: &'a mut Value, path: &[Seg]) -> Option<&'a mut Value> {
    let mut cur = v;
    for seg in path {
        cur = match seg {
            Seg::Key(k) => cur.get_mut(k.as_str())?,
            Seg::Idx(i) => cur.get_mut(*i)?,
        };
    }
    Some(cur)
}

/// Shape key of a tree: the tree with every *field* leaf replaced by 0, structural integers,
/// array lengths, `null`s and object keys kept. Two trees with the same skeleton differ only in
/// values that the verification circuit reads as inputs (targets), never in anything circuit
/// construction branches on — which is why a circuit may be cached per skeleton. (C01 re-checks
/// every disagreement with a freshly built circuit, so the cache can not create a verdict.)
pub fn skeleton(v: &Value) -> String {
    fn rec(v: &Value, path: &mut Path, out: &mut String) {
        match v {
            Value::Number(n) => {
                if kind_of(path) == LeafKind::Structural {
                    out.push_str(&n.to_string());
                } else {
                    out.push('0');
                }
            }
            Value::Array(a) => {
                out.push('[');
                for (i, x) in a.iter().enumerate() {
                    if i > 0 {
                        out.push(',');
                    }
                    path.push(Seg::Idx(i));
                    rec(x, path, out);
                    path.pop();
                }
                out.push(']');
            }
            Value::Object(m) => {
                out.push('{');
                for (i, (k, x)) in m.iter().enumerate() {
                    if i > 0 {
                        out.push(',');
                    }
                    out.push_str(k);
                    out.push(':');
                    path.push(Seg::Key(k.clone()));
                    rec(x, path, out);
                    path.pop();
                }
                out.push('}');
            }
            Value::Null => out.push('N'),
            Value::Bool(b) => out.push(if *b { 'T' } else { 'F' }),
            Value::String(s) => {
                out.push('"');
                out.push_str(s);
                out.push('"');
            }
        }
    }
    let mut out = String::new();
    rec(v, &mut vec![], &mut out);
    out
}

// ---------------------------------------------------------------------------------------
// value faults

#[derive(Clone, Copy, Debug, PartialEq, Eq, Hash)]
pub enum ValueFault {
    /// leaf ← leaf + 1 (mod p for field leaves; plain integer +1 for structural)
    PlusOne,
    /// leaf ← 0 (skipped when the leaf already is 0)
    Zero,
    /// leaf ← value of the next numeric leaf of the same path class (skipped when equal / none)
    Neighbour,
    /// structural only: leaf − 1 (skipped at 0)
    MinusOne,
    /// structural only: leaf ← 63
    SixtyThree,
}

impl ValueFault {
    pub fn tag(&self) -> &'static str {
        match self {
            ValueFault::PlusOne => "+1",
            ValueFault::Zero => "0",
            ValueFault::Neighbour => "nb",
            ValueFault::MinusOne => "-1",
            ValueFault::SixtyThree => "63",
        }
    }
    pub fn from_tag(s: &str) -> Option<Self> {
        Some(match s {
            "+1" => ValueFault::PlusOne,
            "0" => ValueFault::Zero,
            "nb" => ValueFault::Neighbour,
            "-1" => ValueFault::MinusOne,
            "63" => ValueFault::SixtyThree,
            _ => return None,
        })
    }
}

/// New value of `leaf` under `fault`, or `None` when the fault does not change the leaf
/// (or does not apply to its kind). `all` = the leaf list the leaf came from (for `Neighbour`).
pub fn faulted_value(leaf: &Leaf, idx: usize, all: &[Leaf], fault: ValueFault, modulus: u64) -> Option<u64> {
    let new = match (fault, leaf.kind) {
        (ValueFault::PlusOne, LeafKind::Field) => {
            // canonical representatives are < p; wrap inside the modulus
            if leaf.value >= modulus - 1 { 0 } else { leaf.value + 1 }
        }
        (ValueFault::PlusOne, LeafKind::Structural) => leaf.value + 1,
        (ValueFault::Zero, _) => 0,
        (ValueFault::Neighbour, _) => {
            let n = all
                .iter()
                .skip(idx + 1)
                .chain(all.iter().take(idx))
                .find(|l| l.class == leaf.class && l.value != leaf.value)?;
            n.value
        }
        (ValueFault::MinusOne, LeafKind::Structural) => leaf.value.checked_sub(1)?,
        (ValueFault::SixtyThree, LeafKind::Structural) => 63,
        _ => return None,
    };
    (new != leaf.value).then_some(new)
}

/// Copy of `tree` with the numeric leaf at `path` set to `value`.
pub fn with_leaf(tree: &Value, path: &[Seg], value: u64) -> Value {
    let mut t = tree.clone();
    if let Some(slot) = get_mut(&mut t, path) {
        *slot = Value::from(value);
    }
    t
}

// ---------------------------------------------------------------------------------------
// structural faults (for C15)

#[derive(Clone, Debug, PartialEq, Eq)]
pub enum StructFault {
    /// array at path: remove last element (non-empty arrays)
    Pop(Path),
    /// array at path: push a copy of the last element (non-empty arrays)
    DupLast(Path),
    /// array at path: remove every element (arrays of length ≥ 2; length 1 == Pop)
    Empty(Path),
    /// any node: replace by `null` (Some → None where the field is an `Option`;
    /// elsewhere deserialisation fails and the case is counted as "not a proof")
    SetNull(Path),
    /// `null` node: replace by a copy of a non-null sibling (None → Some); the sibling is the
    /// first non-null value of the same parent object / array, or `[]` if there is none
    FillNull(Path),
    /// `null` member of an object: replace by a copy of the named non-null sibling member (one
    /// fault per sibling other than the one `FillNull` takes): an absent optional part filled with
    /// data of every shape the neighbouring parts have (e.g. `trace_next` ← `trace_local`)
    FillNullFrom(Path, String),
    /// structural integer at path ← value (−1, +1, 0, 63)
    IntSet(Path, u64),
}

impl StructFault {
    pub fn path(&self) -> &Path {
        match self {
            StructFault::Pop(p)
            | StructFault::DupLast(p)
            | StructFault::Empty(p)
            | StructFault::SetNull(p)
            | StructFault::FillNull(p)
            | StructFault::FillNullFrom(p, _)
            | StructFault::IntSet(p, _) => p,
        }
    }
    pub fn tag(&self) -> String {
        match self {
            StructFault::Pop(_) => "pop".into(),
            StructFault::DupLast(_) => "dup_last".into(),
            StructFault::Empty(_) => "empty".into(),
            StructFault::SetNull(_) => "set_null".into(),
            StructFault::FillNull(_) => "fill_null".into(),
            StructFault::FillNullFrom(_, k) => format!("fill_null_from={k}"),
            StructFault::IntSet(_, v) => format!("int={v}"),
        }
    }
    /// `pop@/proof/opened_values/trace_local`
    pub fn show(&self) -> String {
        format!("{}@{}", self.tag(), path_string(self.path()))
    }
    /// class form with indices abstracted
    pub fn class(&self) -> String {
        format!("{}@{}", self.tag(), class_string(self.path()))
    }
}

/// Every single structural fault of the tree, in document order.
/// `include_null_all = false` restricts `SetNull` to object members (arrays of scalars would
/// otherwise multiply the count without adding Option sites).
pub fn struct_faults(tree: &Value, include_null_all: bool) -> Vec<StructFault> {
    fn rec(v: &Value, path: &mut Path, all: bool, parent_is_obj: bool, out: &mut Vec<StructFault>) {
        if !path.is_empty() {
            match v {
                Value::Null => out.push(StructFault::FillNull(path.clone())),
                _ => {
                    if all || parent_is_obj {
                        out.push(StructFault::SetNull(path.clone()));
                    }
                }
            }
        }
        match v {
            Value::Array(a) => {
                if !a.is_empty() {
                    out.push(StructFault::Pop(path.clone()));
                    out.push(StructFault::DupLast(path.clone()));
                    if a.len() >= 2 {
                        out.push(StructFault::Empty(path.clone()));
                    }
                }
                for (i, x) in a.iter().enumerate() {
                    path.push(Seg::Idx(i));
                    rec(x, path, all, false, out);
                    path.pop();
                }
            }
            Value::Object(m) => {
                let first_non_null = m.iter().find(|(_, x)| !x.is_null()).map(|(k, _)| k.clone());
                for (k, x) in m.iter() {
                    path.push(Seg::Key(k.clone()));
                    rec(x, path, all, true, out);
                    if x.is_null() {
                        for (k2, x2) in m.iter() {
                            if !x2.is_null() && Some(k2) != first_non_null.as_ref() {
                                out.push(StructFault::FillNullFrom(path.clone(), k2.clone()));
                            }
                        }
                    }
                    path.pop();
                }
            }
            Value::Number(n) => {
                if kind_of(path) == LeafKind::Structural {
                    if let Some(u) = n.as_u64() {
                        let mut vals = vec![u + 1, 0, 63];
                        if u > 0 {
                            vals.insert(0, u - 1);
                        }
                        vals.dedup();
                        for nv in vals {
                            if nv != u {
                                let f = StructFault::IntSet(path.clone(), nv);
                                if !out.contains(&f) {
                                    out.push(f);
                                }
                            }
                        }
                    }
                }
            }
            _ => {}
        }
    }
    let mut out = vec![];
    rec(tree, &mut vec![], include_null_all, true, &mut out);
    out
}

/// Apply a structural fault; `None` when it does not apply (path vanished, wrong node type).
pub fn apply_struct_fault(tree: &Value, f: &StructFault) -> Option<Value> {
    let mut t = tree.clone();
    match f {
        StructFault::Pop(p) => {
            get_mut(&mut t, p)?.as_array_mut()?.pop()?;
        }
        StructFault::DupLast(p) => {
            let a = get_mut(&mut t, p)?.as_array_mut()?;
            let last = a.last()?.clone();
            a.push(last);
        }
        StructFault::Empty(p) => {
            get_mut(&mut t, p)?.as_array_mut()?.clear();
        }
        StructFault::SetNull(p) => {
            *get_mut(&mut t, p)? = Value::Null;
        }
        StructFault::FillNull(p) => {
            let (last, parent_path) = p.split_last()?;
            let parent = get(tree, parent_path)?;
            let template = match parent {
                Value::Object(m) => m.values().find(|x| !x.is_null()).cloned(),
                Value::Array(a) => a.iter().find(|x| !x.is_null()).cloned(),
                _ => None,
            }
            .unwrap_or_else(|| Value::Array(vec![]));
            let _ = last;
            *get_mut(&mut t, p)? = template;
        }
        StructFault::FillNullFrom(p, k) => {
            let (_, parent_path) = p.split_last()?;
            let template = get(tree, parent_path)?.as_object()?.get(k)?.clone();
            if template.is_null() {
                return None;
            }
            *get_mut(&mut t, p)? = template;
        }
        StructFault::IntSet(p, v) => {
            let slot = get_mut(&mut t, p)?;
            if !slot.is_number() {
                return None;
            }
            *slot = Value::from(*v);
        }
    }
    Some(t)
}

#[cfg(test)]
mod tests {
    use super::*;
    use serde_json::json;

    #[test]
    fn leaves_and_classes() {
        let t = json!({"proof":{"degree_bits":3,"x":[{"value":[1,2]},{"value":[3,4]}],"o":null}});
        let l = leaves(&t);
        assert_eq!(l.len(), 5);
        assert_eq!(l[0].kind, LeafKind::Structural);
        assert_eq!(l[1].class, "/proof/x/*/value/*");
        assert_eq!(skeleton(&t), skeleton(&with_leaf(&t, &l[1].path, 9)));
        assert_ne!(skeleton(&t), skeleton(&with_leaf(&t, &l[0].path, 4)));
        assert_eq!(parse_path(&path_string(&l[2].path)), l[2].path);
        let sf = struct_faults(&t, false);
        assert!(sf.iter().any(|f| matches!(f, StructFault::FillNull(_))));
        for f in &sf {
            assert!(apply_struct_fault(&t, f).is_some(), "{}", f.show());
        }
    }
}
