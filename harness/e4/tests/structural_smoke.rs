//! Smoke test of the structural-fault half of E4 (used by C15): every single structural fault of
//! two honest objects is applied, deserialised back and judged by both sides without the harness
//! itself crashing. Prints the verdict-pair histogram (`cargo test -p vpe4 --release -- --nocapture`).

use std::collections::BTreeMap;

use vpe4::{apply_struct_fault, find_spec, struct_faults};

#[test]
fn structural_faults_are_judgeable() {
    vpcore::install_quiet_panic_hook();
    for name in [
        "babybear_d4_p2w16/uni/fri/fib8/fri_testing",
        "koalabear_d4_p2w16/batch/fri/lookups_local_global/fri_testing",
    ] {
        let fx = (find_spec(name).unwrap().make)().unwrap();
        assert!(fx.native_verify(&fx.honest).accepts());
        assert!(fx.circuit_verify(&fx.honest).accepts());
        let faults = struct_faults(&fx.honest, false);
        let mut h: BTreeMap<String, u64> = BTreeMap::new();
        let mut weaker = vec![];
        for f in &faults {
            let Some(t) = apply_struct_fault(&fx.honest, f) else { continue };
            let n = fx.native_verify(&t);
            let c = fx.circuit_verify(&t);
            if c.accepts() && !n.accepts() && !n.not_a_proof() {
                weaker.push(f.show());
            }
            let short = |s: String| s.split('/').next().unwrap_or("").split(':').take(2).collect::<Vec<_>>().join(":");
            *h.entry(format!("{} | {}", short(n.tag()), short(c.tag()))).or_insert(0) += 1;
        }
        println!("{name}: {} structural faults", faults.len());
        for (k, v) in &h {
            println!("  {v:5}  {k}");
        }
        println!("  circuit accepts while native rejects: {weaker:?}");
    }
}
