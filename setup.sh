#!/usr/bin/env bash
# Builds the whole framework offline from files on disk (run once after a fresh restore).
# Every check is also (re)built by ./check itself, so a package that fails here only costs time later.
ROOT="$(cd "$(dirname "${BASH_SOURCE[0]}")" && pwd)"
export CARGO_NET_OFFLINE=true
export RUSTFLAGS="--cfg p3_recursion_verif -Awarnings"
export CARGO_TARGET_DIR="$ROOT/target"
cd "$ROOT/harness" || exit 1
fail=0
for p in $(python3 -c "import json;print(' '.join(sorted(c['property_id'].lower() for c in json.load(open('$ROOT/MANIFEST.json'))['checks'] if c['property_id']!='C18')))"); do
  cargo build --release --offline -q -p "$p" || { echo "setup: build of $p failed"; fail=1; }
done
cargo build --offline -q -p c19 || { echo "setup: dev build of c19 failed"; fail=1; }   # C19 compares dev and release
cd "$ROOT/harness-c18" && CARGO_TARGET_DIR="$ROOT/target/c18ws" cargo build --release --offline -q -p c18 || { echo "setup: build of c18 failed"; fail=1; }
echo "setup done (fail=$fail)"
exit $fail
