#!/usr/bin/env bash
# Builds the whole framework offline from files on disk (run once after a fresh restore).
set -e
ROOT="$(cd "$(dirname "${BASH_SOURCE[0]}")" && pwd)"
export CARGO_NET_OFFLINE=true
export RUSTFLAGS="--cfg p3_recursion_verif -Awarnings"
export CARGO_TARGET_DIR="$ROOT/target"
cd "$ROOT/harness"
cargo build --release --offline --workspace
cargo build --offline -p c19            # C19 compares the dev and release profiles
cd "$ROOT/harness-c18"
CARGO_TARGET_DIR="$ROOT/target/c18ws" cargo build --release --offline -p c18
echo "setup done"
