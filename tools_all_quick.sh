#!/usr/bin/env bash
# runs every quick check on the current tree; prints one line per check
cd /verif
for i in $(seq -w 1 20); do
  s=$(date +%s)
  ./check c$i quick > /tmp/allq_c$i.log 2>&1; rc=$?
  echo "c$i rc=$rc $(( $(date +%s)-s ))s $(grep -E '^C[0-9]+ (OK|FAILED)|^MACHINERY' /tmp/allq_c$i.log | head -1 | cut -c1-150)"
done
