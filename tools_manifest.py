#!/usr/bin/env python3
"""tools_manifest.py add <ID> <category> <engine> <technique> <text> <note>  — register a check in MANIFEST.json"""
import json,sys
m=json.load(open('/verif/MANIFEST.json'))
def add(pid,cat,engine,tech,text,note):
    e={"property_id":pid,"quick_cmd":f"./check {pid.lower()} quick","thorough_cmd":f"./check {pid.lower()} thorough","evidence_file":f"/verif/evidence/{pid}.json","replay_cmd_template":f"./check {pid.lower()} quick --replay {{path}}","engine":engine,"level_claimed":{"category":cat,"text":text,"design_ref":f"DESIGN.md §4 {pid}"},"level_note":note,"technique":tech}
    m['checks']=[c for c in m['checks'] if c['property_id']!=pid]+[e]
    m['checks'].sort(key=lambda c:c['property_id'])
    m['not_applicable']=[x for x in m['not_applicable'] if x['property_id']!=pid]
if sys.argv[1]=='add':
    add(*sys.argv[2:8])
json.dump(m,open('/verif/MANIFEST.json','w'),indent=1)
