#!/usr/bin/env bash
# tools_seed_confirm.sh <ID> <crate-dir> <package> <test-name> [<crate-dir2> <package2> <test-name2>]
# Confirms a seeded change in ONE scratch worktree (shared target dir to save disk):
#  demo passes without the patch, fails with it, the 673-test suite passes with it.
ID=$1; shift
WT=/tmp/confirm-wt
export CARGO_TARGET_DIR=/tmp/confirm-target
OUT=/tmp/seed-out/$ID/confirm.log
: > $OUT
git -C /repo worktree remove --force $WT 2>/dev/null
git -C /repo worktree add --detach $WT ${SEED_BASE:-HEAD} -q || exit 2
cd $WT
args=("$@")
run_demos() {
  local i=0 rc=0
  while [ $i -lt ${#args[@]} ]; do
    local dir=${args[$i]} pkg=${args[$((i+1))]} t=${args[$((i+2))]}
    mkdir -p $dir/tests; cp /tmp/seed-out/$ID/demo/$t.rs $dir/tests/
    cargo test -p $pkg --test $t --offline >> $OUT 2>&1 || rc=1
    i=$((i+3))
  done
  return $rc
}
run_demos; base=$?
git apply /tmp/seed-out/$ID/patch.diff || { echo "$ID patch does not apply" | tee -a $OUT; exit 2; }
run_demos; withp=$?
# remove demo files before the suite
i=0; while [ $i -lt ${#args[@]} ]; do rm -f ${args[$i]}/tests/${args[$((i+2))]}.rs; i=$((i+3)); done
suite=$(cargo nextest run --workspace --no-fail-fast --tool-config-file pb:/w/lib/nextest.toml --profile pb --test-threads 8 --offline 2>&1 | grep "Summary" | tail -1)
echo "$ID demo_without_patch_rc=$base demo_with_patch_rc=$withp suite: $suite" | tee -a $OUT
cd /; git -C /repo worktree remove --force $WT
