#!/usr/bin/env bash
# tools_seed_detect.sh <SEED-ID> <check> [tier]  — run one check against the seeded worktree /tmp/seed-<ID>
ID=$1; C=$2; T=${3:-quick}
VERIF_REPO=/tmp/seed-$ID VERIF_TARGET_DIR=${SEED_TARGET:-/verif/target-me} /verif/check $C $T > /tmp/seed-out/$ID/detect_$C.log 2>&1
rc=$?
echo "seed=$ID check=$C tier=$T rc=$rc"
grep -E "what:|^VIOLATION|^C[0-9]+ (OK|FAILED)" /tmp/seed-out/$ID/detect_$C.log | cut -c1-300 | head -6
