#!/usr/bin/env bash
# tools_seed_regress.sh [ids…] — re-run every stored seeded change against the check(s) its meta.json names.
# Worktree base: HEAD if the patch applies there, else the commit recorded in meta.json, else older fix points.
cd /verif
ids=("$@"); [ ${#ids[@]} -eq 0 ] && ids=($(ls seeded | sort))
export SEED_TARGET=${SEED_TARGET:-/verif/target-me2}
for id in "${ids[@]}"; do
  checks=$(python3 -c "
import json,re
m=json.load(open('/verif/seeded/$id/meta.json'))
c=re.findall(r'check (c\d\d)', m['detection']['command'])
print(' '.join(dict.fromkeys(c)))")
  rec=$(python3 -c "
import json
m=json.load(open('/verif/seeded/$id/meta.json'))
print(m.get('repo_head_when_written','').split()[0].split('..')[-1])")
  ok=0
  for base in HEAD $rec e781943 989160c 3b58b85 5ab5c65 b5e2a7c 58e66cb 6757af3 3f98803 edf9988; do
    git -C /repo worktree remove --force /tmp/seed-$id 2>/dev/null
    git -C /repo worktree add --detach /tmp/seed-$id $base -q 2>/dev/null || continue
    if git -C /tmp/seed-$id apply /verif/seeded/$id/patch.diff 2>/dev/null; then ok=1; usedbase=$base; break; fi
  done
  if [ $ok -eq 0 ]; then echo "$id: patch applies to no base"; continue; fi
  mkdir -p /tmp/seed-out/$id
  for c in $checks; do
    VERIF_REPO=/tmp/seed-$id VERIF_TARGET_DIR=$SEED_TARGET /verif/check $c quick > /tmp/seed-out/$id/regress_$c.log 2>&1; rc=$?
    echo "$id base=$usedbase check=$c rc=$rc"
  done
  git -C /repo worktree remove --force /tmp/seed-$id
done
