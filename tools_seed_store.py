#!/usr/bin/env python3
"""tools_seed_store.py <ID> <confirm-log> '<change>' '<needs>' '<detect-cmd>' '<detect-result>' '<history>'
Stores a confirmed seeded change under /verif/seeded/<ID>/."""
import sys, os, shutil, json, re
ID, log, change, needs, cmd, res, hist = sys.argv[1:8]
src = f'/tmp/seed-out/{ID}'
dst = f'/verif/seeded/{ID}'
os.makedirs(dst, exist_ok=True)
shutil.copy(f'{src}/patch.diff', dst)
shutil.copy(f'{src}/NOTES.md', dst)
if os.path.exists(f'{dst}/demo'): shutil.rmtree(f'{dst}/demo')
shutil.copytree(f'{src}/demo', f'{dst}/demo')
line = [l.strip() for l in open(log) if l.startswith(ID + ' ')]
assert line, 'no confirm line'
assert 'demo_without_patch_rc=0 demo_with_patch_rc=1' in line[-1] and '673 passed' in line[-1], line[-1]
head = os.environ.get('SEED_BASE') or os.popen('git -C /repo rev-parse --short HEAD').read().strip()
meta = {
 "property": ID[:3], "seed_id": ID,
 "author": "independent sub-agent given only the property record and a scratch worktree of /repo (nothing from /verif)",
 "repo_head_when_written": head,
 "change": change,
 "needs_to_manifest": needs,
 "confirmed_by_lead": {
  "how": "tools_seed_confirm.sh in a fresh scratch worktree: demo test passes without the patch, fails with it; full 673-test nextest suite passes with the patch",
  "result": line[-1],
 },
 "detection": {"command": cmd, "result": res, "history": hist},
}
json.dump(meta, open(f'{dst}/meta.json', 'w'), indent=1)
print('stored', dst)
