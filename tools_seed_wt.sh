#!/usr/bin/env bash
# tools_seed_wt.sh <ID> [base]  — recreate /tmp/seed-<ID> from /verif/seeded/<ID>/patch.diff
ID=$1; BASE=${2:-HEAD}
git -C /repo worktree remove --force /tmp/seed-$ID 2>/dev/null
git -C /repo worktree add --detach /tmp/seed-$ID $BASE -q || exit 2
git -C /tmp/seed-$ID apply /verif/seeded/$ID/patch.diff || { echo "patch does not apply on $BASE"; exit 2; }
mkdir -p /tmp/seed-out/$ID
echo "/tmp/seed-$ID ready"
